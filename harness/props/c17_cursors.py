"""C17 — re-entrant and interleaved use of the iteration / indexing helpers of ONE container object.

The documented algebra says: every iteration over x.bins / x.patches yields x.bins[0], x.bins[1], ...,
x.bins[n-1] and stops, independently of any other iteration over the same container that is in progress, and
indexing / slicing / the lengths never disturb an iteration.  Model/Cursors.v states this for sequences of cursor
operations (CNew = iter(x.bins), CNext, CIndex, CLen); Proofs/CursorsP.v proves that cursors owning their position
satisfy it for ALL interleavings and refutes the variant with one position per (object, axis).

Tie.  A small program over 1-3 real container objects (x, optionally an equal twin / an unrelated container,
optionally a member of x such as x.counts, x.dd: the very object stored inside x) is executed with the python
constructs users write, literally:
    cur = iter(x.bins) / next(cur)          random interleavings on up to 3 raw cursors
    g = (v for v in x.bins) / next(g)        generator expression (iter() at creation), half consumed, resumed later
    def g(): for v in x.bins: yield v        generator function (iter() at its first next)
    for v in x.bins: <body> [break]          nested to depth 3, over the same or the other axis / object
    for vs in zip(x.bins, x.patches, ...)    and map(f, x.bins, x.bins)
    list(x.bins)                             a complete pass of its own, while others are in progress
    x.bins[sel], x.num_bins, x.num_patches   in between
The recorder notes every cursor operation python actually performed and what came back (the yielded container, the
end of the loop, a rejection); nothing about the expected control flow is assumed, so a loop that ends early shows
up as 'StopIteration at position j < n'.  Coq evaluates c17_cursor_case on (objects, operations, observations): the
own-position machine, the statement read off the history, well-formedness, and (diagnosis only) whether the wrong
observations are exactly those of the shared-position variant.  The oracle for every item is Model/Containers.v
applied to the constructor arguments of the objects (never a value the library produced).
Harness-side: the class of every yielded item is the class of its container; a yielded item does not change later;
no operation changes a container.
"""
import copy
import json

import numpy as np

from lib import floatq as fq
from yaw.correlation.corrdata import CorrData
from yaw.redshifts import HistData, RedshiftData

from props import c17 as base

HEADER = "From Verif Require Import Prelude Containers Cursors.\nOpen Scope Q_scope.\n"
SHARD = "Cases_C17_cursors"

TYPES = ("pc", "sw", "nc", "cf", "sd", "rd", "hd")
CLSNAME = dict(base.CLS, rd="RedshiftData", hd="HistData")
AXES = ("bins", "patches")


# ----------------------------------------------------------------------------------------
# objects
# ----------------------------------------------------------------------------------------
def ctype(d):
    """class tag of a description: the five of c17.py plus RedshiftData / HistData (descriptions with t='sd', cls=...)"""
    return d.get("cls", d["t"]) if d["t"] == "sd" else d["t"]


def build(d):
    if d["t"] == "sd" and d.get("cls") in ("rd", "hd"):
        nb = len(d["bin"]["edges"]) - 1
        cls = RedshiftData if d["cls"] == "rd" else HistData
        return cls(base.build(d["bin"]), np.array(d["data"], dtype=float),
                   np.array(d["samples"], dtype=float).reshape((d["nsamples"], nb)))
    return base.build(d)


def g_obj(rng, t, nb=None, P=None):
    if t in ("rd", "hd"):
        d = base.g_container(rng, "sd", nb=nb, P=P)
        d["cls"] = t
        return d
    return base.g_container(rng, t, nb=nb, P=P)


MEMBER_PATHS = {"nc": [["counts"], ["sum_weights"]],
                "cf": [["dd"], ["dr"], ["rd"], ["rr"], ["dd", "counts"], ["dd", "sum_weights"], ["dr", "counts"]]}
DESC_KEY = {"counts": "counts", "sum_weights": "sumw", "dd": "dd", "dr": "dr", "rd": "rd", "rr": "rr"}


def member_desc(d, path):
    for p in path:
        d = d.get(DESC_KEY[p]) if d is not None else None
    return d


def make_objects(spec):
    """spec: list of dict(d=description) | dict(twin_of=i) | dict(member_of=i, path=[...]) ->
    (real objects, descriptions).  A twin is built a second time from the same description (equal, another object);
    a member is THE object stored inside the container."""
    objs, descs = [], []
    for s in spec:
        if "d" in s:
            descs.append(s["d"])
            objs.append(build(s["d"]))
        elif "twin_of" in s:
            descs.append(descs[s["twin_of"]])
            objs.append(build(descs[s["twin_of"]]))
        else:
            o = objs[s["member_of"]]
            for p in s["path"]:
                o = getattr(o, p)
            descs.append(member_desc(descs[s["member_of"]], s["path"]))
            objs.append(o)
    return objs, descs


def axis_len(d, axis):
    nb, P, _, _ = base.dims(d)
    return nb if axis == "bins" else P


def sources_of(descs):
    out = []
    for o, d in enumerate(descs):
        out.append((o, "bins"))
        if d["t"] != "sd":
            out.append((o, "patches"))
    return out


# ----------------------------------------------------------------------------------------
# programs: executed with the literal python constructs; every cursor operation is recorded
# ----------------------------------------------------------------------------------------
class Abort(Exception):
    pass


def bound(prog, descs):
    """upper bound on the number of operations a program records when the statement holds (the control flow of a
    program depends on nothing but the observations).  A run that records more has gone wrong before; it is cut there
    (a shared position can make a loop endless) and judged on what was recorded."""
    total = 0
    for node in prog:
        kind = node[0]
        if kind in ("iter", "gen", "index", "len"):
            total += 1
        elif kind == "next":
            total += 2
        elif kind == "list":
            total += axis_len(descs[node[2][0]], node[2][1]) + 2
        elif kind == "for":
            n = axis_len(descs[node[2][0]], node[2][1])
            rounds = n if node[3] is None else min(n, node[3])
            total += 2 + rounds * (1 + bound(node[4], descs))
        elif kind == "zip":
            m = len(node[2])
            n = min(axis_len(descs[s_[0]], s_[1]) for s_ in node[3])
            rounds = n if node[4] is None else min(n, node[4])
            total += m + 1 + rounds * (m + bound(node[5], descs))
    return total


def run_prog(objs, prog, cap=10 ** 9, enc=lambda v: None):
    """-> dict(ev=[(op, obs)], raised=None | dict(...), runaway=bool).  op: ('new', k, (o, axis)) | ('next', k) | ('index', (o, axis), sel)
    | ('len', (o, axis)); obs: ('none',) | ('item', obj, enc(obj) at that moment) | ('stop',) | ('err',) | ('num', n)"""
    class Ev(list):
        def append(self, e):
            if len(self) >= cap:
                raise Abort()
            list.append(self, e)

    ev = Ev()
    cur = {}
    src_of = {}
    state = dict(pending=None, raised=None, runaway=False)

    def S(src):
        return getattr(objs[src[0]], src[1])

    def new(k, src):
        src_of[k] = (src[0], src[1])
        ev.append((("new", k, (src[0], src[1])), ("none",)))

    def item(k, v):
        ev.append((("next", k), ("item", v, enc(v))))

    def stop(k):
        ev.append((("next", k), ("stop",)))

    def lazy(k, src):
        def g():
            state["pending"] = ("new", k, (src[0], src[1]))
            it = iter(S(src))
            new(k, src)
            state["pending"] = ("next", k)
            for v in it:
                yield v
        return g()

    def ex(node):
        kind = node[0]
        if kind == "iter":
            _, k, src = node
            state["pending"] = ("new", k, (src[0], src[1]))
            cur[k] = iter(S(src))
            new(k, src)
        elif kind == "gen":
            _, k, src = node
            state["pending"] = ("new", k, (src[0], src[1]))
            cur[k] = (v for v in S(src))
            new(k, src)
        elif kind == "lazygen":
            _, k, src = node
            cur[k] = lazy(k, src)
        elif kind == "next":
            k = node[1]
            if k not in cur:
                return
            state["pending"] = ("next", k)
            try:
                v = next(cur[k])
            except StopIteration:
                if k in src_of:
                    stop(k)
                return
            item(k, v)
        elif kind == "index":
            _, src, sel = node
            op = ("index", (src[0], src[1]), sel)
            state["pending"] = op
            try:
                v = S(src)[base.py_sel(sel)]
            except base.REJECT:
                ev.append((op, ("err",)))
                return
            ev.append((op, ("item", v, enc(v))))
        elif kind == "len":
            src = node[1]
            op = ("len", (src[0], src[1]))
            state["pending"] = op
            o = objs[src[0]]
            ev.append((op, ("num", int(o.num_bins if src[1] == "bins" else o.num_patches))))
        elif kind == "list":
            _, k, src = node
            state["pending"] = ("new", k, (src[0], src[1]))
            h = S(src)
            new(k, src)
            state["pending"] = ("next", k)
            for v in list(h):
                item(k, v)
            stop(k)
        elif kind == "for":
            _, k, src, limit, body = node
            state["pending"] = ("new", k, (src[0], src[1]))
            h = S(src)
            new(k, src)
            state["pending"] = ("next", k)
            n = 0
            broke = False
            for v in h:
                item(k, v)
                n += 1
                for b in body:
                    ex(b)
                if limit is not None and n >= limit:
                    broke = True
                    break
                state["pending"] = ("next", k)
            if not broke:
                stop(k)
        elif kind == "zip":
            _, fn, ks, srcs, limit, body = node
            state["pending"] = ("new", ks[0], (srcs[0][0], srcs[0][1]))
            hs = [S(s) for s in srcs]
            z = zip(*hs) if fn == "zip" else map(lambda *a: a, *hs)
            for k, s in zip(ks, srcs):      # zip / map call iter() on their arguments in order
                new(k, s)
            state["pending"] = ("next", ks[0])
            n = 0
            broke = False
            for vs in z:
                for k, v in zip(ks, vs):
                    item(k, v)
                n += 1
                for b in body:
                    ex(b)
                if limit is not None and n >= limit:
                    broke = True
                    break
                state["pending"] = ("next", ks[0])
            if not broke:
                stop(ks[0])     # the first argument is (one of) the shortest: it is the one that ends the loop
        else:
            raise ValueError(kind)

    try:
        for node in prog:
            ex(node)
    except Abort:
        state["runaway"] = True
    except base.REJECT as e:
        list.append(ev, (state["pending"], ("err",)))
        state["raised"] = dict(type=type(e).__name__, msg=str(e)[:200], site=base.failing_site(e), rejecting=True)
    except Exception as e:      # noqa: BLE001  (AttributeError & co. are never a documented outcome)
        import traceback
        list.append(ev, (state["pending"], ("err",)))
        state["raised"] = dict(type=type(e).__name__, msg=str(e)[:200], site=base.failing_site(e), rejecting=False,
                               tb=traceback.format_exc()[-1200:])
    return dict(ev=list(ev), raised=state["raised"], runaway=state["runaway"])


# ----------------------------------------------------------------------------------------
# Coq terms
# ----------------------------------------------------------------------------------------
def enc_src(s):
    return "(%s, %s)" % (fq.nat(s[0]), "ABins" if s[1] == "bins" else "APatches")


def enc_op(op):
    if op[0] == "new":
        return "(CNew %s %s)" % (fq.nat(op[1]), enc_src(op[2]))
    if op[0] == "next":
        return "(CNext %s)" % fq.nat(op[1])
    if op[0] == "index":
        return "(CIndex %s %s)" % (enc_src(op[1]), base.enc_sel(op[2]))
    return "(CLen %s)" % enc_src(op[1])


def enc_obs(ob):
    if ob[0] == "none":
        return "BNone"
    if ob[0] == "stop":
        return "BStop"
    if ob[0] == "err":
        return "BErr"
    if ob[0] == "num":
        return "(BNum %s)" % fq.nat(ob[1])
    return "(BItem %s)" % ob[2]


def text_op(op, names):
    def s(src):
        return "%s.%s" % (names[src[0]], src[1])
    if op[0] == "new":
        return "cur%d = iter(%s)" % (op[1], s(op[2]))
    if op[0] == "next":
        return "next(cur%d)" % op[1]
    if op[0] == "index":
        return "%s[%r]" % (s(op[1]), base.py_sel(op[2]))
    return "%s.num_%s" % (names[op[1][0]], op[1][1])


# ----------------------------------------------------------------------------------------
# generators
# ----------------------------------------------------------------------------------------
def g_spec(rng, big=False):
    t = rng.choice(TYPES)
    sizes = [1, 2, 2, 3, 3, 4] + ([5, 6] if big else [])
    x = g_obj(rng, t, nb=rng.choice(sizes), P=rng.choice(sizes))
    spec = [dict(d=x)]
    r = rng.random()
    if r < 0.25:
        spec.append(dict(twin_of=0))
    elif r < 0.4:
        spec.append(dict(d=g_obj(rng, rng.choice(TYPES), nb=rng.choice(sizes[:4]), P=rng.choice(sizes[:4]))))
    if t in MEMBER_PATHS and rng.random() < 0.35:
        paths = [p for p in MEMBER_PATHS[t] if member_desc(x, p) is not None]
        spec.append(dict(member_of=0, path=rng.choice(paths)))
    return spec


class ProgGen:
    """random program; cost = (estimated) number of recorded operations under the statement"""

    def __init__(self, rng, descs, budget):
        self.rng = rng
        self.descs = descs
        self.srcs = sources_of(descs)
        # most cursors go over the first object (the point is ONE container), some over the others
        self.weighted = [s for s in self.srcs if s[0] == 0] * 4 + self.srcs
        self.left = budget
        self.raw = []       # raw cursor slots 0..2 in use
        self.fresh = 3      # ids of the cursors of compound constructs

    def src(self):
        return list(self.rng.choice(self.weighted))

    def n(self, src):
        return axis_len(self.descs[src[0]], src[1])

    def simple(self):
        rng = self.rng
        r = rng.random()
        if r < 0.22 or not self.raw:
            if self.raw and (len(self.raw) == 3 or rng.random() < 0.3):
                k = rng.choice(self.raw)
            else:
                k = len(self.raw)
                self.raw.append(k)
            self.left -= 1
            return [rng.choice(["iter", "iter", "gen", "lazygen"]), k, self.src()]
        if r < 0.75:
            self.left -= 1
            return ["next", rng.choice(self.raw)]
        if r < 0.9:
            s = self.src()
            self.left -= 1
            return ["index", s, list(base.g_sel(rng, self.n(s), s[1], None))]
        self.left -= 1
        return ["len", self.src()]

    def node(self, depth, mult):
        """mult: how often the enclosing loops repeat this node"""
        rng = self.rng
        r = rng.random()
        if r < 0.55 or depth >= 3 or self.left < 4 * mult:
            before = self.left
            nd = self.simple()
            self.left = before - mult
            return nd
        if r < 0.65:
            s = self.src()
            k = self.fresh
            self.fresh += 1
            self.left -= mult * (self.n(s) + 2)
            return ["list", k, s]
        if r < 0.87:
            s = self.src()
            n = self.n(s)
            k = self.fresh
            self.fresh += 1
            limit = None if rng.random() < 0.7 else rng.randrange(1, n + 1)
            rounds = n if limit is None else min(n, limit)
            self.left -= mult * (rounds + 2)
            body = [self.node(depth + 1, mult * max(rounds, 1)) for _ in range(rng.choice([0, 1, 1, 2, 3]))]
            return ["for", k, s, limit, body]
        m = rng.choice([2, 2, 2, 3])
        ss = sorted((self.src() for _ in range(m)), key=self.n)
        ks = list(range(self.fresh, self.fresh + m))
        self.fresh += m
        n = self.n(ss[0])
        limit = None if rng.random() < 0.75 else rng.randrange(1, n + 1)
        rounds = n if limit is None else min(n, limit)
        self.left -= mult * (m * rounds + m + 1)
        body = [self.node(depth + 1, mult * max(rounds, 1)) for _ in range(rng.choice([0, 0, 1, 2]))]
        return ["zip", rng.choice(["zip", "zip", "map"]), ks, ss, limit, body]

    def program(self):
        prog = []
        while self.left > 0 and len(prog) < 40:
            prog.append(self.node(0, 1))
        return prog


def g_case(rng, big=False):
    spec = g_spec(rng, big)
    _, descs = None, []
    for s in spec:      # descriptions only (no objects yet)
        if "d" in s:
            descs.append(s["d"])
        elif "twin_of" in s:
            descs.append(descs[s["twin_of"]])
        else:
            descs.append(member_desc(descs[s["member_of"]], s["path"]))
    prog = ProgGen(rng, descs, rng.choice([12, 25, 40, 60] if not big else [25, 60, 90, 140])).program()
    return dict(spec=spec, prog=prog)


def scenarios(src, n, other):
    """the everyday forms of overlapping use of one helper; src = (0, axis), n = its length; other = another source of
    the same object or None"""
    s = list(src)
    out = {
        "nested": [["for", 3, s, None, [["for", 4, s, None, []]]]],
        "nested3": [["for", 3, s, None, [["for", 4, s, None, [["for", 5, s, 2, []]]]]]],
        "zip": [["zip", "zip", [3, 4], [s, s], None, []]],
        "zip3": [["zip", "zip", [3, 4, 5], [s, s, s], None, []]],
        "map": [["zip", "map", [3, 4], [s, s], None, []]],
        "half-consumed-generator-then-loop": [["gen", 0, s], ["next", 0], ["for", 3, s, None, []], ["next", 0], ["next", 0]],
        "lazy-generator-resumed-inside-loop": [["lazygen", 0, s], ["next", 0], ["for", 3, s, None, [["next", 0]]], ["next", 0]],
        "break-then-loop": [["for", 3, s, 1, []], ["for", 4, s, None, []], ["list", 5, s]],
        "list-twice": [["list", 3, s], ["list", 4, s], ["for", 5, s, None, [["list", 6, s]]]],
        "two-iterators-alternating": [["iter", 0, s], ["iter", 1, s]] + [["next", 0], ["next", 1]] * (n + 1),
        "two-iterators-one-ahead": [["iter", 0, s], ["next", 0], ["next", 0], ["iter", 1, s], ["next", 1], ["next", 0], ["next", 1],
                                    ["next", 1], ["next", 0], ["next", 1]],
        "index-len-slice-during-iteration": [["iter", 0, s], ["next", 0], ["index", s, ["int", -1]], ["len", s], ["next", 0],
                                              ["index", s, ["slice", None, None, None]], ["index", s, ["int", 0]], ["next", 0],
                                              ["list", 3, s], ["next", 0], ["next", 0]],
        "iterator-recreated-inside-loop": [["for", 3, s, None, [["iter", 0, s], ["next", 0]]], ["next", 0]],
    }
    if other is not None:
        o = list(other)
        out["nested-other-axis"] = [["for", 3, s, None, [["for", 4, o, None, [["for", 5, s, 1, []]]]]]]
    return out


def mk_grid(rng):
    """deterministic structure, contents from the seed: every class x axis x everyday form of overlapping use"""
    out = []
    for t in TYPES:
        nb, P = rng.choice([2, 3, 4]), rng.choice([2, 3, 4])
        x = g_obj(rng, t, nb=nb, P=P)
        for axis in AXES:
            if axis == "patches" and x["t"] == "sd":
                continue
            other = None if x["t"] == "sd" else (0, "patches" if axis == "bins" else "bins")
            for name, prog in scenarios((0, axis), axis_len(x, axis), other).items():
                out.append(dict(spec=[dict(d=x)], prog=prog, scenario=name))
        # the helper of a member object (x.counts, x.dd, ...) and of its container at the same time; an equal twin
        if t in MEMBER_PATHS:
            for path in MEMBER_PATHS[t]:
                if member_desc(x, path) is None:
                    continue
                out.append(dict(spec=[dict(d=x), dict(member_of=0, path=path)], scenario="container-and-member",
                                prog=[["zip", "zip", [3, 4], [[0, "bins"], [1, "bins"]], None, [["list", 5, [1, "bins"]]]],
                                      ["for", 6, [1, "patches"], None, [["for", 7, [0, "patches"], None, [["for", 8, [1, "patches"], 1, []]]]]]]))
        out.append(dict(spec=[dict(d=x), dict(twin_of=0)], scenario="equal-twin",
                        prog=[["zip", "zip", [3, 4, 5], [[0, "bins"], [1, "bins"], [0, "bins"]], None, []],
                              ["for", 6, [1, "bins"], None, [["for", 7, [0, "bins"], None, [["for", 8, [1, "bins"], None, []]]]]]]))
    return out


# ----------------------------------------------------------------------------------------
# one case
# ----------------------------------------------------------------------------------------
def canon(case):
    return json.dumps(case, sort_keys=True, default=str)


def names_of(spec):
    names = []
    for s in spec:
        if "d" in s:
            names.append("x" if not names else "y")
        elif "twin_of" in s:
            names.append("twin")
        else:
            names.append(names[s["member_of"]] + "." + ".".join(s["path"]))
    return names


def evaluate(ctx, case, idx):
    """run one program on real objects -> info (term = Coq term or None)"""
    spec, prog = case["spec"], case["prog"]
    objs, descs = make_objects(spec)
    before = [base.enc_val(o) for o in objs]
    res = run_prog(objs, prog, cap=bound(prog, descs) + 5, enc=base.enc_val)
    ev = res["ev"]
    # the model's objects: from the constructor arguments, on fresh objects (not the ones the program used)
    fresh, _ = make_objects(spec)
    obj_terms = [base.enc_val(o) for o in fresh]
    info = dict(idx=idx, case=case, raised=res["raised"], runaway=res["runaway"], ev=ev, names=names_of(spec), descs=descs, problems=[])
    # cursor -> source at every step; the class of an item is the class of its container
    srcmap, cur_src = [], {}
    for op, ob in ev:
        if op[0] == "new":
            cur_src[op[1]] = op[2]
        srcmap.append(cur_src.get(op[1]) if op[0] in ("new", "next") else op[1])
    info["srcmap"] = srcmap
    for j, (op, ob) in enumerate(ev):
        if ob[0] == "item" and srcmap[j] is not None and type(ob[1]) is not type(objs[srcmap[j][0]]):
            info["problems"].append(("item-wrong-class", j, "%s.%s gave a %s" % (type(objs[srcmap[j][0]]).__name__, srcmap[j][1],
                                                                                   type(ob[1]).__name__)))
    # items are values: what was yielded at step j is still the same at the end of the program
    for j, (op, ob) in enumerate(ev):
        if ob[0] == "item" and base.enc_val(ob[1]) != ob[2]:
            info["problems"].append(("yielded-item-changed-later", j, "the container obtained at step %d was changed by a later step" % j))
    after = [base.enc_val(o) for o in objs]
    for o, (a, b) in enumerate(zip(before, after)):
        if a != b:
            info["problems"].append(("container-changed", None, "%s was changed by iterating / indexing" % info["names"][o]))
    if before != obj_terms:
        info["problems"].append(("harness", None, "objects built twice from one description differ"))
    info["term"] = "c17_cursor_case %s %s %s" % (fq.lst(obj_terms), fq.lst([enc_op(op) for op, _ in ev]),
                                                 fq.lst([enc_obs(ob) for _, ob in ev]))
    # bookkeeping
    t0 = ctype(descs[0])
    live = max_live(ev)
    ctx.count(key=("cursors", canon(case)), nontrivial=(live >= 2), kind="cursors/%s" % t0)
    ctx.bump("cursors:max-live-cursors-on-one-helper=%d" % min(live, 4))
    ctx.bump("cursors:operations", len(ev))
    for kind in {n[0] for n in walk(prog)}:
        ctx.bump("cursors:construct:" + kind)
    if case.get("scenario"):
        ctx.bump("cursors:scenario:" + case["scenario"])
    if idx % 61 == 0:
        ctx.sample(dict(objects=info["names"], classes=[ctype(d) for d in descs], program=prog, operations=len(ev)), limit=5)
    return info


def walk(prog):
    for n in prog:
        yield n
        if n[0] == "for":
            yield from walk(n[4])
        elif n[0] == "zip":
            yield from walk(n[5])


def max_live(ev):
    """largest number of unfinished cursors over one (object, axis) at any moment (a cursor is finished when it stopped)"""
    live, src, best = {}, {}, 0
    for op, ob in ev:
        if op[0] == "new":
            src[op[1]] = op[2]
            live[op[1]] = True
        elif op[0] == "next" and ob[0] in ("stop", "err"):
            live[op[1]] = False
        per = {}
        for k, on in live.items():
            if on:
                per[src[k]] = per.get(src[k], 0) + 1
        best = max([best] + list(per.values()))
    return best


def trace_text(info, upto):
    out = []
    pos = {}
    for j, (op, ob) in enumerate(info["ev"][:upto + 1]):
        t = text_op(op, info["names"])
        if op[0] == "new":
            pos[op[1]] = 0
        exp = ""
        if op[0] == "next":
            exp = " [own position %d]" % pos.get(op[1], -1)
            pos[op[1]] = pos.get(op[1], 0) + 1
        got = {"none": "", "stop": " -> StopIteration", "err": " -> raised", "num": " -> %s" % (ob[1] if len(ob) > 1 else "")}.get(ob[0])
        if got is None:
            got = " -> a %s%s" % (type(ob[1]).__name__, describe(ob[1]))
        out.append("%2d %s%s%s" % (j, t, got, exp))
    return out


def describe(v):
    try:
        e = [float(x) for x in v.binning.edges]
        extra = "" if not hasattr(v, "num_patches") else ", %d patches" % v.num_patches
        return " (edges %s%s)" % (e, extra)
    except Exception:  # noqa: BLE001
        return ""


def judge(ctx, info, c):
    idx = ("cursors", info["idx"])
    case = info["case"]
    names, ev = info["names"], info["ev"]
    t0 = CLSNAME[ctype(info["descs"][0])].lower()
    replay = dict(cursors=True, case=case, code=c, raised=info["raised"])
    for kind, j, text in info["problems"]:
        if kind == "harness":
            ctx.obligation("harness:c17-cursors-objects-reproducible(case %s)" % info["idx"], False, text)
            continue
        src = info["srcmap"][j] if j is not None else None
        cls = CLSNAME[ctype(info["descs"][src[0]])].lower() if src is not None else t0
        ax = src[1] if src is not None else "helpers"
        ctx.fail("c17-%s-%s-%s" % (cls, ax, kind), text, dict(replay, trace=trace_text(info, j if j is not None else len(ev) - 1)), case=idx)
    raised = info["raised"]
    if raised is not None and not raised["rejecting"]:
        op = ev[-1][0]
        src = info["srcmap"][-1]
        cls = CLSNAME[ctype(info["descs"][src[0]])].lower() if src is not None else t0
        ctx.fail("c17-%s-%s-%s-%s" % (cls, src[1] if src else "helpers", {"new": "iter", "next": "next", "index": "index", "len": "len"}[op[0]],
                                      raised["type"].lower()),
                 "%s raised %s at %s: %s" % (text_op(op, names), raised["type"], raised["site"], raised["msg"]),
                 dict(replay, trace=trace_text(info, len(ev) - 1)), case=idx)
        if c:
            ctx.disagree(SHARD, idx, dict(code=c))
        return
    if c is None:
        return
    if info["runaway"]:
        ctx.bump("cursors:program-did-not-end-within-its-bound")
        if c % 16 & 2 == 0:
            ctx.obligation("harness:c17-cursors-bound(case %s)" % info["idx"], False,
                           "the program recorded more operations than its bound although every observation satisfies the statement")
    if c == 0:
        return
    flags, first = c % 16, c // 16
    if flags & 4 and not (flags & 2):
        # the statement holds on the observations but an object is malformed: the harness built a bad container
        ctx.disagree(SHARD, idx, dict(code=c, note="well-formedness flag"))
        return
    if flags & 2:
        j = max(first - 1, 0)
        j = min(j, len(ev) - 1)
        op, ob = ev[j]
        src = info["srcmap"][j]
        cls = CLSNAME[ctype(info["descs"][src[0]])].lower()
        live = max_live(ev[:j + 1])
        if op[0] == "next":
            what = "interleaved-iteration-wrong-item" if ob[0] == "item" else (
                "interleaved-iteration-ends-early" if ob[0] == "stop" else "interleaved-iteration-raises")
            if live < 2:
                what = what.replace("interleaved-", "")
        elif op[0] == "index":
            what = "index-during-iteration-wrong-result"
        elif op[0] == "len":
            what = "length-wrong"
        else:
            what = "iter-wrong"
        sig = "c17-%s-%s-%s" % (cls, src[1], what)
        if flags & 8:
            sig += ":shared-position"
        got = {"item": "a container that is not the item at the cursor's own position", "stop": "StopIteration before the last item",
               "err": "an error", "num": "another number", "none": "-"}[ob[0]]
        ctx.fail(sig, "%s: step %d `%s` gave %s while %d iteration(s) over %s.%s were in progress; every iteration must yield "
                 "%s.%s[0], [1], ... in order, independently of the others%s"
                 % (CLSNAME[ctype(info["descs"][src[0]])], j, text_op(op, names), got, live, names[src[0]], src[1], names[src[0]], src[1],
                    " (the observations are exactly those of ONE position shared by all iterations over the helper)" if flags & 8 else ""),
                 dict(replay, first_wrong_step=j, trace=trace_text(info, j)), case=idx)
    ctx.disagree(SHARD, idx, dict(code=c))


def run_cases(ctx, cases):
    infos = [evaluate(ctx, case, i) for i, case in enumerate(cases)]
    codes = ctx.shards(SHARD, HEADER, [i["term"] for i in infos], shard=25)
    for info, c in zip(infos, codes):
        judge(ctx, info, c)


def held_helper_probe(ctx):
    """not judged: an Indexer object kept in a variable is an Iterator by its declared type, iter(h) is h by the iterator
    protocol; the statement is about the helper read from the container (x.bins) for every iteration."""
    x = build(g_obj(ctx.rng, "pc", nb=3, P=2))
    h = x.bins
    ctx.bump("cursors:held-helper-is-its-own-iterator(not judged)=%s" % (iter(h) is h))


def run(ctx):
    cases = mk_grid(ctx.rng)
    ngrid = len(cases)
    seen = {canon(c) for c in cases}
    n = ngrid + ctx.n(150, 2500)
    tries = 0
    while len(cases) < n and tries < 20 * n:
        tries += 1
        c = g_case(ctx.rng, big=not ctx.quick())
        k = canon(c)
        if k in seen or not c["prog"]:
            continue
        seen.add(k)
        cases.append(c)
    ctx.log("cursor programs: %d (everyday forms x class x axis %d)" % (len(cases), ngrid))
    held_helper_probe(ctx)
    run_cases(ctx, cases)


def replay(ctx, rp):
    run_cases(ctx, [rp["case"]])
