"""C18 — input is consumed in bounded chunks, each record once per pass.

Tie: a logging data-frame proxy (and logging proxies around h5py / pyarrow file objects) is
handed to the real Catalog.from_dataframe / from_file; the logged request list is compared
inside Coq with Model/Chunks.v:slices (c18_case), for every pass.
"""
import os

import numpy as np

from lib import floatq as fq
from lib import impl

ALLOWED_AXIOMS = []
TRUSTED = [
    "logging proxies (harness side) around the data frame, h5py.File datasets and pyarrow ParquetFile; FITS access is not logged (astropy memory-maps the table; library behaviour)",
]
ASSUMPTIONS = ["a new pass is recognised by a request that starts again at row 0"]
RULE = ("cases = (source, n, cs, patch mode incl. generated centres = 2 passes); distinct by that tuple; "
        "non-trivial when n > cs (more than one request per pass)")
HEADER = "From Verif Require Import Prelude Chunks ChunksBuf Writer.\nOpen Scope nat_scope.\n"


class ProxyChunk:
    def __init__(self, df, log):
        self.df, self.log = df, log

    def __getitem__(self, name):
        return self.df[name]

    def __len__(self):
        return len(self.df)

    def __getattr__(self, name):       # anything else is forwarded: the proxies only log, they never restrict
        return getattr(self.df, name)


class ProxyFrame:
    """What DataFrameReader needs from a data frame: len() and row slicing."""

    def __init__(self, df, log):
        self.df, self.log = df, log

    def __len__(self):
        return len(self.df)

    def __getitem__(self, item):
        if isinstance(item, slice):
            self.log.append(("rows", item.start, item.stop))
            return ProxyChunk(self.df[item], self.log)
        self.log.append(("column", str(item), None))  # a whole column at once
        return self.df[item]

    def __getattr__(self, name):
        if name in ("iloc", "loc", "values", "to_numpy", "itertuples", "iterrows"):
            self.log.append(("other", name, None))   # access paths whose extent the proxy cannot see
        return getattr(self.df, name)


class ProxyDataset:
    def __init__(self, ds, log):
        self.ds, self.log = ds, log

    def __len__(self):
        return len(self.ds)

    def __getitem__(self, item):
        if isinstance(item, slice):
            self.log.append(("rows", item.start, item.stop))
        else:
            self.log.append(("other", repr(item), None))
        return self.ds[item]

    def __getattr__(self, name):
        if name in ("read_direct", "astype", "fields", "iter_chunks"):
            self.log.append(("other", name, None))
        return getattr(self.ds, name)


class ProxyH5:
    def __init__(self, f, log, first):
        self.f, self.log, self.first = f, log, first

    def __getitem__(self, name):
        ds = self.f[name]
        # log the row requests of one column only (all columns are sliced identically)
        return ProxyDataset(ds, self.log if name == self.first else [])

    def close(self):
        self.f.close()

    def __getattr__(self, name):
        return getattr(self.f, name)

    def __enter__(self):
        return self

    def __exit__(self, *exc):
        self.f.close()


def split_passes(log, n):
    passes, cur = [], None
    for kind, a, b in log:
        if kind != "rows":
            return None
        if a == 0 or cur is None:
            cur = []
            passes.append(cur)
        cur.append((a, b))
    return passes


def run(ctx):
    import yaw.catalog.readers as readers
    rng = ctx.rng
    terms, metas = [], []
    combos = []
    for cs in [1, 2, 3, 4, 7, 16]:
        for n in sorted({1, max(1, cs - 1), cs, cs + 1, 2 * cs, 2 * cs + 1, 3 * cs - 1 if cs > 1 else 3, 5 * cs + 2}):
            combos.append((n, cs))
    reps = ctx.n(1, 4)
    if not ctx.quick():
        grid = [(n, cs) for n in range(1, 61) for cs in range(1, 21)]
        rng.shuffle(grid)
        combos = combos + grid[:200]
    idx = 0
    impl.set_threads(1)
    for (n, cs) in combos:
        for rep in range(reps):
            src = rng.choice(["df", "df", "hdf5"])
            mode = rng.choice(["centers", "name", "create"]) if n >= 4 else rng.choice(["centers", "name"])
            ra = np.asarray([10.0 + (i * 37 % 101) / 4.0 for i in range(n)])
            dec = np.asarray([-5.0 + (i * 53 % 89) / 8.0 for i in range(n)])
            cols = {"ra": ra, "dec": dec, "pid": np.asarray([i % 2 for i in range(n)])}
            kwargs = dict(ra_name="ra", dec_name="dec", chunksize=cs, max_workers=1)
            passes_expected = 1
            if mode == "centers":
                kwargs["patch_centers"] = impl.AngularCoordinates(np.deg2rad([[15.0, 0.0], [30.0, 3.0]]))
            elif mode == "name":
                kwargs["patch_name"] = "pid"
            else:
                kwargs["patch_num"] = 2
                passes_expected = 2
            log = []
            cache = impl.fresh_dir(ctx, "cat")
            err = None
            try:
                if src == "df":
                    impl.Catalog.from_dataframe(cache, ProxyFrame(impl.make_df(cols), log), **kwargs)
                else:
                    import h5py
                    path = os.path.join(ctx.workdir, "src.hdf5")
                    with h5py.File(path, "w") as f:
                        for k, v in cols.items():
                            f.create_dataset(k, data=v)
                    orig = readers.h5py

                    class _H5:
                        @staticmethod
                        def File(p, mode="r"):
                            return ProxyH5(orig.File(p, mode=mode), log, "ra")
                    readers.h5py = _H5
                    try:
                        impl.Catalog.from_file(cache, path, **kwargs)
                    finally:
                        readers.h5py = orig
                        os.unlink(path)
            except Exception as e:
                err = e
            import shutil
            shutil.rmtree(cache, ignore_errors=True)
            spec = dict(n=n, cs=cs, src=src, mode=mode)
            ctx.count(key=(n, cs, src, mode), nontrivial=n > cs, kind="%s/%s" % (src, mode))
            if err is not None:
                # empty centre etc. are C09/C12 matters; here only valid inputs are generated
                if mode == "centers" and isinstance(err, ValueError) and ("contains no data" in str(err) or "patch centers and patch IDs with data do not match" in str(err)):
                    # a given centre attracted no record: creation must refuse (C09/C12), not a valid input here
                    ctx.bump("skipped_empty_patch")
                    continue
                ctx.fail("c18-raises:%s" % type(err).__name__, "valid creation raised %r" % err, spec, case=idx)
                idx += 1
                continue
            eff_cs = cs  # DataReader.__init__ overwrites the min(n, cs) set by the file readers
            passes = split_passes(log, n)
            if passes is None:
                odd = [l for l in log if l[0] != "rows"]
                if any(l[0] == "column" for l in odd):
                    ctx.fail("c18-whole-input", "the source was asked for a whole column at once: %s" % odd[:3],
                             dict(spec, log=log[:20]), case=idx)
                else:
                    # an access path whose extent the logging proxy cannot see: the tie is broken, nothing is shown
                    ctx.disagree("c18-access-path-not-observable", idx, dict(spec, log=log[:20]))
                idx += 1
                continue
            raw_ok = all((b - a) <= eff_cs for p in passes for a, b in p)
            clipped = [[(a, min(b, n)) for a, b in p] for p in passes]
            terms.append("(c18_case %s %s %s %s + (if %s then 0 else 8))" % (
                fq.nat(n), fq.nat(eff_cs), fq.nat(passes_expected),
                fq.lst([fq.lst([fq.pair(fq.nat(a), fq.nat(b)) for a, b in p]) for p in clipped]), fq.b(raw_ok)))
            metas.append((idx, dict(spec, log=log[:40])))
            ctx.sample(dict(spec, requests=clipped), limit=3)
            idx += 1
    # get_probe bookkeeping: rows returned for a probe of size k = the linspace indices
    for (n, cs, k) in [(10, 3, 4), (17, 5, 17), (9, 2, 3), (20, 7, 6), (5, 5, 2), (12, 4, 1)][: ctx.n(4, 6)]:
        log = []
        cols = {"ra": np.arange(n, dtype="f8"), "dec": np.zeros(n)}
        rd = readers.DataFrameReader(ProxyFrame(impl.make_df(cols), log), ra_name="ra", dec_name="dec",
                                     chunksize=cs, degrees=False)
        probe = rd.get_probe(k)
        got = sorted(int(round(x)) for x in probe["ra"])
        want = sorted(np.linspace(0, n - 1, k).astype(int).tolist())
        passes = split_passes(log, n)
        ctx.count(key=("probe", n, cs, k), kind="probe")
        lens = [min(b, n) - a for a, b in passes[0]] if passes else []
        terms.append("code [list_eqb Z.eqb (probe_run %s 0%%Z %s) %s; c18_agree %s %s %s]" % (
            fq.zlist(lens), fq.zlist(want), fq.zlist(got), fq.nat(n), fq.nat(cs),
            fq.lst([fq.pair(fq.nat(a), fq.nat(min(b, n))) for a, b in (passes[0] if passes else [])])))
        metas.append((idx, dict(probe=(n, cs, k), got=got, want=want)))
        if got != want:
            ctx.fail("c18-probe", "get_probe returned rows %s instead of %s" % (got, want), dict(n=n, cs=cs, k=k), case=idx)
        idx += 1
    # ---- Parquet: row groups are the unit of access; the reader must request every row group once, in
    #      order, only as far as needed for the next chunk, and deliver exactly the chunks of the model
    #      (Model/Chunks.v: parquet_chunks = chunks of the concatenated row groups, C02_parquet_chunks)
    import pyarrow as pa
    import pyarrow.parquet as pq
    layouts = [(10, 4, 3), (12, 5, 12), (9, 2, 1), (20, 7, 6), (7, 3, 4), (11, 4, 4), (13, 5, 2), (1000, 250, 300), (6, 8, 4)]
    # files written incrementally: row groups of unequal sizes (first group larger / smaller than later ones)
    uneven = [(30, [30, 30, 10, 10, 10, 10]), (4, [5, 1, 1, 1, 3, 2]), (6, [2, 9, 1, 7]), (3, [8, 1, 1, 1, 1])]
    jobs = [(n, cs, rg, None) for (n, cs, rg) in layouts[: ctx.n(6, 9)]]
    jobs += [(sum(g), cs, None, g) for (cs, g) in uneven[: ctx.n(3, 4)]]
    for _ in range(ctx.n(8, 80)):
        if rng.random() < 0.5:
            jobs.append((rng.randrange(5, 60), rng.randrange(2, 12), rng.randrange(1, 15), None))
        else:
            g = [rng.randrange(1, 12) for _ in range(rng.randrange(2, 8))]
            jobs.append((sum(g), rng.randrange(2, 14), None, g))
    for (n, cs, rg, gsizes) in jobs:
        path = os.path.join(ctx.workdir, "src.pqt")
        table = pa.table({"ra": np.arange(n, dtype="f8"), "dec": np.zeros(n)})
        if gsizes is None:
            pq.write_table(table, path, row_group_size=rg)
        else:
            rg = 0
            with pq.ParquetWriter(path, table.schema) as wr:
                at = 0
                for g in gsizes:
                    wr.write_table(table.slice(at, g), row_group_size=g)
                    at += g
        groups = [pq.ParquetFile(path).metadata.row_group(i).num_rows for i in range(pq.ParquetFile(path).metadata.num_row_groups)]
        reqs = []
        orig = readers.parquet

        class _PF:
            """transparent logging proxy of pyarrow's ParquetFile (anything not logged is forwarded)"""

            def __init__(self, p, *a, **k):
                self._f = orig.ParquetFile(p, *a, **k)

            def __getattr__(self, name):
                return getattr(self._f, name)

            def read_row_group(self, i, *a, **k):
                reqs.append(int(i))
                return self._f.read_row_group(i, *a, **k)

            def read_row_groups(self, idx, *a, **k):
                idx = [int(i) for i in idx]
                reqs.extend(idx)
                return self._f.read_row_groups(idx, *a, **k)

            def __enter__(self):
                return self

            def __exit__(self, *exc):
                self._f.close()

        class _PQ:
            ParquetFile = _PF

            def __getattr__(self, name):
                return getattr(orig, name)
        readers.parquet = _PQ()
        perr = None
        chunks = []
        marks = []           # valid row-group requests made up to the delivery of each chunk
        try:
            with readers.ParquetReader(path, ra_name="ra", dec_name="dec", chunksize=cs, degrees=False) as rd:
                for c in rd:
                    chunks.append([int(round(x)) for x in c["ra"]])
                    marks.append(len([r for r in reqs if r < len(groups)]))
        except Exception as e:  # noqa: BLE001 - reading a valid file must not raise
            perr = e
        finally:
            readers.parquet = orig
            os.unlink(path)
        if perr is not None:
            ctx.count(key=("parquet", n, cs, rg), kind="parquet/raised")
            ctx.fail("c18-raises:%s" % type(perr).__name__, "reading a valid Parquet file (%d rows, row groups of %d, chunk size %d) raised %r "
                     "after delivering chunks of %s rows" % (n, rg, cs, perr, [len(c) for c in chunks]),
                     dict(parquet=(n, cs, rg), groups=groups, requests=reqs), case=idx)
            idx += 1
            continue
        lens = [len(c) for c in chunks]
        flat = [x for c in chunks for x in c]
        ok_reqs = [r for r in reqs if r < len(groups)]           # the reader probes one index past the end
        ctx.count(key=("parquet", n, cs, rg), nontrivial=len(groups) > 1 and n > cs, kind="parquet")
        loads = [b - a for a, b in zip([0] + marks[:-1], marks)]
        # flags: chunk lengths = model; every row once in order; every row group requested once in order;
        # row groups requested per delivered chunk = model (no read-ahead) and the model's buffer bound
        terms.append("code [c02_parquet_agree %s %s %s; %s; %s; Nat.eqb (c18_parquet_loads_case %s %s %s) 0]" % (
            fq.nat(cs), fq.nlist(groups), fq.nlist(lens),
            fq.b(flat == list(range(n))), fq.b(ok_reqs == list(range(len(groups)))),
            fq.nat(cs), fq.nlist(groups), fq.nlist(loads)))
        metas.append((idx, dict(parquet=(n, cs, rg), groups=groups, chunk_lens=lens, requests=reqs, loads_per_chunk=loads)))
        idx += 1
    codes = ctx.shards("Cases_C18", HEADER, terms, shard=100)
    for (i, meta), c in zip(metas, codes):
        if not c:
            continue
        if "parquet" in meta and (c & 8) and not (c & 6):
            # rows and request order are right, but the row groups were not requested exactly when the model
            # requests them: a failure of the property only if the whole file was buffered at once
            g, marks_ = meta["groups"], meta["loads_per_chunk"]
            n_, cs_ = sum(g), meta["parquet"][1]
            whole = bool(marks_) and marks_[0] == len(g) and n_ > cs_ + max(g)
            if whole:
                ctx.fail("c18-whole-input", "all %d row groups (%d rows) were requested for the first chunk of %d rows" % (len(g), n_, cs_),
                         meta, case=i)
            ctx.disagree("Cases_C18:parquet-loads", i, dict(code=c, meta=meta))
            continue
        if c & 2 or c & 4 or c & 8:
            ctx.fail("c18-requests", "requests are not consecutive slices of at most the chunk size covering the source "
                     "once per pass (code %d)" % c, meta, case=i)
        if c & 1:
            ctx.disagree("Cases_C18", i, dict(code=c, meta=meta))
