"""C18 — input is consumed in bounded chunks, each record once per pass.

Tie: a logging data-frame proxy (and logging proxies around h5py / pyarrow file objects) is
handed to the real Catalog.from_dataframe / from_file; the logged request list is compared
inside Coq with Model/Chunks.v:slices (c18_case), for every pass.

The same creations are also run with 2, 3 and 4 workers on the controllable pool (harness/sim/pool.py): the
reader stays in the calling process, so the proxies keep logging; the model's requests do not depend on the
number of workers (Model/ChunksBuf.v:pool_steps, C18_pool_requests_worker_independent), and the tasks of every
Pool.map call are compared with np.array_split of the requested slice (c18_pool_case).

Reader history (history_cases): the public reader objects (DataFrameReader, HDFReader, FitsReader, ParquetReader through
new_filereader, RandomReader) are first USED - a peek next(iter(r)), next() without iter(), islice / zip previews, an
aborted for-loop, nested loops, a preview through the progress display, get_probe, complete passes, an earlier
write_patches - and then read completely: by a for-loop, by yaw.catalog.catalog.write_patches, or by
create_patch_centers followed by write_patches.  The requests observed during every operation are compared with the
reader state machine of Model/ChunksBuf.v (rd_trace: iter() rewinds, next() advances; c18_hist_case, c18_pq_hist_case,
c18_hist_sizes_case); every complete pass must request every record exactly once from the start whatever came before
(C18_history_pass_requests / C18_history_every_pass; `rewind only when exhausted` is C18_lazy_rewind_refuted).
"""
import io
import itertools
import os
import shutil

import numpy as np

from lib import floatq as fq
from lib import impl
from sim import pool as simpool

ALLOWED_AXIOMS = []
TRUSTED = [
    "logging proxies (harness side) around the data frame, h5py.File datasets and pyarrow ParquetFile; FITS access is not logged in the Catalog.from_file cases (astropy memory-maps the table; library behaviour); in the reader-history cases a proxy around astropy's HDU list logs the row slices taken from a column (data[col][a:b]), not what astropy reads for data[col]",
    "simulated multiprocessing (harness/sim/pool.py) for the runs with 2-4 workers: Pool.map executes the tasks of one chunk in the calling process in a harness-chosen order, the writer process runs at join(); the sizes of the tasks of every Pool.map call are logged by a subclass of the simulated pool",
]
ASSUMPTIONS = ["a new pass is recognised by a request that starts again at row 0 (Catalog.from_* cases; in the reader-history "
               "cases the harness drives the operations itself and cuts the request log between them)"]
RULE = ("cases = (source, n, cs, patch mode incl. generated centres = 2 passes, workers 1 | 2-4 on the simulated pool, "
        "route by which the worker count is given); distinct by that tuple; "
        "non-trivial when n > cs (more than one request per pass); "
        "reader-history cases = (source, n, cs, history of operations on the reader object, final pass: for-loop | "
        "write_patches | create_patch_centers + write_patches, workers); non-trivial when some complete pass starts "
        "from a partially consumed reader")
HEADER = "From Verif Require Import Prelude Chunks ChunksBuf Writer.\nOpen Scope nat_scope.\n"


class ProxyChunk:
    def __init__(self, df, log):
        self.df, self.log = df, log

    def __getitem__(self, name):
        return self.df[name]

    def __len__(self):
        return len(self.df)

    def __getattr__(self, name):       # anything else is forwarded: the proxies only log, they never restrict
        return getattr(self.df, name)


class ProxyFrame:
    """What DataFrameReader needs from a data frame: len() and row slicing."""

    def __init__(self, df, log):
        self.df, self.log = df, log

    def __len__(self):
        return len(self.df)

    def __getitem__(self, item):
        if isinstance(item, slice):
            self.log.append(("rows", item.start, item.stop))
            return ProxyChunk(self.df[item], self.log)
        self.log.append(("column", str(item), None))  # a whole column at once
        return self.df[item]

    def __array__(self, *a, **k):
        self.log.append(("column", "__array__", None))   # the whole table converted at once
        return self.df.__array__(*a, **k)

    def __iter__(self):
        return iter(self.df)                              # column names

    # attributes that say something about the table without reading rows
    HARMLESS = ("columns", "dtypes", "shape", "index", "ndim", "size", "empty", "keys", "attrs", "__class__", "__dict__")

    def __getattr__(self, name):
        if name not in self.HARMLESS and not (name.startswith("__") and name.endswith("__") and name != "__array_interface__"):
            self.log.append(("other", name, None))   # an access path whose extent the proxy cannot see
        return getattr(self.df, name)


class ProxyDataset:
    def __init__(self, ds, log):
        self.ds, self.log = ds, log

    def __len__(self):
        return len(self.ds)

    def __getitem__(self, item):
        if isinstance(item, slice):
            self.log.append(("rows", item.start, item.stop))
        else:
            self.log.append(("other", repr(item), None))
        return self.ds[item]

    def __array__(self, *a, **k):
        self.log.append(("column", "__array__", None))   # the whole dataset read at once (np.asarray / atleast_1d ...)
        return self.ds.__array__(*a, **k)

    def __iter__(self):
        self.log.append(("other", "__iter__", None))
        return iter(self.ds)

    HARMLESS = ("shape", "dtype", "ndim", "size", "name", "attrs", "chunks", "maxshape", "nbytes", "len", "file", "parent",
                "id", "compression", "fillvalue", "is_virtual", "__class__", "__dict__")

    def __getattr__(self, name):
        if name not in self.HARMLESS and not (name.startswith("__") and name.endswith("__") and name != "__array_interface__"):
            self.log.append(("other", name, None))
        return getattr(self.ds, name)


class ProxyH5:
    def __init__(self, f, log, first):
        self.f, self.log, self.first = f, log, first

    def __getitem__(self, name):
        ds = self.f[name]
        # log the row requests of one column only (all columns are sliced identically)
        return ProxyDataset(ds, self.log if name == self.first else [])

    def close(self):
        self.f.close()

    def __getattr__(self, name):
        return getattr(self.f, name)

    def __enter__(self):
        return self

    def __exit__(self, *exc):
        self.f.close()


class LoggingPool(simpool.FakePool):
    """the simulated pool, additionally recording the sizes of the tasks of every Pool.map call"""

    def map(self, func, items):
        items = list(items)
        self.mp.map_calls.append([len(x) for x in items])
        for hook in self.mp.on_map:
            hook(items)
        return super().map(func, items)


class LoggingMP(simpool.FakeMP):
    def __init__(self, schedule=None):
        super().__init__(schedule)
        self.map_calls, self.on_map = [], []

    def Pool(self, n=None):
        return LoggingPool(self, n)


class _NoPool:
    """sequential run: nothing is patched"""
    pool_sizes, map_calls, process_exits = (), (), ()

    def __init__(self):
        self.on_map = []

    def __enter__(self):
        return self

    def __exit__(self, *a):
        return False


def pool_ctx(workers, order, seed):
    if not workers:
        return _NoPool()
    p = simpool.patched(simpool.Schedule(order, seed=seed))
    p.mp = LoggingMP(p.mp.schedule)
    return p


def worker_arg(workers, via):
    """max_workers argument for `workers` effective workers (0 = sequential), given explicitly or through
    YAW_NUM_THREADS (max_workers=None)"""
    if not workers:
        impl.set_threads(1)
        return 1
    if via == "env":
        impl.set_threads(workers)
        return None
    impl.set_threads(16)
    return workers


def is_empty_patch_refusal(err, mp):
    """a given centre attracted no record: creation must refuse (C09/C12), not a valid input here"""
    texts = [str(err)] + [x[1] for x in getattr(mp, "process_exits", ())]
    return any("contains no data" in t or "patch centers and patch IDs with data do not match" in t for t in texts)


class parquet_logged:
    """replace `parquet` in yaw.catalog.readers by a transparent logging proxy of pyarrow's ParquetFile
    (anything not logged is forwarded); reqs receives the indices of the requested row groups"""

    def __init__(self, readers, reqs):
        self.readers, self.reqs = readers, reqs

    def __enter__(self):
        orig = self.orig = self.readers.parquet
        reqs = self.reqs

        class _PF:
            def __init__(self, p, *a, **k):
                self._f = orig.ParquetFile(p, *a, **k)

            def __getattr__(self, name):
                return getattr(self._f, name)

            def read_row_group(self, i, *a, **k):
                reqs.append(int(i))
                return self._f.read_row_group(i, *a, **k)

            def read_row_groups(self, idx, *a, **k):
                idx = [int(i) for i in idx]
                reqs.extend(idx)
                return self._f.read_row_groups(idx, *a, **k)

            def __enter__(self):
                return self

            def __exit__(self, *exc):
                self._f.close()

        class _PQ:
            ParquetFile = _PF

            def __getattr__(self, name):
                return getattr(orig, name)
        self.readers.parquet = _PQ()
        return self

    def __exit__(self, *exc):
        self.readers.parquet = self.orig
        return False


def write_parquet(path, table, rg, gsizes):
    import pyarrow.parquet as pq
    if gsizes is None:
        pq.write_table(table, path, row_group_size=rg)
    else:
        with pq.ParquetWriter(path, table.schema) as wr:
            at = 0
            for g in gsizes:
                wr.write_table(table.slice(at, g), row_group_size=g)
                at += g
    md = pq.ParquetFile(path).metadata
    return [md.row_group(i).num_rows for i in range(md.num_row_groups)]


def pool_combos(ctx, rng):
    """(n, cs, workers) for the runs on the pool: chunk sizes that are NOT multiples of the worker count (smaller
    and larger than it) with n beyond one chunk, plus a few multiples as controls"""
    out = []
    for w in (2, 3, 4):
        css = [c for c in (1, 2, 3, 5, 6, 7, 9, 10, 16) if c % w]
        if ctx.quick():
            css = [c for c in css if c < w][-1:] + rng.sample([c for c in css if c > w], 3)
        for cs in css:
            ns = [cs + 1, 2 * cs + 1, 5 * cs + 2, rng.choice([cs, 2 * cs, 3 * cs - 1 if cs > 1 else 3, 4 * cs + 3])]
            for n in sorted(set(ns)):
                out.append((n, cs, w))
        for cs in (w, 2 * w):                      # controls: the worker count divides the chunk size
            out.append((rng.choice([cs + 1, 2 * cs, 3 * cs + 1]), cs, w))
    if not ctx.quick():
        grid = [(n, cs, w) for n in range(1, 61) for cs in range(1, 21) for w in (2, 3, 4)]
        rng.shuffle(grid)
        out += grid[:150]
    return out


def split_passes(log, n):
    passes, cur = [], None
    for kind, a, b in log:
        if kind != "rows":
            return None
        if a == 0 or cur is None:
            cur = []
            passes.append(cur)
        cur.append((a, b))
    return passes


# ---------------------------------------------------------------------------------------------------------------
# reader history
# ---------------------------------------------------------------------------------------------------------------
class ProxyRec:
    """astropy FITS_rec: len() and column access; the row slices taken from the first column are logged"""

    def __init__(self, rec, log, first):
        self.rec, self.log, self.first = rec, log, first

    def __len__(self):
        return len(self.rec)

    def __getitem__(self, name):
        if isinstance(name, str):
            return ProxyDataset(self.rec[name], self.log if name == self.first else [])
        self.log.append(("other", repr(name), None))
        return self.rec[name]

    def __getattr__(self, name):
        return getattr(self.rec, name)


class ProxyHDU:
    def __init__(self, hdu, log, first):
        self.hdu, self.log, self.first = hdu, log, first

    @property
    def data(self):
        return ProxyRec(self.hdu.data, self.log, self.first)

    def __getattr__(self, name):
        return getattr(self.hdu, name)


class ProxyHDUList:
    def __init__(self, f, log, first):
        self.f, self.log, self.first = f, log, first

    def __getitem__(self, i):
        return ProxyHDU(self.f[i], self.log, self.first)

    def close(self):
        self.f.close()

    def __getattr__(self, name):
        return getattr(self.f, name)


HIST_SOURCES = ("df", "hdf5", "fits", "parquet", "random")
HIST_CENTERS = [[15.0, 0.0], [30.0, 3.0]]


def hist_columns(n):
    """coordinates in radians (degrees=False: stored bit for bit), distinct right ascensions = row identity"""
    ra = np.deg2rad(np.asarray([10.0 + (i * 37 % 101) / 4.0 + (i // 101) / 64.0 for i in range(n)]))
    dec = np.deg2rad(np.asarray([-5.0 + (i * 53 % 89) / 8.0 for i in range(n)]))
    return {"ra": ra, "dec": dec, "pid": np.asarray([i % 2 for i in range(n)], dtype="i8")}


def hist_core():
    """histories every source goes through in every run (the last two are the controls without a partial state)"""
    return [
        [("peek",)],
        [("abort", 0)],
        [("abort", 1)],
        [("islice", 2)],
        [("zip", 1)],
        [("probe", 3), ("peek",)],
        [("pass",), ("peek",)],
        [("nested",)],
        [("peek",), ("next", 1)],
        [("next", 1)],
        [("indicator", 1)],
        [("iter",), ("iter",), ("next", 2), ("len",), ("iter",), ("next", 1)],
        [("pass",)],
        [],
    ]


def hist_random(rng, nchunks, src):
    ops = []
    for _ in range(rng.choice([1, 1, 2, 2, 3, 4, 5])):
        kind = rng.choice(["peek", "next", "next", "iter", "islice", "zip", "abort", "abort", "pass", "probe", "nested",
                           "indicator", "len"] + (["write", "write", "create"] if src in ("df", "random") else []))
        j = rng.randrange(0, nchunks + 2)
        if kind in ("peek", "iter", "pass", "nested", "len", "write", "create"):
            ops.append((kind,))
        elif kind == "indicator":
            ops.append((kind, max(1, j)))
        elif kind == "probe":
            ops.append((kind, rng.randrange(1, 6)))
        else:
            ops.append((kind, j))
    return ops


def hist_partial_pass(n, cs, prims):
    """does some complete pass start from a partially consumed reader (0 < offset < n)?  statistics only"""
    off, hit = 0, False
    for p in prims:
        op = p["op"]
        if op == "RdIter":
            off = 0
        elif op == "RdPass":
            hit = hit or 0 < off < n
            off = -(-n // cs) * cs
        else:
            for _ in range(op[1]):
                if off < n:
                    off += cs
    return hit


def rd_ops_term(prims):
    return "[%s]" % "; ".join(p["op"] if isinstance(p["op"], str) else "RdNext %d" % p["op"][1] for p in prims)


def history_cases(ctx, readers, terms, metas, idx):
    from yaw.catalog.catalog import create_patch_centers, write_patches
    from yaw.randoms import BoxRandoms
    from yaw.utils.logging import Indicator
    import h5py
    import pyarrow as pa
    from astropy.io import fits as afits

    rng = ctx.rng
    centers = impl.AngularCoordinates(np.deg2rad(HIST_CENTERS))

    class LoggedBox(BoxRandoms):
        sizes = None

        def __call__(self, probe_size, *a, **k):
            self.sizes.append(int(probe_size))
            return super().__call__(probe_size, *a, **k)

    def shape(cs, big=True):
        """input lengths around the chunk boundaries, beyond two chunks unless `big` is off"""
        if big:
            return rng.choice([2 * cs + 1, 3 * cs, 3 * cs + 1, 4 * cs - 1 if cs > 1 else 5, 5 * cs + 2])
        return rng.choice([max(1, cs - 1), cs, cs + 1, 2 * cs])

    plan = []
    # create_patch_centers (treecorr) costs about a second: one final pass in nine (every source meets it in every run)
    terminals = ["write-centers", "write-name", "create", "direct", "write-centers", "write-name", "direct",
                 "write-centers", "write-name"]
    k = rng.randrange(9)
    for src in HIST_SOURCES:
        for hist in hist_core():
            cs = rng.choice([1, 2, 3, 4, 5, 7])
            plan.append((src, shape(cs), cs, hist, terminals[k % 9], 0))
            k += 1
    for _ in range(ctx.n(45, 400)):
        src = rng.choice(HIST_SOURCES)
        cs = rng.choice([1, 2, 3, 4, 5, 7, 9])
        n = shape(cs, big=rng.random() < 0.8)
        workers = rng.choice([0, 0, 0, 2, 3])
        plan.append((src, n, cs, hist_random(rng, -(-n // cs), src), rng.choice(terminals), workers))

    for (src, n, cs, hist, terminal, workers) in plan:
        if src == "random":
            n = max(n, 24)                       # a probe of >= 20 generated points for create_patch_centers
            if terminal == "write-name":
                terminal = "write-centers"       # generated points carry no patch index
        elif terminal == "create" or any(o[0] == "create" for o in hist):
            n = max(n, 4)
        if terminal == "write-centers" or any(o[0] == "write" for o in hist):
            n = max(n, 3)                        # both given centres attract a record (rows 0 and 2)
        name_mode = terminal == "write-name"
        cols = hist_columns(n)
        rowid = {float(v): i for i, v in enumerate(cols["ra"])}
        colnames = dict(ra_name="ra", dec_name="dec", patch_name="pid" if name_mode else None, chunksize=cs, degrees=False)
        log, groups, path, pseed = [], None, None, rng.randrange(10 ** 6)
        order = rng.choice(["random", "reverse", "identity"])
        spec = dict(history=True, src=src, n=n, cs=cs, ops=[list(o) for o in hist], final=terminal, workers=workers,
                    order=order, pool_seed=pseed)
        # ---- the reader object
        if src == "df":
            rd = readers.DataFrameReader(ProxyFrame(impl.make_df(cols), log), **colnames)
        elif src == "hdf5":
            path = os.path.join(ctx.workdir, "hist.hdf5")
            with h5py.File(path, "w") as f:
                for kk, v in cols.items():
                    f.create_dataset(kk, data=v)
            orig = readers.h5py

            class _H5:
                @staticmethod
                def File(p, mode="r"):
                    return ProxyH5(orig.File(p, mode=mode), log, "ra")
            readers.h5py = _H5
            try:
                rd = readers.new_filereader(path, **colnames)
            finally:
                readers.h5py = orig
        elif src == "fits":
            path = os.path.join(ctx.workdir, "hist.fits")
            afits.BinTableHDU.from_columns([afits.Column(name="ra", format="D", array=cols["ra"]),
                                            afits.Column(name="dec", format="D", array=cols["dec"]),
                                            afits.Column(name="pid", format="K", array=cols["pid"])]).writeto(path, overwrite=True)
            orig = readers.fits

            class _Fits:
                @staticmethod
                def open(p, *a, **kw):
                    return ProxyHDUList(orig.open(p, *a, **kw), log, "ra")
            readers.fits = _Fits
            try:
                rd = readers.new_filereader(path, **colnames)
            finally:
                readers.fits = orig
        elif src == "parquet":
            path = os.path.join(ctx.workdir, "hist.pqt")
            table = pa.table(cols)
            if rng.random() < 0.6:
                rgs = rng.choice([1, max(1, cs - 1), cs, cs + 1, 2 * cs + 1, rng.randrange(1, 12)])
                groups = write_parquet(path, table, rgs, None)
            else:
                g, left = [], n
                while left:
                    g.append(min(left, rng.randrange(1, 2 * cs + 3)))
                    left -= g[-1]
                groups = write_parquet(path, table, 0, g)
            spec["groups"] = groups
            with parquet_logged(readers, log):
                rd = readers.new_filereader(path, **colnames)
        else:
            gen = LoggedBox(10.0, 35.0, -5.0, 6.0, seed=pseed)
            gen.sizes = log
            rd = readers.RandomReader(gen, n, cs)
        is_rows = src in ("df", "hdf5", "fits")
        mark = [0]
        prims, probes, state = [], [], dict(odd=[], stored_ok=True, refused=0, pools=0)

        def cut():
            seg = log[mark[0]:]
            mark[0] = len(log)
            if is_rows:
                state["odd"] += [e for e in seg if e[0] != "rows" or e[1] is None or e[2] is None or e[1] < 0]
                return [(e[1], e[2]) for e in seg if e[0] == "rows" and e[1] is not None and e[2] is not None and e[1] >= 0]
            if src == "parquet":
                return [r for r in seg if r < len(groups)]      # the reader probes one index past the end
            return list(seg)

        def emit(ops, chunks=None, how=None):
            seg = cut()
            for o in ops[:-1]:
                prims.append(dict(op=o, seg=[], chunks=[], how=how))
            prims.append(dict(op=ops[-1], seg=seg, chunks=chunks, how=how))

        def rows_of(chunk):
            if src == "random":
                return len(chunk)
            return [rowid.get(float(x), -1) for x in chunk["ra"]]

        def take(it, k_):
            got = []
            for _ in range(k_):
                try:
                    got.append(rows_of(next(it)))
                except StopIteration:
                    break
            return got

        def write(cache, given):
            """the public writer, sequentially or on the simulated pool; what it stored is compared with the source"""
            pc = pool_ctx(workers, order, pseed)
            mw = worker_arg(workers, "arg")
            refused = False
            try:
                with pc as mp:
                    try:
                        write_patches(cache, rd, given, overwrite=True, progress=False, max_workers=mw)
                    except (ValueError, RuntimeError) as e:
                        if not is_empty_patch_refusal(e, mp):
                            raise
                        refused = True     # only possible when records are missing: the requests tell
            finally:
                impl.set_threads(1)
            state["pools"] += 1 if getattr(mp, "pool_sizes", ()) else 0
            emit(["RdPass"], None, how="write_patches")
            if refused:
                state["refused"] += 1
                state["stored_ok"] = False
            else:
                stored = [float(x) for rec in impl.patch_records(impl.Catalog(cache, max_workers=1)).values() for x in rec["ra"]]
                if src == "random":
                    state["stored_ok"] = state["stored_ok"] and len(stored) == n
                else:
                    state["stored_ok"] = state["stored_ok"] and sorted(stored) == sorted(float(v) for v in cols["ra"])
            shutil.rmtree(cache, ignore_errors=True)

        def probe_centres():
            size = rng.randrange(20, n + 1) if src == "random" else rng.choice([-1, 20, 25])
            spec.setdefault("probe_sizes", []).append(size)
            c = create_patch_centers(rd, 2, size)
            if src == "random":
                probes.append((size if size >= 20 else None, cut()))
            else:
                emit(["RdPass"], None, how="create_patch_centers")
            return c

        def do(op):
            kind = op[0]
            if kind == "iter":
                iter(rd)
                emit(["RdIter"], [])
            elif kind == "next":
                emit([("RdNext", op[1])], take(rd, op[1]))
            elif kind == "peek":
                emit(["RdIter", ("RdNext", 1)], take(iter(rd), 1))
            elif kind == "islice":
                emit(["RdIter", ("RdNext", op[1])], [rows_of(c) for c in itertools.islice(rd, op[1])])
            elif kind == "zip":          # zip draws one more chunk than it hands out
                for _c, _i in zip(rd, range(op[1])):
                    pass
                emit(["RdIter", ("RdNext", op[1] + 1)], None)
            elif kind == "abort":
                got = []
                for i, c in enumerate(rd):
                    got.append(rows_of(c))
                    if i == op[1]:
                        break
                emit(["RdIter", ("RdNext", op[1] + 1)], got)
            elif kind == "pass":
                emit(["RdPass"], [rows_of(c) for c in rd], how="for-loop")
            elif kind == "nested":       # the reader is its own iterator: the inner loop uses up the outer one
                extra = []
                for i, a in enumerate(rd):
                    if i == 0:
                        emit(["RdIter", ("RdNext", 1)], [rows_of(a)])
                        emit(["RdPass"], [rows_of(b) for b in rd], how="for-loop-nested")
                    else:
                        extra.append(rows_of(a))
                emit([("RdNext", 1)], extra)
            elif kind == "indicator":    # a preview through the progress display, abandoned
                it = iter(Indicator(rd, stream=io.StringIO()))
                got = take(it, op[1])
                it.close()
                emit(["RdIter", ("RdNext", op[1])], got)
            elif kind == "len":
                len(rd), rd.num_records, rd.num_chunks, repr(rd), rd.copy_chunk_info()
                emit([("RdNext", 0)], [])
            elif kind == "probe":
                k_ = min(op[1], n)
                rd.get_probe(k_)
                if src == "random":
                    probes.append((k_, cut()))
                else:
                    emit(["RdPass"], None, how="get_probe")
            elif kind == "write":
                write(impl.fresh_dir(ctx, "hcat"), centers)
            elif kind == "create":
                write(impl.fresh_dir(ctx, "hcat"), probe_centres())
            else:
                raise AssertionError(kind)

        err = None
        try:
            for op in hist:
                do(op)
            if terminal == "direct":
                do(("pass",))
            elif terminal == "create":
                do(("create",))
            else:
                write(impl.fresh_dir(ctx, "hcat"), None if name_mode else centers)
        except Exception as e:  # noqa: BLE001 - every operation of the plan is valid on a valid source
            err = e
        finally:
            try:
                rd.__exit__(None, None, None)
            except Exception:  # noqa: BLE001 - already closed by write_patches
                pass
            if path is not None and os.path.exists(path):
                os.unlink(path)
        partial = hist_partial_pass(n, cs, prims)
        ctx.count(key=("history", src, n, cs, tuple(tuple(o) for o in hist), terminal, workers, tuple(groups or ())),
                  nontrivial=partial, kind="history/%s/%s%s" % (src, terminal, "/pool" if state["pools"] else ""))
        ctx.bump("history:%s" % ("pass_from_partial_state" if partial else "complete_or_fresh_only"))
        for o in hist:
            ctx.bump("history-op:%s" % o[0])
        spec["trace"] = [dict(op=p["op"], requests=p["seg"][:12], how=p["how"]) for p in prims][:24]
        if err is not None:
            ctx.fail("c18-raises:%s" % type(err).__name__, "an operation of the history %s / final %s on a %s reader raised %r"
                     % (hist, terminal, src, err), spec, case=idx)
            idx += 1
            continue
        if state["odd"]:
            if any(e[0] == "column" for e in state["odd"]):
                ctx.fail("c18-whole-input", "the source was asked for a whole column at once: %s" % state["odd"][:3], spec, case=idx)
            else:
                ctx.disagree("c18-access-path-not-observable", idx, dict(spec, odd=state["odd"][:5]))
            idx += 1
            continue
        # which complete pass (if any) is not a complete pass: for the message only, the verdict is Coq's
        want = [(lo, min(lo + cs, n)) for lo in range(0, n, cs)]
        rows_ok = state["stored_ok"]
        bad_pass = None
        for p in prims:
            seg = p["seg"]
            if is_rows:
                clipped = [(a, min(b, n)) for a, b in seg]
                if p["op"] == "RdPass" and clipped != want and bad_pass is None:
                    bad_pass = (p["how"], clipped)
                if p["chunks"] is not None:
                    rows_ok = rows_ok and [r for c in p["chunks"] for r in c] == [r for a, b in clipped for r in range(a, b)]
            elif src == "parquet":
                if p["op"] == "RdPass" and seg != list(range(len(groups))) and bad_pass is None:
                    bad_pass = (p["how"], seg)
                if p["op"] == "RdPass" and p["chunks"] is not None:
                    rows_ok = rows_ok and [r for c in p["chunks"] for r in c] == list(range(n))
            else:
                if p["op"] == "RdPass" and seg != [b - a for a, b in want] and bad_pass is None:
                    bad_pass = (p["how"], seg)
                if p["chunks"] is not None:
                    rows_ok = rows_ok and list(p["chunks"]) == seg
        probes_ok = all(seg == [k_] for k_, seg in probes if k_ is not None)
        ops_t = rd_ops_term(prims)
        if is_rows:
            raw_ok = all(b - a <= cs for p in prims for a, b in p["seg"])
            terms.append("c18_hist_case %s %s %s %s %s %s" % (
                fq.nat(n), fq.nat(cs), ops_t,
                fq.lst([fq.lst([fq.pair(fq.nat(a), fq.nat(min(b, n))) for a, b in p["seg"]]) for p in prims]),
                fq.b(raw_ok), fq.b(rows_ok)))
        elif src == "parquet":
            terms.append("c18_pq_hist_case %s %s %s %s %s %s" % (
                fq.nat(cs), fq.nlist(groups), ops_t, fq.lst([fq.nlist(p["seg"]) for p in prims]),
                fq.lst([fq.opt(None if p["chunks"] is None else [len(c) for c in p["chunks"]], fq.nlist) for p in prims]),
                fq.b(rows_ok)))
        else:
            terms.append("c18_hist_sizes_case %s %s %s %s %s" % (
                fq.nat(n), fq.nat(cs), ops_t, fq.lst([fq.nlist(p["seg"]) for p in prims]), fq.b(rows_ok)))
        metas.append((idx, dict(spec, bad_pass=bad_pass, rows_ok=rows_ok, refused=state["refused"],
                                probes=[(k_, seg[:6]) for k_, seg in probes], probes_ok=probes_ok)))
        if not probes_ok:
            # RandomReader.get_probe(k) = one call of the generator for k points; no statement of C18 depends on it
            ctx.disagree("Cases_C18:history-random-probe", idx, dict(spec, probes=probes))
        ctx.sample(dict(spec, passes=[(p["how"], p["seg"][:8]) for p in prims if p["op"] == "RdPass"]), limit=3)
        idx += 1
    return idx


def history_verdict(ctx, i, c, meta):
    """bits: 1 requests = state machine, operation by operation; then per kind of source
       rows / random: 2 every complete pass covers every record once in portions of 1..cs, 4 no request above cs, 8 records
       parquet:       2 chunk lengths = model, 4 every complete pass requests every row group once in order, 8 records"""
    pq = meta["src"] == "parquet"
    spec_bit, size_bit = (4, 0) if pq else (2, 4)
    if c & spec_bit:
        how, got = meta["bad_pass"] if meta["bad_pass"] else ("pass", None)
        ctx.fail("c18-pass-after-history:%s" % how,
                 "after the history %s on a %s reader (%d records, chunk size %d) the complete pass made by %s requested %s "
                 "instead of every record once from the start%s"
                 % (meta["ops"], meta["src"], meta["n"], meta["cs"], how, got,
                    "" if meta["rows_ok"] else "; records are missing from what was handed over / stored"), meta, case=i)
    if size_bit and c & size_bit:
        ctx.fail("c18-requests", "an operation on a reader with history requested more than a chunk at once (code %d)" % c, meta, case=i)
    if c & ~(spec_bit | size_bit):
        ctx.disagree("Cases_C18:history", i, dict(code=c, meta=meta))



def run(ctx):
    import yaw.catalog.readers as readers
    rng = ctx.rng
    terms, metas = [], []
    combos = []
    for cs in [1, 2, 3, 4, 7, 16]:
        for n in sorted({1, max(1, cs - 1), cs, cs + 1, 2 * cs, 2 * cs + 1, 3 * cs - 1 if cs > 1 else 3, 5 * cs + 2}):
            combos.append((n, cs))
    reps = ctx.n(1, 4)
    if not ctx.quick():
        grid = [(n, cs) for n in range(1, 61) for cs in range(1, 21)]
        rng.shuffle(grid)
        combos = combos + grid[:200]
    idx = 0
    impl.set_threads(1)
    modes3 = ["create", "centers", "name"]
    plan = [(n, cs, 0) for (n, cs) in combos for _ in range(reps)]
    plan += [(n, cs, w) for (n, cs, w) in pool_combos(ctx, rng) for _ in range(ctx.n(1, 2))]
    for k, (n, cs, workers) in enumerate(plan):
        if workers:
            # on the pool every source and patch mode comes round (generated centres = a probing and a writing pass)
            src = ["df", "hdf5"][(k // 3) % 2] if rng.random() < 0.8 else rng.choice(["df", "hdf5"])
            mode = modes3[k % 3] if n >= 4 else modes3[1 + k % 2]
            via = "env" if rng.random() < 0.25 else "arg"
            order = rng.choice(["random", "reverse", "identity"])
        else:
            src = rng.choice(["df", "df", "hdf5"])
            mode = rng.choice(["centers", "name", "create"]) if n >= 4 else rng.choice(["centers", "name"])
            via, order = "arg", None
        pseed = rng.randrange(10 ** 6)
        ra = np.asarray([10.0 + (i * 37 % 101) / 4.0 for i in range(n)])
        dec = np.asarray([-5.0 + (i * 53 % 89) / 8.0 for i in range(n)])
        cols = {"ra": ra, "dec": dec, "pid": np.asarray([i % 2 for i in range(n)])}
        kwargs = dict(ra_name="ra", dec_name="dec", chunksize=cs, max_workers=worker_arg(workers, via))
        passes_expected = 1
        if mode == "centers":
            kwargs["patch_centers"] = impl.AngularCoordinates(np.deg2rad([[15.0, 0.0], [30.0, 3.0]]))
        elif mode == "name":
            kwargs["patch_name"] = "pid"
        else:
            kwargs["patch_num"] = 2
            passes_expected = 2
        log = []
        cache = impl.fresh_dir(ctx, "cat")
        err = None
        pc = pool_ctx(workers, order, pseed)
        try:
            with pc as mp:
                if src == "df":
                    impl.Catalog.from_dataframe(cache, ProxyFrame(impl.make_df(cols), log), **kwargs)
                else:
                    import h5py
                    path = os.path.join(ctx.workdir, "src.hdf5")
                    with h5py.File(path, "w") as f:
                        for kk, v in cols.items():
                            f.create_dataset(kk, data=v)
                    orig = readers.h5py

                    class _H5:
                        @staticmethod
                        def File(p, mode="r"):
                            return ProxyH5(orig.File(p, mode=mode), log, "ra")
                    readers.h5py = _H5
                    try:
                        impl.Catalog.from_file(cache, path, **kwargs)
                    finally:
                        readers.h5py = orig
                        os.unlink(path)
        except Exception as e:
            err = e
        finally:
            impl.set_threads(1)
        shutil.rmtree(cache, ignore_errors=True)
        eff_w = (mp.pool_sizes[0] or 1) if mp.pool_sizes else 1   # workers the implementation actually used
        tasks = [list(t) for t in mp.map_calls]
        spec = dict(n=n, cs=cs, src=src, mode=mode, workers=workers, via=via, order=order, pool_seed=pseed)
        ctx.count(key=(n, cs, src, mode, workers, via), nontrivial=n > cs,
                  kind="%s/%s%s" % (src, mode, "/pool%d" % workers if workers else ""))
        if workers:
            ctx.bump("pool:cs_mod_w_%s,n_%s_cs" % ("zero" if cs % workers == 0 else "nonzero", "gt" if n > cs else "le"))
            if eff_w != workers:
                ctx.bump("pool:workers_limited_by_environment")
        if err is not None:
            # empty centre etc. are C09/C12 matters; here only valid inputs are generated
            if mode == "centers" and isinstance(err, (ValueError, RuntimeError)) and is_empty_patch_refusal(err, mp):
                ctx.bump("skipped_empty_patch")
                continue
            ctx.fail("c18-raises:%s" % type(err).__name__, "valid creation raised %r (writer process: %s)"
                     % (err, list(mp.process_exits)), spec, case=idx)
            idx += 1
            continue
        eff_cs = cs  # DataReader.__init__ overwrites the min(n, cs) set by the file readers
        passes = split_passes(log, n)
        if passes is None:
            odd = [l for l in log if l[0] != "rows"]
            if any(l[0] == "column" for l in odd):
                ctx.fail("c18-whole-input", "the source was asked for a whole column at once: %s" % odd[:3],
                         dict(spec, log=log[:20]), case=idx)
            else:
                # an access path whose extent the logging proxy cannot see: the tie is broken, nothing is shown
                ctx.disagree("c18-access-path-not-observable", idx, dict(spec, log=log[:20]))
            idx += 1
            continue
        raw_ok = all((b - a) <= eff_cs for p in passes for a, b in p)
        clipped = [[(a, min(b, n)) for a, b in p] for p in passes]
        logterm = fq.lst([fq.lst([fq.pair(fq.nat(a), fq.nat(b)) for a, b in p]) for p in clipped])
        if mp.pool_sizes:
            terms.append("(c18_pool_case %s %s %s %s %s %s + (if %s then 0 else 32))" % (
                fq.nat(eff_w), fq.nat(n), fq.nat(eff_cs), fq.nat(passes_expected), logterm,
                fq.lst([fq.nlist(t) for t in tasks]), fq.b(raw_ok)))
            metas.append((idx, dict(spec, pool=True, effective_workers=eff_w, log=log[:40], tasks=tasks[:40])))
        else:
            terms.append("(c18_case %s %s %s %s + (if %s then 0 else 8))" % (
                fq.nat(n), fq.nat(eff_cs), fq.nat(passes_expected), logterm, fq.b(raw_ok)))
            metas.append((idx, dict(spec, log=log[:40])))
        ctx.sample(dict(spec, requests=clipped, tasks=tasks[:6]), limit=3)
        idx += 1
    # get_probe bookkeeping: rows returned for a probe of size k = the linspace indices
    for (n, cs, k) in [(10, 3, 4), (17, 5, 17), (9, 2, 3), (20, 7, 6), (5, 5, 2), (12, 4, 1)][: ctx.n(4, 6)]:
        log = []
        cols = {"ra": np.arange(n, dtype="f8"), "dec": np.zeros(n)}
        rd = readers.DataFrameReader(ProxyFrame(impl.make_df(cols), log), ra_name="ra", dec_name="dec",
                                     chunksize=cs, degrees=False)
        probe = rd.get_probe(k)
        got = sorted(int(round(x)) for x in probe["ra"])
        want = sorted(np.linspace(0, n - 1, k).astype(int).tolist())
        passes = split_passes(log, n)
        ctx.count(key=("probe", n, cs, k), kind="probe")
        lens = [min(b, n) - a for a, b in passes[0]] if passes else []
        terms.append("code [list_eqb Z.eqb (probe_run %s 0%%Z %s) %s; c18_agree %s %s %s]" % (
            fq.zlist(lens), fq.zlist(want), fq.zlist(got), fq.nat(n), fq.nat(cs),
            fq.lst([fq.pair(fq.nat(a), fq.nat(min(b, n))) for a, b in (passes[0] if passes else [])])))
        metas.append((idx, dict(probe=(n, cs, k), got=got, want=want)))
        if got != want:
            ctx.fail("c18-probe", "get_probe returned rows %s instead of %s" % (got, want), dict(n=n, cs=cs, k=k), case=idx)
        idx += 1
    # ---- Parquet: row groups are the unit of access; the reader must request every row group once, in
    #      order, only as far as needed for the next chunk, and deliver exactly the chunks of the model
    #      (Model/Chunks.v: parquet_chunks = chunks of the concatenated row groups, C02_parquet_chunks)
    import pyarrow as pa
    layouts = [(10, 4, 3), (12, 5, 12), (9, 2, 1), (20, 7, 6), (7, 3, 4), (11, 4, 4), (13, 5, 2), (1000, 250, 300), (6, 8, 4)]
    # files written incrementally: row groups of unequal sizes (first group larger / smaller than later ones)
    uneven = [(30, [30, 30, 10, 10, 10, 10]), (4, [5, 1, 1, 1, 3, 2]), (6, [2, 9, 1, 7]), (3, [8, 1, 1, 1, 1])]
    jobs = [(n, cs, rg, None) for (n, cs, rg) in layouts[: ctx.n(6, 9)]]
    jobs += [(sum(g), cs, None, g) for (cs, g) in uneven[: ctx.n(3, 4)]]
    for _ in range(ctx.n(8, 80)):
        if rng.random() < 0.5:
            jobs.append((rng.randrange(5, 60), rng.randrange(2, 12), rng.randrange(1, 15), None))
        else:
            g = [rng.randrange(1, 12) for _ in range(rng.randrange(2, 8))]
            jobs.append((sum(g), rng.randrange(2, 14), None, g))
    for (n, cs, rg, gsizes) in jobs:
        path = os.path.join(ctx.workdir, "src.pqt")
        table = pa.table({"ra": np.arange(n, dtype="f8"), "dec": np.zeros(n)})
        if gsizes is not None:
            rg = 0
        groups = write_parquet(path, table, rg, gsizes)
        reqs = []
        perr = None
        chunks = []
        marks = []           # valid row-group requests made up to the delivery of each chunk
        try:
            with parquet_logged(readers, reqs):
                with readers.ParquetReader(path, ra_name="ra", dec_name="dec", chunksize=cs, degrees=False) as rd:
                    for c in rd:
                        chunks.append([int(round(x)) for x in c["ra"]])
                        marks.append(len([r for r in reqs if r < len(groups)]))
        except Exception as e:  # noqa: BLE001 - reading a valid file must not raise
            perr = e
        finally:
            os.unlink(path)
        if perr is not None:
            ctx.count(key=("parquet", n, cs, rg), kind="parquet/raised")
            ctx.fail("c18-raises:%s" % type(perr).__name__, "reading a valid Parquet file (%d rows, row groups of %d, chunk size %d) raised %r "
                     "after delivering chunks of %s rows" % (n, rg, cs, perr, [len(c) for c in chunks]),
                     dict(parquet=(n, cs, rg), groups=groups, requests=reqs), case=idx)
            idx += 1
            continue
        lens = [len(c) for c in chunks]
        flat = [x for c in chunks for x in c]
        ok_reqs = [r for r in reqs if r < len(groups)]           # the reader probes one index past the end
        ctx.count(key=("parquet", n, cs, rg), nontrivial=len(groups) > 1 and n > cs, kind="parquet")
        loads = [b - a for a, b in zip([0] + marks[:-1], marks)]
        # flags: chunk lengths = model; every row once in order; every row group requested once in order;
        # row groups requested per delivered chunk = model (no read-ahead) and the model's buffer bound
        terms.append("code [c02_parquet_agree %s %s %s; %s; %s; Nat.eqb (c18_parquet_loads_case %s %s %s) 0]" % (
            fq.nat(cs), fq.nlist(groups), fq.nlist(lens),
            fq.b(flat == list(range(n))), fq.b(ok_reqs == list(range(len(groups)))),
            fq.nat(cs), fq.nlist(groups), fq.nlist(loads)))
        metas.append((idx, dict(parquet=(n, cs, rg), groups=groups, chunk_lens=lens, requests=reqs, loads_per_chunk=loads)))
        idx += 1
    # ---- Parquet through Catalog.from_file on the pool (2-4 workers): the chunks the reader delivers are what
    #      Pool.map receives (np.array_split of the chunk); same model as above for chunk lengths, row-group
    #      requests per delivered chunk and buffer bound, for every worker count
    pjobs = []
    for w in (2, 3, 4):
        for _ in range(ctx.n(4, 20)):
            cs = rng.choice([c for c in range(2, 14) if c % w])
            if rng.random() < 0.5:
                n_, rg_, g_ = rng.randrange(cs + 1, 6 * cs + 3), rng.choice([1, max(1, cs - 1), cs, cs + 1, 2 * cs + 1, rng.randrange(1, 15)]), None
            else:
                g_ = [rng.randrange(1, 12) for _ in range(rng.randrange(2, 8))]
                n_, rg_ = sum(g_), None
            pjobs.append((n_, cs, rg_, g_, w))
        pjobs.append((3 * 2 * w + 1, 2 * w, w + 1, None, w))          # control: w divides cs
    for k, (n, cs, rg, gsizes, workers) in enumerate(pjobs):
        mode = modes3[k % 3] if n >= 4 else modes3[1 + k % 2]
        via = "env" if rng.random() < 0.25 else "arg"
        order, pseed = rng.choice(["random", "reverse", "identity"]), rng.randrange(10 ** 6)
        ra = np.deg2rad(np.asarray([10.0 + (i * 37 % 101) / 4.0 + (i // 101) / 64.0 for i in range(n)]))
        dec = np.deg2rad(np.asarray([-5.0 + (i * 53 % 89) / 8.0 for i in range(n)]))
        table = pa.table({"ra": ra, "dec": dec, "pid": np.asarray([i % 2 for i in range(n)])})
        path = os.path.join(ctx.workdir, "src.pqt")
        if gsizes is not None:
            rg = 0
        groups = write_parquet(path, table, rg, gsizes)
        kwargs = dict(ra_name="ra", dec_name="dec", degrees=False, chunksize=cs, max_workers=worker_arg(workers, via))
        passes_expected = 1
        if mode == "centers":
            kwargs["patch_centers"] = impl.AngularCoordinates(np.deg2rad([[15.0, 0.0], [30.0, 3.0]]))
        elif mode == "name":
            kwargs["patch_name"] = "pid"
        else:
            kwargs["patch_num"] = 2
            passes_expected = 2
        reqs, marks, seen = [], [], []
        cache = impl.fresh_dir(ctx, "cat")
        perr = None
        pc = pool_ctx(workers, order, pseed)
        try:
            with pc as mp, parquet_logged(readers, reqs):
                mp.on_map.append(lambda items: (marks.append(len(reqs)), seen.extend(float(x) for it in items for x in it["ra"])))
                impl.Catalog.from_file(cache, path, **kwargs)
        except Exception as e:  # noqa: BLE001
            perr = e
        finally:
            impl.set_threads(1)
            os.unlink(path)
        shutil.rmtree(cache, ignore_errors=True)
        eff_w = (mp.pool_sizes[0] or 1) if mp.pool_sizes else 1
        tasks = [list(t) for t in mp.map_calls]
        spec = dict(parquet_pool=(n, cs, rg), groups=groups, mode=mode, workers=workers, via=via, order=order, pool_seed=pseed)
        ctx.count(key=("parquet-pool", n, cs, tuple(groups), mode, workers, via), nontrivial=len(groups) > 1 and n > cs,
                  kind="parquet/%s/pool%d" % (mode, workers))
        ctx.bump("pool:cs_mod_w_%s,n_%s_cs" % ("zero" if cs % workers == 0 else "nonzero", "gt" if n > cs else "le"))
        if perr is not None:
            if mode == "centers" and isinstance(perr, (ValueError, RuntimeError)) and is_empty_patch_refusal(perr, mp):
                ctx.bump("skipped_empty_patch")
                continue
            ctx.fail("c18-raises:%s" % type(perr).__name__, "creating a catalog from a valid Parquet file raised %r (writer process: %s)"
                     % (perr, list(mp.process_exits)), dict(spec, requests=reqs), case=idx)
            idx += 1
            continue
        if not mp.pool_sizes:
            ctx.bump("pool:workers_limited_by_environment")     # sequential after all: chunks not observable here
            continue
        # passes over the file: a request of row group 0 starts one; the reader may probe one index past the end
        starts = [i for i, r in enumerate(reqs) if r == 0]
        pass_reqs = [[r for r in reqs[a:b] if r < len(groups)] for a, b in zip(starts, starts[1:] + [len(reqs)])]
        reqs_ok = bool(starts) and starts[0] == 0 and all(p == list(range(len(groups))) for p in pass_reqs)
        last = starts[-1] if starts else 0
        cum = [len([r for r in reqs[last:m] if r < len(groups)]) for m in marks]
        loads = [b - a for a, b in zip([0] + cum[:-1], cum)]
        lens = [sum(t) for t in tasks]
        rows_ok = seen == [float(x) for x in ra]
        # flags: chunk lengths = model; every row handed over once, in order; every row group once per pass, in order;
        # row groups requested per delivered chunk = model (+ buffer bound); chunks of 1..cs rows covering the file;
        # tasks = np.array_split of the chunk; number of passes
        terms.append("code [c02_parquet_agree %s %s %s; %s; %s; Nat.eqb (c18_parquet_loads_case %s %s %s) 0; "
                     "c18_lens_bounded %s %s %s; c18_tasks_agree %s %s %s; %s]" % (
                         fq.nat(cs), fq.nlist(groups), fq.nlist(lens), fq.b(rows_ok), fq.b(reqs_ok),
                         fq.nat(cs), fq.nlist(groups), fq.nlist(loads),
                         fq.nat(cs), fq.nlist(groups), fq.nlist(lens),
                         fq.nat(eff_w), fq.nlist(lens), fq.lst([fq.nlist(t) for t in tasks]),
                         fq.b(len(pass_reqs) == passes_expected)))
        metas.append((idx, dict(spec, effective_workers=eff_w, chunk_lens=lens, requests=reqs, loads_per_chunk=loads,
                                tasks=tasks[:40])))
        idx += 1
    # ---- the random generator as a source, on the pool: sizes of the generator calls of the writing pass
    #      (Model/Chunks.v:random_sizes = lengths of the model's slices, the same for every worker count)
    from yaw.randoms import BoxRandoms

    class LoggedBox(BoxRandoms):
        """BoxRandoms recording the size of every call; behaviour unchanged"""
        sizes = None

        def __call__(self, probe_size):
            self.sizes.append(int(probe_size))
            return super().__call__(probe_size)
    for k in range(ctx.n(9, 45)):
        workers = (2, 3, 4)[k % 3]
        cs = rng.choice([c for c in (1, 2, 3, 5, 6, 7, 9, 10, 13) if c % workers]) if k % 5 else 2 * workers
        n = rng.choice([cs + 1, 2 * cs + 1, 3 * cs, 5 * cs + 2, rng.randrange(8, 60)])
        n = max(n, 8)
        via = "env" if rng.random() < 0.25 else "arg"
        order, pseed = rng.choice(["random", "reverse", "identity"]), rng.randrange(10 ** 6)
        gen = LoggedBox(10.0, 35.0, -5.0, 6.0, seed=pseed)
        gen.sizes = sizes = []
        cache = impl.fresh_dir(ctx, "cat")
        rerr = None
        mw = worker_arg(workers, via)
        pc = pool_ctx(workers, order, pseed)
        try:
            with pc as mp:
                impl.Catalog.from_random(cache, gen, n, chunksize=cs, max_workers=mw,
                                         patch_centers=impl.AngularCoordinates(np.deg2rad([[15.0, 0.0], [30.0, 3.0]])))
        except Exception as e:  # noqa: BLE001
            rerr = e
        finally:
            impl.set_threads(1)
        shutil.rmtree(cache, ignore_errors=True)
        eff_w = (mp.pool_sizes[0] or 1) if mp.pool_sizes else 1
        tasks = [list(t) for t in mp.map_calls]
        spec = dict(random_pool=(n, cs), workers=workers, via=via, order=order, pool_seed=pseed)
        ctx.count(key=("random-pool", n, cs, workers, via), nontrivial=n > cs, kind="random/centers/pool%d" % workers)
        ctx.bump("pool:cs_mod_w_%s,n_%s_cs" % ("zero" if cs % workers == 0 else "nonzero", "gt" if n > cs else "le"))
        if rerr is not None:
            if isinstance(rerr, (ValueError, RuntimeError)) and is_empty_patch_refusal(rerr, mp):
                ctx.bump("skipped_empty_patch")
                continue
            ctx.fail("c18-raises:%s" % type(rerr).__name__, "creating a catalog from a random generator raised %r (writer process: %s)"
                     % (rerr, list(mp.process_exits)), spec, case=idx)
            idx += 1
            continue
        # flags: call sizes = model; calls of 1..cs records adding up to n; tasks = np.array_split of each chunk
        terms.append("code [c16_sizes_agree %s %s %s; c18_lens_bounded %s [%s] %s; %s]" % (
            fq.nat(n), fq.nat(cs), fq.nlist(sizes), fq.nat(cs), fq.nat(n), fq.nlist(sizes),
            ("c18_tasks_agree %s %s %s" % (fq.nat(eff_w), fq.nlist(sizes), fq.lst([fq.nlist(t) for t in tasks])))
            if mp.pool_sizes else "true"))
        metas.append((idx, dict(spec, effective_workers=eff_w, call_sizes=sizes, tasks=tasks[:40])))
        idx += 1
    idx = history_cases(ctx, readers, terms, metas, idx)
    codes = ctx.shards("Cases_C18", HEADER, terms, shard=100)
    for (i, meta), c in zip(metas, codes):
        if not c:
            continue
        if meta.get("history"):
            history_verdict(ctx, i, c, meta)
            continue
        if "random_pool" in meta:
            if c & 2:
                n_, cs_ = meta["random_pool"]
                ctx.fail("c18-requests", "the generator was not asked for consecutive portions of 1..%d records adding up to %d: %s"
                         % (cs_, n_, meta["call_sizes"][:12]), meta, case=i)
            if c & 1 or c & 4:
                ctx.disagree("Cases_C18:random-pool", i, dict(code=c, meta=meta))
            continue
        if "parquet_pool" in meta:
            if c & 2 or c & 4 or c & 64:
                ctx.fail("c18-requests", "row groups are not requested once per pass in file order / rows not handed over once "
                         "in order (code %d)" % c, meta, case=i)
            if c & 16:
                ctx.fail("c18-parquet-chunks", "the reader delivered chunks of %s rows for a chunk size of %d (file of %d rows)"
                         % (meta["chunk_lens"][:12], meta["parquet_pool"][1], meta["parquet_pool"][0]), meta, case=i)
            if (c & 8) and not (c & (2 | 4 | 16 | 64)):
                g, marks_ = meta["groups"], meta["loads_per_chunk"]
                n_, cs_ = sum(g), meta["parquet_pool"][1]
                if bool(marks_) and marks_[0] == len(g) and n_ > cs_ + max(g):
                    ctx.fail("c18-whole-input", "all %d row groups (%d rows) were requested for the first chunk of %d rows" % (len(g), n_, cs_),
                             meta, case=i)
            if c & (1 | 8 | 32):
                ctx.disagree("Cases_C18:parquet-pool", i, dict(code=c, meta=meta))
            continue
        if "parquet" in meta and (c & 8) and not (c & 6):
            # rows and request order are right, but the row groups were not requested exactly when the model
            # requests them: a failure of the property only if the whole file was buffered at once
            g, marks_ = meta["groups"], meta["loads_per_chunk"]
            n_, cs_ = sum(g), meta["parquet"][1]
            whole = bool(marks_) and marks_[0] == len(g) and n_ > cs_ + max(g)
            if whole:
                ctx.fail("c18-whole-input", "all %d row groups (%d rows) were requested for the first chunk of %d rows" % (len(g), n_, cs_),
                         meta, case=i)
            ctx.disagree("Cases_C18:parquet-loads", i, dict(code=c, meta=meta))
            continue
        if meta.get("pool"):
            # bits: 1 requests = model, 2 spec, 4 passes, 8 tasks = model, 16 requested = handed over, 32 raw slice length
            if c & 2 or c & 4 or c & 32:
                ctx.fail("c18-requests", "requests are not consecutive slices of at most the chunk size covering the source "
                         "once per pass, with %d workers (code %d)" % (meta["effective_workers"], c), meta, case=i)
            if c & 1 or c & 8 or c & 16:
                ctx.disagree("Cases_C18:pool", i, dict(code=c, meta=meta))
            continue
        if c & 2 or c & 4 or c & 8:
            ctx.fail("c18-requests", "requests are not consecutive slices of at most the chunk size covering the source "
                     "once per pass (code %d)" % c, meta, case=i)
        if c & 1:
            ctx.disagree("Cases_C18", i, dict(code=c, meta=meta))
