"""C18 — input is consumed in bounded chunks, each record once per pass.

Tie: a logging data-frame proxy (and logging proxies around h5py / pyarrow file objects) is
handed to the real Catalog.from_dataframe / from_file; the logged request list is compared
inside Coq with Model/Chunks.v:slices (c18_case), for every pass.

The same creations are also run with 2, 3 and 4 workers on the controllable pool (harness/sim/pool.py): the
reader stays in the calling process, so the proxies keep logging; the model's requests do not depend on the
number of workers (Model/ChunksBuf.v:pool_steps, C18_pool_requests_worker_independent), and the tasks of every
Pool.map call are compared with np.array_split of the requested slice (c18_pool_case).

Reader history (history_cases): the public reader objects (DataFrameReader, HDFReader, FitsReader, ParquetReader through
new_filereader, RandomReader) are first USED - a peek next(iter(r)), next() without iter(), islice / zip previews, an
aborted for-loop, nested loops, a preview through the progress display, get_probe, complete passes, an earlier
write_patches - and then read completely: by a for-loop, by yaw.catalog.catalog.write_patches, or by
create_patch_centers followed by write_patches.  The requests observed during every operation are compared with the
reader state machine of Model/ChunksBuf.v (rd_trace: iter() rewinds, next() advances; c18_hist_case, c18_pq_hist_case,
c18_hist_sizes_case); every complete pass must request every record exactly once from the start whatever came before
(C18_history_pass_requests / C18_history_every_pass; `rewind only when exhausted` is C18_lazy_rewind_refuted).

Types of the parameters that steer reading (typed_plan and the typed jobs of every section): chunksize is handed over as a Python
int, as a numpy integer of every width (also obtained as len // np.int64(k) or read from an array; 8- and 16-bit ones also with
inputs beyond the range of the type), as a float with an integral value, as a bool, as None / 0 / False / not at all (the
library's default); probe_size and patch_num likewise.  The model speaks about the VALUE (Model/ChunksBuf.v: configured_cs,
capped_cs; C18_param_requests_by_value, C18_default_single_request, C18_typed_discard_refuted): the request log must be the
model's slices for the value whatever its type.  A value that is not a plain Python int may be refused with a clean
TypeError / ValueError / OverflowError (counted, not judged); what is accepted is judged.  Inputs too long for unary numbers
(16-bit chunk sizes) are compared after division by a common factor (C18_requests_scale).  All request logs are capped
(RunawayRequests): a pass that does not end is reported with its first request that is not a consecutive continuation.

Several readers alive at the same time (world_cases): two or three reader objects (Parquet / FITS / HDF5 / data frame / random
generator; on different sources or on the same one; chunk sizes not aligned with the row groups) are constructed, advanced by
single next() calls, peeked, restarted, probed, read completely and closed in interleaved order - in lock-step, with one reader
acting in the middle of another reader's pass, as a random walk - and catalogs are created from a source while readers are in
the middle of a pass.  Every record carries (source, row) in its right ascension.  What every reader delivered, operation by
operation, is compared in Coq with the product model of Model/ChunksBuf.v (w_trace: the state of the world is the list of the
readers' states, an operation changes its own component only; C18_world_reader_alone: the stream of a reader under any
interleaving is its stream when run alone) and judged by the statement itself (stream_ok: between two rewinds the records of the
reader's OWN source, once, in order, in chunks of 1..cs; requested and not yet delivered rows below cs + one row group).  Every
reader is then driven ALONE through the operations addressed to it (c18_solo_case): a failure that the reader shows only in company
is reported as `depends-on-other-readers` (the variant with one row-group cache for all readers: C18_shared_buffer_refuted).

Loads that fail (props/c18_faults.py): the proxies make the k-th load attempted at the source raise (MemoryError, OSError with several
errno values, TimeoutError, ValueError, KeyboardInterrupt, the errors of pyarrow, ...) once or from then on, at the first / a middle /
the last chunk, during a pass over a reader object, during get_probe and during Catalog.from_* (sequentially and on the pool).  A pass
in which a load failed has two acceptable outcomes: the exception reaches the caller, or every record is delivered exactly once in
chunks of the requested size (Model/ChunksBuf.v:f_pass; C18_fault_pass_exactly_once; `halve the chunk size and rewind by the new size`
is C18_fault_halve_rewind_refuted); a creation that raised leaves no catalog that opens.
"""
import io
import itertools
import os
import shutil

import numpy as np

from lib import floatq as fq
from lib import impl
from sim import pool as simpool

ALLOWED_AXIOMS = []
TRUSTED = [
    "logging proxies (harness side) around the data frame, h5py.File datasets and pyarrow ParquetFile; for FITS (Catalog.from_file and reader-history cases) a proxy around astropy's HDU list logs the row slices taken from a column (data[col][a:b]), not what astropy reads for data[col] (astropy memory-maps the table; library behaviour)",
    "the library's default chunk size is read from yaw.catalog.readers.CHUNKSIZE; the checkers evaluate it as max 1 n (C18_param_requests_by_value: the requests are the same for every chunk size that is not below the input length)",
    "several readers at a time: records are identified by their right ascension ((source * 1024 + row + 1) / 8192 rad, exact in float64, coordinates handed over in radians); the row groups a Parquet reader requests are logged by the proxy of the ParquetFile it was constructed with; what get_probe and Catalog.from_* read internally is not observed (their results are: rows of the probe, records stored)",
    "loads that fail (props/c18_faults.py): the exception is raised by the harness's proxy in place of the source (data frame slice / column access, h5py dataset slice, slice of a FITS column, pyarrow read_row_group, call of the random generator), before the real load; a load = the requests of one slice to all columns; the chunk-level attempt of a failed load is counted as chunks delivered so far + loads failed so far in the pass; an exception counts as having reached the caller when the call raised anything; KeyboardInterrupt is told from a real one by the identity of the exception object",
    "simulated multiprocessing (harness/sim/pool.py) for the runs with 2-4 workers: Pool.map executes the tasks of one chunk in the calling process in a harness-chosen order, the writer process runs at join(); the sizes of the tasks of every Pool.map call are logged by a subclass of the simulated pool",
]
ASSUMPTIONS = ["a new pass is recognised by a request that starts again at row 0 (Catalog.from_* cases; in the reader-history "
               "cases the harness drives the operations itself and cuts the request log between them)"]
RULE = ("cases = (source, n, cs, patch mode incl. generated centres = 2 passes, workers 1 | 2-4 on the simulated pool, "
        "route by which the worker count is given, type in which chunksize / probe_size / patch_num are handed over); distinct by that tuple; "
        "non-trivial when n > cs (more than one request per pass); "
        "reader-history cases = (source, n, cs, history of operations on the reader object, final pass: for-loop | "
        "write_patches | create_patch_centers + write_patches, workers); non-trivial when some complete pass starts "
        "from a partially consumed reader; "
        "worlds of readers = (kinds, lengths, row groups and chunk sizes of 2-3 readers, which of them share a source, the interleaved "
        "list of operations); non-trivial when some operation is applied to a reader while ANOTHER reader is partially consumed; "
        "loads that fail = (kind, n, cs, row groups, index and step of the failing load, exception, once | from then on, route: pass by "
        "for / next / list / progress display | get_probe | creation with patch mode, workers, older catalog); non-trivial when the "
        "failing load was reached")
HEADER = "From Verif Require Import Prelude Chunks ChunksBuf Writer.\nOpen Scope nat_scope.\n"


class ProxyChunk:
    def __init__(self, df, log):
        self.df, self.log = df, log

    def __getitem__(self, name):
        return self.df[name]

    def __len__(self):
        return len(self.df)

    def __getattr__(self, name):       # anything else is forwarded: the proxies only log, they never restrict
        return getattr(self.df, name)


class ProxyFrame:
    """What DataFrameReader needs from a data frame: len() and row slicing."""

    def __init__(self, df, log):
        self.df, self.log = df, log

    def __len__(self):
        return len(self.df)

    def __getitem__(self, item):
        if isinstance(item, slice):
            self.log.append(("rows", item.start, item.stop))
            return ProxyChunk(self.df[item], self.log)
        self.log.append(("column", str(item), None))  # a whole column at once
        return self.df[item]

    def __array__(self, *a, **k):
        self.log.append(("column", "__array__", None))   # the whole table converted at once
        return self.df.__array__(*a, **k)

    def __iter__(self):
        return iter(self.df)                              # column names

    # attributes that say something about the table without reading rows
    HARMLESS = ("columns", "dtypes", "shape", "index", "ndim", "size", "empty", "keys", "attrs", "__class__", "__dict__")

    def __getattr__(self, name):
        if name not in self.HARMLESS and not (name.startswith("__") and name.endswith("__") and name != "__array_interface__"):
            self.log.append(("other", name, None))   # an access path whose extent the proxy cannot see
        return getattr(self.df, name)


class ProxyDataset:
    def __init__(self, ds, log):
        self.ds, self.log = ds, log

    def __len__(self):
        return len(self.ds)

    def __getitem__(self, item):
        if isinstance(item, slice):
            self.log.append(("rows", item.start, item.stop))
        else:
            self.log.append(("other", repr(item), None))
        return self.ds[item]

    def __array__(self, *a, **k):
        self.log.append(("column", "__array__", None))   # the whole dataset read at once (np.asarray / atleast_1d ...)
        return self.ds.__array__(*a, **k)

    def __iter__(self):
        self.log.append(("other", "__iter__", None))
        return iter(self.ds)

    HARMLESS = ("shape", "dtype", "ndim", "size", "name", "attrs", "chunks", "maxshape", "nbytes", "len", "file", "parent",
                "id", "compression", "fillvalue", "is_virtual", "__class__", "__dict__")

    def __getattr__(self, name):
        if name not in self.HARMLESS and not (name.startswith("__") and name.endswith("__") and name != "__array_interface__"):
            self.log.append(("other", name, None))
        return getattr(self.ds, name)


class ProxyH5:
    def __init__(self, f, log, first):
        self.f, self.log, self.first = f, log, first

    def __getitem__(self, name):
        ds = self.f[name]
        # log the row requests of one column only (all columns are sliced identically)
        return ProxyDataset(ds, self.log if name == self.first else [])

    def close(self):
        self.f.close()

    def __getattr__(self, name):
        return getattr(self.f, name)

    def __enter__(self):
        return self

    def __exit__(self, *exc):
        self.f.close()


class LoggingPool(simpool.FakePool):
    """the simulated pool, additionally recording the sizes of the tasks of every Pool.map call"""

    def map(self, func, items):
        items = list(items)
        self.mp.map_calls.append([len(x) for x in items])
        for hook in self.mp.on_map:
            hook(items)
        return super().map(func, items)


class LoggingMP(simpool.FakeMP):
    def __init__(self, schedule=None):
        super().__init__(schedule)
        self.map_calls, self.on_map = [], []

    def Pool(self, n=None):
        return LoggingPool(self, n)


class _NoPool:
    """sequential run: nothing is patched"""
    pool_sizes, map_calls, process_exits = (), (), ()

    def __init__(self):
        self.on_map = []

    def __enter__(self):
        return self

    def __exit__(self, *a):
        return False


def pool_ctx(workers, order, seed):
    if not workers:
        return _NoPool()
    p = simpool.patched(simpool.Schedule(order, seed=seed))
    p.mp = LoggingMP(p.mp.schedule)
    return p


def worker_arg(workers, via):
    """max_workers argument for `workers` effective workers (0 = sequential), given explicitly or through
    YAW_NUM_THREADS (max_workers=None)"""
    if not workers:
        impl.set_threads(1)
        return 1
    if via == "env":
        impl.set_threads(workers)
        return None
    impl.set_threads(16)
    return workers


def is_empty_patch_refusal(err, mp):
    """a given centre attracted no record: creation must refuse (C09/C12), not a valid input here"""
    texts = [str(err)] + [x[1] for x in getattr(mp, "process_exits", ())]
    return any("contains no data" in t or "patch centers and patch IDs with data do not match" in t for t in texts)


class parquet_logged:
    """replace `parquet` in yaw.catalog.readers by a transparent logging proxy of pyarrow's ParquetFile
    (anything not logged is forwarded); reqs receives the indices of the requested row groups"""

    def __init__(self, readers, reqs):
        self.readers, self.reqs = readers, reqs

    def __enter__(self):
        orig = self.orig = self.readers.parquet
        reqs = self.reqs

        class _PF:
            def __init__(self, p, *a, **k):
                self._f = orig.ParquetFile(p, *a, **k)

            def __getattr__(self, name):
                return getattr(self._f, name)

            def read_row_group(self, i, *a, **k):
                reqs.append(int(i))
                return self._f.read_row_group(i, *a, **k)

            def read_row_groups(self, idx, *a, **k):
                idx = [int(i) for i in idx]
                reqs.extend(idx)
                return self._f.read_row_groups(idx, *a, **k)

            def __enter__(self):
                return self

            def __exit__(self, *exc):
                self._f.close()

        class _PQ:
            ParquetFile = _PF

            def __getattr__(self, name):
                return getattr(orig, name)
        self.readers.parquet = _PQ()
        return self

    def __exit__(self, *exc):
        self.readers.parquet = self.orig
        return False


def write_parquet(path, table, rg, gsizes):
    import pyarrow.parquet as pq
    if gsizes is None:
        pq.write_table(table, path, row_group_size=rg)
    else:
        with pq.ParquetWriter(path, table.schema) as wr:
            at = 0
            for g in gsizes:
                wr.write_table(table.slice(at, g), row_group_size=g)
                at += g
    md = pq.ParquetFile(path).metadata
    return [md.row_group(i).num_rows for i in range(md.num_row_groups)]


def pool_combos(ctx, rng):
    """(n, cs, workers) for the runs on the pool: chunk sizes that are NOT multiples of the worker count (smaller
    and larger than it) with n beyond one chunk, plus a few multiples as controls"""
    out = []
    for w in (2, 3, 4):
        css = [c for c in (1, 2, 3, 5, 6, 7, 9, 10, 16) if c % w]
        if ctx.quick():
            css = [c for c in css if c < w][-1:] + rng.sample([c for c in css if c > w], 3)
        for cs in css:
            ns = [cs + 1, 2 * cs + 1, 5 * cs + 2, rng.choice([cs, 2 * cs, 3 * cs - 1 if cs > 1 else 3, 4 * cs + 3])]
            for n in sorted(set(ns)):
                out.append((n, cs, w))
        for cs in (w, 2 * w):                      # controls: the worker count divides the chunk size
            out.append((rng.choice([cs + 1, 2 * cs, 3 * cs + 1]), cs, w))
    if not ctx.quick():
        grid = [(n, cs, w) for n in range(1, 61) for cs in range(1, 21) for w in (2, 3, 4)]
        rng.shuffle(grid)
        out += grid[:150]
    return out


def typed_plan(ctx, rng):
    """creations whose chunk size / probe size / number of patches is not a plain Python int: numpy integers of every width
    (also obtained as len // np.int64(k) or read from an array), narrow ones within and beyond their range, floats with an
    integral value, bools, nothing / None / falsy values (the default); every logged source, every patch mode,
    sequentially and on the pool"""
    out = []
    modes2 = ["name", "centers"]
    for rep in range(ctx.n(1, 3)):
        for si, src in enumerate(("df", "hdf5", "fits")):
            for kind in ["int64"] + rng.sample([k for k in NP_INT_KINDS if k != "int64"], 3):
                cs = rng.choice([2, 3, 4, 5, 7])
                n = rng.choice([2 * cs + 1, 3 * cs, 4 * cs - 1, 5 * cs + 2])
                out.append(dict(n=n, cs=cs, workers=0, cst=kind, src=src, mode=rng.choice(modes2)))
            cs = rng.choice([2, 3, 5])
            out.append(dict(n=3 * cs + 1, cs=cs, workers=0, cst=rng.choice(FLOAT_KINDS), src=src, mode=rng.choice(modes2)))
            out.append(dict(n=rng.choice([3, 5, 8]), cs=1, workers=0, cst=rng.choice(BOOL_KINDS), src=src, mode=rng.choice(modes2)))
            out.append(dict(n=rng.choice([1, 4, 9, 30]), cs=0, workers=0, cst=rng.choice(DEFAULT_KINDS), src=src,
                            mode=rng.choice(modes2)))
            # 8-bit chunk sizes with inputs beyond the range of the type
            kind = rng.choice(["int8", "uint8"])
            mx = CS_KINDS[kind][2]
            cs = rng.choice([100, 37, mx // 2 - 3, mx - 27, mx])
            n = max(mx + 1, rng.choice([300, mx + 2, 2 * mx + 5, 3 * cs + 1]))
            out.append(dict(n=n, cs=cs, workers=0, cst=kind, src=src, mode=rng.choice(modes2)))
            # generated centres: a probing and a writing pass; the probe size comes in every type as well
            cs = rng.choice([5, 7, 9])
            out.append(dict(n=rng.choice([3 * cs + 1, 24, 31]), cs=cs, workers=0, cst=rng.choice(NP_WIDE_KINDS + ["int"]), src=src,
                            mode="create", probe=PROBE_KINDS[(3 * rep + si + rng.randrange(2) * 6) % len(PROBE_KINDS)]))
        # 16-bit chunk sizes with inputs beyond the range of the type (lengths in multiples of SCALE)
        kind = rng.choice(["int16", "uint16"])
        cs, n = rng.choice([(30000, 70000), (20000, 66000), (33000, 67000)] if kind == "uint16" else
                           [(15000, 40000), (10000, 33000), (16000, 35000)])
        out.append(dict(n=n, cs=cs, workers=0, cst=kind, src=rng.choice(["df", "hdf5", "fits"]), mode="name", scale=SCALE))
        # the number of patches: a bool is an int; numpy integers and floats are (so far) refused
        picks = [PNUM_KINDS[0]] + rng.sample(PNUM_KINDS[1:], 1 if ctx.quick() else 3)
        for pk in picks:
            cs = rng.choice([5, 7])
            out.append(dict(n=26, cs=cs, workers=0, cst=rng.choice(["int", "int64"]), src=rng.choice(["df", "hdf5", "fits"]),
                            mode="create", probe=("int", 20), pnum=pk))
        # on the pool
        for w in (2, 3):
            for j, src in enumerate(rng.sample(["df", "hdf5", "fits"], 2)):
                kind = rng.choice(NP_INT_KINDS)
                cs = rng.choice([c for c in (2, 3, 5, 7, 9) if c % w])
                n = rng.choice([2 * cs + 1, 5 * cs + 2, 3 * cs])
                mode = "create" if (w, j) == (2 + rep % 2, 0) and n >= 24 else rng.choice(modes2)
                out.append(dict(n=n, cs=cs, workers=w, cst=kind, src=src, mode=mode))
            out.append(dict(n=rng.choice([7, 12]), cs=0, workers=w, cst=rng.choice(DEFAULT_KINDS), src=rng.choice(["df", "hdf5"]),
                            mode=rng.choice(modes2)))
            kind = rng.choice(["int8", "uint8"])
            out.append(dict(n=rng.choice([260, 300]), cs=rng.choice([c for c in (50, 63, 99, 100) if c % w]), workers=w,
                            cst=kind, src=rng.choice(["df", "hdf5", "fits"]), mode=rng.choice(modes2)))
    return out


def split_passes(log, n):
    passes, cur = [], None
    for kind, a, b in log:
        if kind != "rows":
            return None
        if a == 0 or cur is None:
            cur = []
            passes.append(cur)
        cur.append((a, b))
    return passes


# ---------------------------------------------------------------------------------------------------------------
# TYPES of the parameters that steer reading (chunksize, probe_size, patch_num): the requests are a function of the VALUE
# handed over (Model/ChunksBuf.v: configured_cs / capped_cs, C18_param_requests_by_value); nothing / a falsy value selects
# the library's default (C18_default_single_request)
# ---------------------------------------------------------------------------------------------------------------
class RunawayRequests(Exception):
    """harness guard: the source was asked far more often than any pass of the model asks (a pass that does not end)"""


class CappedLog(list):
    """request log with a cap: every proxy records through append / extend"""
    cap = None

    def append(self, x):
        if self.cap is not None and len(self) >= self.cap:
            raise RunawayRequests("more than %d requests" % self.cap)
        list.append(self, x)

    def extend(self, xs):
        for x in xs:
            self.append(x)


def _np_item(dtype):
    return lambda v: np.asarray([v, v], dtype=dtype)[0]      # a value read from an array


# label -> (family, constructor from the value, largest value the type represents if that is within reach of an input)
CS_KINDS = {
    "int": ("int", int, None),
    "int64": ("np-integer", np.int64, None),
    "int32": ("np-integer", np.int32, None),
    "uint32": ("np-integer", np.uint32, None),
    "uint64": ("np-integer", np.uint64, None),
    "intp": ("np-integer", np.intp, None),
    "int16": ("np-integer", np.int16, 32767),
    "uint16": ("np-integer", np.uint16, 65535),
    "int8": ("np-integer", np.int8, 127),
    "uint8": ("np-integer", np.uint8, 255),
    "len//int64": ("np-integer", lambda v: (7 * v + 3) // np.int64(7), None),     # e.g. len(df) // np.int64(10)
    "int64-array-item": ("np-integer", _np_item("i8"), None),
    "int32-array-item": ("np-integer", _np_item("i4"), None),
    "float": ("float", float, None),                                               # integral values only
    "float64": ("float", np.float64, None),
    "float32": ("float", np.float32, None),
    "bool": ("bool", lambda v: True, None),                                        # value 1 only
    "bool_": ("bool", lambda v: np.True_, None),
    "omitted": ("default", None, None),
    "None": ("default", lambda v: None, None),
    "0": ("default", lambda v: 0, None),
    "int64(0)": ("default", lambda v: np.int64(0), None),
    "False": ("default", lambda v: False, None),
}
NP_INT_KINDS = [k for k, v in CS_KINDS.items() if v[0] == "np-integer"]
NP_WIDE_KINDS = [k for k in NP_INT_KINDS if CS_KINDS[k][2] is None]
FLOAT_KINDS = ["float", "float64", "float32"]
BOOL_KINDS = ["bool", "bool_"]
DEFAULT_KINDS = ["omitted", "None", "0", "int64(0)", "False"]
# probe_size / patch_num: (label, value); the label says whether the value is a plain Python int
PROBE_KINDS = [("omitted", None), ("int", 20), ("int", -1), ("int64", np.int64(20)), ("int32", np.int32(25)),
               ("uint8", np.uint8(21)), ("uint16", np.uint16(30)), ("int64", np.int64(-1)), ("intp", np.intp(22)),
               ("float", 20.0), ("float64", np.float64(24.0)), ("bool", True)]
PNUM_KINDS = [("bool", True), ("int64", np.int64(2)), ("int32", np.int32(2)), ("uint8", np.uint8(2)), ("float", 2.0)]
SCALE = 1000        # 16-bit chunk sizes beyond their range: lengths in multiples of SCALE (C18_requests_scale)


def cs_kwargs(kind, v, key="chunksize"):
    ctor = CS_KINDS[kind][1]
    return {} if ctor is None else {key: ctor(v)}


def cs_family(kind):
    return CS_KINDS[kind][0]


def cs_effective(kind, v, default):
    """the chunk size as a Python int: the value, or the library's default when nothing / a falsy value is handed over"""
    return default if cs_family(kind) == "default" else int(v)


def cs_term(kind, v, n, default):
    """the configured chunk size as a Coq term (n, v already divided by the scale)"""
    if kind == "int":
        return fq.nat(v)
    if cs_family(kind) != "default":
        return "(capped_cs %s (Some %s))" % (fq.nat(n), fq.nat(v))
    if n > default:
        return fq.nat(default)
    return "(capped_cs %s %s)" % (fq.nat(n), "None" if kind in ("omitted", "None") else "(Some 0%nat)")


def beyond_range(kind, v, n):
    """does a counter of the chunk size's own type leave the range of that type during a pass over n records?"""
    mx = CS_KINDS[kind][2]
    return mx is not None and v > 0 and -(-n // v) * v > mx


def request_cap(n, eff, passes):
    return 64 + 4 * passes * (-(-n // max(1, eff)) + 1)


def is_type_refusal(err, families, requests, allowed=1):
    """a parameter that is not a plain Python int (or nothing) was refused with a clean error before reading got under way
    (at most the requests for a first chunk were made): the property does not promise that such a value is accepted"""
    return (any(f not in ("int", "default") for f in families) and isinstance(err, (TypeError, ValueError, OverflowError))
            and not isinstance(err, RunawayRequests) and requests <= allowed)


def signature(base, meta):
    """structural signature: the kind of failure + the family of parameter types it was seen with"""
    if meta.get("beyond_range") and base.startswith(("c18-pass-never-ends", "c18-raises")):
        return "c18-narrow-dtype-counter-wraps"      # a narrow numpy integer, an input beyond its range, a pass without end
    fams = meta.get("families") or ("int",)
    for name, fam in zip(("chunksize", "probe_size", "patch_num"), fams):
        if fam != "int":
            return "%s:%s-as-%s" % (base, name, fam)
    return base


def first_bad_request(reqs, n, eff):
    """first logged request of a pass that is not the consecutive, non-empty continuation of at most eff records"""
    at = 0
    for i, (a, b) in enumerate(reqs):
        if a == 0 and i:
            at = 0
        if a != at or not a < min(b, n) or b - a > eff:
            return i, (a, b)
        at = min(b, n)
    return None


# ---------------------------------------------------------------------------------------------------------------
# reader history
# ---------------------------------------------------------------------------------------------------------------
class ProxyRec:
    """astropy FITS_rec: len() and column access; the row slices taken from the first column are logged"""

    def __init__(self, rec, log, first):
        self.rec, self.log, self.first = rec, log, first

    def __len__(self):
        return len(self.rec)

    def __getitem__(self, name):
        if isinstance(name, str):
            return ProxyDataset(self.rec[name], self.log if name == self.first else [])
        self.log.append(("other", repr(name), None))
        return self.rec[name]

    def __getattr__(self, name):
        return getattr(self.rec, name)


class ProxyHDU:
    def __init__(self, hdu, log, first):
        self.hdu, self.log, self.first = hdu, log, first

    @property
    def data(self):
        return ProxyRec(self.hdu.data, self.log, self.first)

    def __getattr__(self, name):
        return getattr(self.hdu, name)


class ProxyHDUList:
    def __init__(self, f, log, first):
        self.f, self.log, self.first = f, log, first

    def __getitem__(self, i):
        return ProxyHDU(self.f[i], self.log, self.first)

    def close(self):
        self.f.close()

    def __getattr__(self, name):
        return getattr(self.f, name)


HIST_SOURCES = ("df", "hdf5", "fits", "parquet", "random")
HIST_CENTERS = [[15.0, 0.0], [30.0, 3.0]]


def hist_columns(n):
    """coordinates in radians (degrees=False: stored bit for bit), distinct right ascensions = row identity"""
    ra = np.deg2rad(np.asarray([10.0 + (i * 37 % 101) / 4.0 + (i // 101) / 64.0 for i in range(n)]))
    dec = np.deg2rad(np.asarray([-5.0 + (i * 53 % 89) / 8.0 for i in range(n)]))
    return {"ra": ra, "dec": dec, "pid": np.asarray([i % 2 for i in range(n)], dtype="i8")}


def hist_core():
    """histories every source goes through in every run (the last two are the controls without a partial state)"""
    return [
        [("peek",)],
        [("abort", 0)],
        [("abort", 1)],
        [("islice", 2)],
        [("zip", 1)],
        [("probe", 3), ("peek",)],
        [("pass",), ("peek",)],
        [("nested",)],
        [("peek",), ("next", 1)],
        [("next", 1)],
        [("indicator", 1)],
        [("iter",), ("iter",), ("next", 2), ("len",), ("iter",), ("next", 1)],
        [("pass",)],
        [],
    ]


def hist_random(rng, nchunks, src):
    ops = []
    for _ in range(rng.choice([1, 1, 2, 2, 3, 4, 5])):
        kind = rng.choice(["peek", "next", "next", "iter", "islice", "zip", "abort", "abort", "pass", "probe", "nested",
                           "indicator", "len"] + (["write", "write", "create"] if src in ("df", "random") else []))
        j = rng.randrange(0, nchunks + 2)
        if kind in ("peek", "iter", "pass", "nested", "len", "write", "create"):
            ops.append((kind,))
        elif kind == "indicator":
            ops.append((kind, max(1, j)))
        elif kind == "probe":
            ops.append((kind, rng.randrange(1, 6)))
        else:
            ops.append((kind, j))
    return ops


def hist_partial_pass(n, cs, prims):
    """does some complete pass start from a partially consumed reader (0 < offset < n)?  statistics only"""
    off, hit = 0, False
    for p in prims:
        op = p["op"]
        if op == "RdIter":
            off = 0
        elif op == "RdPass":
            hit = hit or 0 < off < n
            off = -(-n // cs) * cs
        else:
            for _ in range(op[1]):
                if off < n:
                    off += cs
    return hit


def rd_ops_term(prims):
    return "[%s]" % "; ".join(p["op"] if isinstance(p["op"], str) else "RdNext %d" % p["op"][1] for p in prims)


def history_cases(ctx, readers, terms, metas, idx):
    from yaw.catalog.catalog import create_patch_centers, write_patches
    from yaw.randoms import BoxRandoms
    from yaw.utils.logging import Indicator
    import h5py
    import pyarrow as pa
    from astropy.io import fits as afits

    rng = ctx.rng
    centers = impl.AngularCoordinates(np.deg2rad(HIST_CENTERS))

    class LoggedBox(BoxRandoms):
        sizes = None

        def __call__(self, probe_size, *a, **k):
            self.sizes.append(int(probe_size))
            return super().__call__(probe_size, *a, **k)

    def shape(cs, big=True):
        """input lengths around the chunk boundaries, beyond two chunks unless `big` is off"""
        if big:
            return rng.choice([2 * cs + 1, 3 * cs, 3 * cs + 1, 4 * cs - 1 if cs > 1 else 5, 5 * cs + 2])
        return rng.choice([max(1, cs - 1), cs, cs + 1, 2 * cs])

    default_cs = int(readers.CHUNKSIZE)

    def kind_for(cs, typed):
        """the type in which the chunk size is handed to the reader: the state machine is the same for every type"""
        if not typed:
            return "int"
        pool = NP_INT_KINDS * 2 + FLOAT_KINDS + (BOOL_KINDS * 3 if cs == 1 else [])
        return rng.choice(pool)

    # deterministic probe (F29, repaired): a narrow numpy integer as chunk size and an input beyond the range of its type; the
    # record counter must not take over the type (one plain pass over each kind of source)
    plan = [("df", 300, 100, [], "direct", 0, "uint8"), ("hdf5", 300, 100, [], "direct", 0, "int8"),
            ("random", 300, 100, [], "direct", 0, "uint8")]
    # create_patch_centers (treecorr) costs about a second: one final pass in nine (every source meets it in every run)
    terminals = ["write-centers", "write-name", "create", "direct", "write-centers", "write-name", "direct",
                 "write-centers", "write-name"]
    k = rng.randrange(9)
    for src in HIST_SOURCES:
        for hi, hist in enumerate(hist_core()):
            cs = rng.choice([1, 2, 3, 4, 5, 7])
            plan.append((src, shape(cs), cs, hist, terminals[k % 9], 0, kind_for(cs, (hi + k) % 3 == 0)))
            k += 1
    for _ in range(ctx.n(55, 480)):
        src = rng.choice(HIST_SOURCES)
        cs = rng.choice([1, 2, 3, 4, 5, 7, 9])
        n = shape(cs, big=rng.random() < 0.8)
        workers = rng.choice([0, 0, 0, 2, 3])
        cst = kind_for(cs, rng.random() < 0.4)
        if rng.random() < 0.08:        # nothing / a falsy value: the default, the whole (small) source is one chunk
            cs, cst = 0, rng.choice(DEFAULT_KINDS)
        elif rng.random() < 0.08:      # 8-bit chunk sizes, inputs beyond the range of the type
            cst = rng.choice(["int8", "uint8"])
            cs = rng.choice([100, 37, 64, 120])
            n = rng.choice([300, CS_KINDS[cst][2] + 2, 2 * CS_KINDS[cst][2] + 5, 3 * cs + 1])
        eff = cs_effective(cst, cs, default_cs)
        plan.append((src, n, cs, hist_random(rng, -(-n // eff), src), rng.choice(terminals), workers, cst))

    for (src, n, cs, hist, terminal, workers, cst) in plan:
        eff = cs_effective(cst, cs, default_cs)
        families = (cs_family(cst),)
        if src == "random":
            n = max(n, 24)                       # a probe of >= 20 generated points for create_patch_centers
            if terminal == "write-name":
                terminal = "write-centers"       # generated points carry no patch index
        elif terminal == "create" or any(o[0] == "create" for o in hist):
            n = max(n, 4)
        if terminal == "write-centers" or any(o[0] == "write" for o in hist):
            n = max(n, 3)                        # both given centres attract a record (rows 0 and 2)
        name_mode = terminal == "write-name"
        cols = hist_columns(n)
        rowid = {float(v): i for i, v in enumerate(cols["ra"])}
        colnames = dict(ra_name="ra", dec_name="dec", patch_name="pid" if name_mode else None, degrees=False, **cs_kwargs(cst, cs))
        log, groups, path, pseed = CappedLog(), None, None, rng.randrange(10 ** 6)
        order = rng.choice(["random", "reverse", "identity"])
        spec = dict(history=True, src=src, n=n, cs=cs, cs_type=cst, ops=[list(o) for o in hist], final=terminal, workers=workers,
                    order=order, pool_seed=pseed, families=families, beyond_range=beyond_range(cst, cs, n), eff_cs=eff)
        if cst != "int":
            ctx.bump("param-type:chunksize=%s" % cst)
            ctx.bump("param-family:%s%s" % (families[0], "/beyond-range" if spec["beyond_range"] else ""))
        # ---- the reader object
        if src == "df":
            rd = readers.DataFrameReader(ProxyFrame(impl.make_df(cols), log), **colnames)
        elif src == "hdf5":
            path = os.path.join(ctx.workdir, "hist.hdf5")
            with h5py.File(path, "w") as f:
                for kk, v in cols.items():
                    f.create_dataset(kk, data=v)
            orig = readers.h5py

            class _H5:
                @staticmethod
                def File(p, mode="r"):
                    return ProxyH5(orig.File(p, mode=mode), log, "ra")
            readers.h5py = _H5
            try:
                rd = readers.new_filereader(path, **colnames)
            finally:
                readers.h5py = orig
        elif src == "fits":
            path = os.path.join(ctx.workdir, "hist.fits")
            afits.BinTableHDU.from_columns([afits.Column(name="ra", format="D", array=cols["ra"]),
                                            afits.Column(name="dec", format="D", array=cols["dec"]),
                                            afits.Column(name="pid", format="K", array=cols["pid"])]).writeto(path, overwrite=True)
            orig = readers.fits

            class _Fits:
                @staticmethod
                def open(p, *a, **kw):
                    return ProxyHDUList(orig.open(p, *a, **kw), log, "ra")
            readers.fits = _Fits
            try:
                rd = readers.new_filereader(path, **colnames)
            finally:
                readers.fits = orig
        elif src == "parquet":
            path = os.path.join(ctx.workdir, "hist.pqt")
            table = pa.table(cols)
            csg = max(1, min(eff, n))
            if rng.random() < 0.6:
                rgs = rng.choice([1, max(1, csg - 1), csg, csg + 1, 2 * csg + 1, rng.randrange(1, 12)])
                groups = write_parquet(path, table, rgs, None)
            else:
                g, left = [], n
                while left:
                    g.append(min(left, rng.randrange(1, 2 * csg + 3)))
                    left -= g[-1]
                groups = write_parquet(path, table, 0, g)
            spec["groups"] = groups
            with parquet_logged(readers, log):
                rd = readers.new_filereader(path, **colnames)
        else:
            gen = LoggedBox(10.0, 35.0, -5.0, 6.0, seed=pseed)
            gen.sizes = log
            rd = readers.RandomReader(gen, n, **cs_kwargs(cst, cs))
        # operations of the history + the final ones, each at most a complete pass (Parquet: one more index than row groups)
        log.cap = (len(hist) + 4) * (request_cap(n, eff, 1) + len(groups or ()))
        is_rows = src in ("df", "hdf5", "fits")
        mark = [0]
        prims, probes, state = [], [], dict(odd=[], stored_ok=True, refused=0, pools=0)

        def cut():
            seg = log[mark[0]:]
            mark[0] = len(log)
            if is_rows:
                state["odd"] += [e for e in seg if e[0] != "rows" or e[1] is None or e[2] is None or e[1] < 0]
                return [(e[1], e[2]) for e in seg if e[0] == "rows" and e[1] is not None and e[2] is not None and e[1] >= 0]
            if src == "parquet":
                return [r for r in seg if r < len(groups)]      # the reader probes one index past the end
            return list(seg)

        def emit(ops, chunks=None, how=None):
            seg = cut()
            for o in ops[:-1]:
                prims.append(dict(op=o, seg=[], chunks=[], how=how))
            prims.append(dict(op=ops[-1], seg=seg, chunks=chunks, how=how))

        def rows_of(chunk):
            if src == "random":
                return len(chunk)
            return [rowid.get(float(x), -1) for x in chunk["ra"]]

        def take(it, k_):
            got = []
            for _ in range(k_):
                try:
                    got.append(rows_of(next(it)))
                except StopIteration:
                    break
            return got

        def write(cache, given):
            """the public writer, sequentially or on the simulated pool; what it stored is compared with the source"""
            pc = pool_ctx(workers, order, pseed)
            mw = worker_arg(workers, "arg")
            refused = False
            try:
                with pc as mp:
                    try:
                        write_patches(cache, rd, given, overwrite=True, progress=False, max_workers=mw)
                    except (ValueError, RuntimeError) as e:
                        if not is_empty_patch_refusal(e, mp):
                            raise
                        refused = True     # only possible when records are missing: the requests tell
            finally:
                impl.set_threads(1)
            state["pools"] += 1 if getattr(mp, "pool_sizes", ()) else 0
            emit(["RdPass"], None, how="write_patches")
            if refused:
                state["refused"] += 1
                state["stored_ok"] = False
            else:
                stored = [float(x) for rec in impl.patch_records(impl.Catalog(cache, max_workers=1)).values() for x in rec["ra"]]
                if src == "random":
                    state["stored_ok"] = state["stored_ok"] and len(stored) == n
                else:
                    state["stored_ok"] = state["stored_ok"] and sorted(stored) == sorted(float(v) for v in cols["ra"])
            shutil.rmtree(cache, ignore_errors=True)

        def probe_centres():
            size = rng.randrange(20, n + 1) if src == "random" else rng.choice([-1, 20, 25])
            size = rng.choice([int, int, np.int64, np.int32, np.intp, np.int16])(size)     # the value counts, not the type
            spec.setdefault("probe_sizes", []).append("%s(%d)" % (type(size).__name__, size))
            c = create_patch_centers(rd, 2, size)
            if src == "random":
                probes.append((size if size >= 20 else None, cut()))
            else:
                emit(["RdPass"], None, how="create_patch_centers")
            return c

        def do(op):
            kind = op[0]
            if kind == "iter":
                iter(rd)
                emit(["RdIter"], [])
            elif kind == "next":
                emit([("RdNext", op[1])], take(rd, op[1]))
            elif kind == "peek":
                emit(["RdIter", ("RdNext", 1)], take(iter(rd), 1))
            elif kind == "islice":
                emit(["RdIter", ("RdNext", op[1])], [rows_of(c) for c in itertools.islice(rd, op[1])])
            elif kind == "zip":          # zip draws one more chunk than it hands out
                for _c, _i in zip(rd, range(op[1])):
                    pass
                emit(["RdIter", ("RdNext", op[1] + 1)], None)
            elif kind == "abort":
                got = []
                for i, c in enumerate(rd):
                    got.append(rows_of(c))
                    if i == op[1]:
                        break
                emit(["RdIter", ("RdNext", op[1] + 1)], got)
            elif kind == "pass":
                emit(["RdPass"], [rows_of(c) for c in rd], how="for-loop")
            elif kind == "nested":       # the reader is its own iterator: the inner loop uses up the outer one
                extra = []
                for i, a in enumerate(rd):
                    if i == 0:
                        emit(["RdIter", ("RdNext", 1)], [rows_of(a)])
                        emit(["RdPass"], [rows_of(b) for b in rd], how="for-loop-nested")
                    else:
                        extra.append(rows_of(a))
                emit([("RdNext", 1)], extra)
            elif kind == "indicator":    # a preview through the progress display, abandoned
                it = iter(Indicator(rd, stream=io.StringIO()))
                got = take(it, op[1])
                it.close()
                emit(["RdIter", ("RdNext", op[1])], got)
            elif kind == "len":
                len(rd), rd.num_records, rd.num_chunks, repr(rd), rd.copy_chunk_info()
                emit([("RdNext", 0)], [])
            elif kind == "probe":
                k_ = min(op[1], n)
                rd.get_probe(rng.choice([int, int, np.int64, np.int32, np.uint8, np.uint16])(k_))
                if src == "random":
                    probes.append((k_, cut()))
                else:
                    emit(["RdPass"], None, how="get_probe")
            elif kind == "write":
                write(impl.fresh_dir(ctx, "hcat"), centers)
            elif kind == "create":
                write(impl.fresh_dir(ctx, "hcat"), probe_centres())
            else:
                raise AssertionError(kind)

        err = None
        try:
            for op in hist:
                do(op)
            if terminal == "direct":
                do(("pass",))
            elif terminal == "create":
                do(("create",))
            else:
                write(impl.fresh_dir(ctx, "hcat"), None if name_mode else centers)
        except Exception as e:  # noqa: BLE001 - every operation of the plan is valid on a valid source
            err = e
        finally:
            try:
                rd.__exit__(None, None, None)
            except Exception:  # noqa: BLE001 - already closed by write_patches
                pass
            if path is not None and os.path.exists(path):
                os.unlink(path)
        partial = hist_partial_pass(n, eff, prims)
        ctx.count(key=("history", src, n, cs, cst, tuple(tuple(o) for o in hist), terminal, workers, tuple(groups or ())),
                  nontrivial=partial, kind="history/%s/%s%s%s" % (src, terminal, "/pool" if state["pools"] else "",
                                                                "" if cst == "int" else "/typed:%s" % families[0]))
        ctx.bump("history:%s" % ("pass_from_partial_state" if partial else "complete_or_fresh_only"))
        for o in hist:
            ctx.bump("history-op:%s" % o[0])
        spec["trace"] = [dict(op=p["op"], requests=p["seg"][:12], how=p["how"]) for p in prims][:24]
        if err is not None:
            first = (min(len(groups), eff) + 1 if src == "parquet" else 1) + sum(1 for o in hist if o[0] in ("probe", "create"))
            if is_type_refusal(err, families, len(log), first + (terminal == "create")):
                ctx.bump("refused:%s-reader:chunksize=%s:%s" % (src, cst, type(err).__name__))
                continue
            ctx.fail(signature("c18-pass-never-ends" if isinstance(err, RunawayRequests) else "c18-raises:%s" % type(err).__name__, spec),
                     "%s reader, %d records, chunk size %s(%d): an operation of the history %s / final %s raised %r; requests "
                     "before that: %s" % (src, n, cst, cs, hist, terminal, err,
                                          [(e[1], e[2]) if isinstance(e, tuple) else e for e in list(log)[:10]]), spec, case=idx)
            idx += 1
            continue
        if state["odd"]:
            if any(e[0] == "column" for e in state["odd"]):
                ctx.fail(signature("c18-whole-input", spec), "the source was asked for a whole column at once: %s" % state["odd"][:3], spec, case=idx)
            else:
                ctx.disagree("c18-access-path-not-observable", idx, dict(spec, odd=state["odd"][:5]))
            idx += 1
            continue
        # which complete pass (if any) is not a complete pass: for the message only, the verdict is Coq's
        want = [(lo, min(lo + eff, n)) for lo in range(0, n, eff)]
        rows_ok = state["stored_ok"]
        bad_pass = None
        for p in prims:
            seg = p["seg"]
            if is_rows:
                clipped = [(a, min(b, n)) for a, b in seg]
                if p["op"] == "RdPass" and clipped != want and bad_pass is None:
                    bad_pass = (p["how"], clipped)
                if p["chunks"] is not None:
                    rows_ok = rows_ok and [r for c in p["chunks"] for r in c] == [r for a, b in clipped for r in range(a, b)]
            elif src == "parquet":
                if p["op"] == "RdPass" and seg != list(range(len(groups))) and bad_pass is None:
                    bad_pass = (p["how"], seg)
                if p["op"] == "RdPass" and p["chunks"] is not None:
                    rows_ok = rows_ok and [r for c in p["chunks"] for r in c] == list(range(n))
            else:
                if p["op"] == "RdPass" and seg != [b - a for a, b in want] and bad_pass is None:
                    bad_pass = (p["how"], seg)
                if p["chunks"] is not None:
                    rows_ok = rows_ok and list(p["chunks"]) == seg
        probes_ok = all(seg == [k_] for k_, seg in probes if k_ is not None)
        ops_t = rd_ops_term(prims)
        cs_t = cs_term(cst, cs, n, default_cs)
        if is_rows:
            raw_ok = all(b - a <= eff for p in prims for a, b in p["seg"])
            terms.append("c18_hist_case %s %s %s %s %s %s" % (
                fq.nat(n), cs_t, ops_t,
                fq.lst([fq.lst([fq.pair(fq.nat(a), fq.nat(min(b, n))) for a, b in p["seg"]]) for p in prims]),
                fq.b(raw_ok), fq.b(rows_ok)))
        elif src == "parquet":
            terms.append("c18_pq_hist_case %s %s %s %s %s %s" % (
                cs_t, fq.nlist(groups), ops_t, fq.lst([fq.nlist(p["seg"]) for p in prims]),
                fq.lst([fq.opt(None if p["chunks"] is None else [len(c) for c in p["chunks"]], fq.nlist) for p in prims]),
                fq.b(rows_ok)))
        else:
            terms.append("c18_hist_sizes_case %s %s %s %s %s" % (
                fq.nat(n), cs_t, ops_t, fq.lst([fq.nlist(p["seg"]) for p in prims]), fq.b(rows_ok)))
        metas.append((idx, dict(spec, bad_pass=bad_pass, rows_ok=rows_ok, refused=state["refused"],
                                probes=[(k_, seg[:6]) for k_, seg in probes], probes_ok=probes_ok)))
        if not probes_ok:
            # RandomReader.get_probe(k) = one call of the generator for k points; no statement of C18 depends on it
            ctx.disagree("Cases_C18:history-random-probe", idx, dict(spec, probes=probes))
        ctx.sample(dict(spec, passes=[(p["how"], p["seg"][:8]) for p in prims if p["op"] == "RdPass"]), limit=3)
        idx += 1
    return idx


def history_verdict(ctx, i, c, meta):
    """bits: 1 requests = state machine, operation by operation; then per kind of source
       rows / random: 2 every complete pass covers every record once in portions of 1..cs, 4 no request above cs, 8 records
       parquet:       2 chunk lengths = model, 4 every complete pass requests every row group once in order, 8 records"""
    pq = meta["src"] == "parquet"
    spec_bit, size_bit = (4, 0) if pq else (2, 4)
    if c & spec_bit:
        how, got = meta["bad_pass"] if meta["bad_pass"] else ("pass", None)
        ctx.fail(signature("c18-pass-after-history:%s" % how, meta),
                 "after the history %s on a %s reader (%d records, chunk size %s(%d)) the complete pass made by %s requested %s "
                 "instead of every record once from the start in portions of at most %d%s"
                 % (meta["ops"], meta["src"], meta["n"], meta["cs_type"], meta["cs"], how, got if got is None else got[:12], meta["eff_cs"],
                    "" if meta["rows_ok"] else "; records are missing from what was handed over / stored"), meta, case=i)
    if size_bit and c & size_bit:
        ctx.fail(signature("c18-requests", meta), "an operation on a %s reader with chunk size %s(%d) requested more than a chunk at once "
                 "(code %d)" % (meta["src"], meta["cs_type"], meta["cs"], c), meta, case=i)
    if c & ~(spec_bit | size_bit):
        ctx.disagree("Cases_C18:history", i, dict(code=c, meta=meta))


# ---------------------------------------------------------------------------------------------------------------
# several readers alive at the same time
# ---------------------------------------------------------------------------------------------------------------
WORLD_KINDS = ("parquet", "parquet", "fits", "hdf5", "df", "random")
FOREIGN = 4999        # row number given to a delivered record that is not a record of the reader's own source
W_SLOT = 1024         # record identity: ra = (source * W_SLOT + row + 1) / 8192 rad


def world_columns(fid, n):
    rows = np.arange(n)
    return {"ra": (fid * W_SLOT + rows + 1) / 8192.0, "dec": ((rows * 53) % 89 - 44) / 256.0, "pid": (rows % 2).astype("i8")}


def world_rows(ra, fid):
    """row numbers (within source fid) of delivered records; FOREIGN for a record of another source / of no source"""
    out = []
    for v in np.asarray(ra, dtype="f8") * 8192.0 - 1.0:
        iv = int(round(float(v)))
        f, r = divmod(iv, W_SLOT)
        out.append(r if (iv == v and iv >= 0 and f == fid) else FOREIGN)
    return out


def world_sources(ctx, rng, tag, nsrc, big, forced=()):
    """sources of one world: files of every format, a data frame, a random generator; Parquet files with row groups of one size
    or of uneven sizes; the first sources are of the kinds in `forced`"""
    import h5py
    import pyarrow as pa
    from astropy.io import fits as afits
    out = []
    for fid in range(nsrc):
        kind = forced[fid] if fid < len(forced) else rng.choice(WORLD_KINDS)
        if big and kind == "parquet":
            rg = rng.choice([300, 256, 97, 333])
            n = rng.choice([1000, 700, 3 * rg + 1, 2 * rg + rng.randrange(1, rg)])
        else:
            rg = rng.choice([1, 2, 3, 3, 4, 5, 7, 9])
            n = rng.choice([2 * rg + 1, 3 * rg + 1, 4 * rg - 1 if rg > 1 else 5, 5 * rg + 2, rng.randrange(2, 40)])
        n = max(2, min(n, W_SLOT - 1))
        src = dict(fid=fid, kind=kind, n=n, groups=None, path=None)
        cols = world_columns(fid, n)
        base = os.path.join(ctx.workdir, "world_%s_%d" % (tag, fid))
        if kind == "df":
            src["df"] = impl.make_df(cols)
        elif kind == "random":
            src["seed"] = rng.randrange(10 ** 6)
        elif kind == "hdf5":
            src["path"] = base + ".hdf5"
            with h5py.File(src["path"], "w") as f:
                for kk, v in cols.items():
                    f.create_dataset(kk, data=v)
        elif kind == "fits":
            src["path"] = base + ".fits"

            def table(c):
                return afits.BinTableHDU.from_columns([afits.Column(name="ra", format="D", array=c["ra"]),
                                                       afits.Column(name="dec", format="D", array=c["dec"]),
                                                       afits.Column(name="pid", format="K", array=c["pid"])])
            # every other FITS source keeps its table behind 1-2 other tables with the same columns but other lengths (shorter and
            # longer) and foreign records: the extension named to the reader is the one that counts, for its length too
            ndecoy = rng.choice([0, 1, 2]) if rng.random() < 0.7 else 0
            decoys = []
            for d in range(ndecoy):
                m = max(1, (src["n"] // 3) if d == 0 else src["n"] + 5 + d)
                decoys.append(table({"ra": np.full(m, -1.0), "dec": np.zeros(m), "pid": np.zeros(m, dtype="i8")}))
            src["hdu"] = 1 + ndecoy
            afits.HDUList([afits.PrimaryHDU()] + decoys + [table(cols)]).writeto(src["path"], overwrite=True)
        else:
            src["path"] = base + ".pqt"
            if rng.random() < 0.65:
                src["groups"] = write_parquet(src["path"], pa.table(cols), rg, None)
            else:
                g, left = [], n
                while left:
                    g.append(min(left, rng.randrange(1, 2 * rg + 2)))
                    left -= g[-1]
                src["groups"] = write_parquet(src["path"], pa.table(cols), 0, g)
        out.append(src)
    return out


def world_chunksize(rng, src):
    """mostly NOT aligned with the row groups (a remainder stays in the reader between two chunks)"""
    n = src["n"]
    if src["groups"]:
        g = max(src["groups"])
        cands = [c for c in (g - 1, g + 1, 2 * g - 1, 2 * g + 1, g // 2 + 1, 3 * g + 2, rng.randrange(1, 2 * g + 3)) if c >= 1]
        if rng.random() < 0.15:
            cands = [g, 2 * g]              # controls: aligned
        cs = rng.choice(cands)
    else:
        cs = rng.choice([1, 2, 3, 4, 5, 7, 9, max(1, n // 3), max(1, n // 2 + 1)])
    if rng.random() < 0.05:
        cs = n + rng.randrange(0, 3)        # the whole source in one chunk
    return max(1, min(cs, 4000))


def world_hops(rng, slots, sources, style):
    """an interleaved list of operations on the readers of a world; every operation is valid (a closed reader is only opened)"""
    hops, isopen = [], [False] * len(slots)
    nch = [-(-sources[sl["src"]]["n"] // sl["cs"]) for sl in slots]
    creatable = [i for i, s_ in enumerate(sources) if s_["kind"] != "random" and s_["n"] >= 2]

    def act(k, what):
        """one action on reader k, opened first where needed"""
        if not isopen[k] and what != "open":
            hops.append(("open", k))
            isopen[k] = True
        if what == "open":
            if isopen[k]:
                hops.append(("close", k))
            hops.append(("open", k))
            isopen[k] = True
        elif what == "close":
            hops.append(("close", k))
            isopen[k] = False
        elif what == "next":
            hops.append(("next", k, rng.choice([1, 1, 1, 2, 3])))
        elif what == "probe":
            hops.append(("probe", k, rng.randrange(1, min(sources[slots[k]["src"]]["n"], 6) + 1)))
        elif what == "create":
            if creatable:
                i = rng.choice(creatable)
                hops.append(("create", i, world_chunksize(rng, sources[i])))
        else:
            hops.append((what, k))

    ks = list(range(len(slots)))
    if style == "lockstep":
        rng.shuffle(ks)
        for k in ks:
            act(k, "open")
        for _ in range(max(nch) + 1):
            for k in ks:
                hops.append(("next", k, 1))
        if rng.random() < 0.5:
            for k in ks:
                act(k, "pass")
    elif style == "intruder":
        a = rng.choice(ks)
        others = [k for k in ks if k != a]
        for b in others:
            if rng.random() < 0.5:
                act(b, "open")
                if rng.random() < 0.5:
                    act(b, "next")
        act(a, "open")
        for _ in range(rng.randrange(1, max(2, nch[a]))):
            hops.append(("next", a, 1))
        for _ in range(rng.choice([1, 1, 2, 3])):
            act(rng.choice(others), rng.choice(["open", "peek", "pass", "iter", "next", "probe", "close", "create", "open", "iter"]))
        hops.append(("next", a, nch[a] + 1))
        if rng.random() < 0.5:
            act(a, rng.choice(["pass", "probe"]))
    else:
        for _ in range(rng.randrange(6, 26)):
            act(rng.choice(ks), rng.choice(["next"] * 8 + ["iter", "peek", "pass", "probe", "close", "open", "create"]))
    for k in ks:
        if isopen[k] and rng.random() < 0.8:
            act(k, "close")
    return hops


def world_run(ctx, readers, sources, slots, hops):
    """drive the readers of `slots` through `hops`; returns the primitive operations (reader, life_op) with what the addressed
    reader was seen to do.  Used for the interleaved run and, with one slot, for the run of a reader alone."""
    from yaw.randoms import BoxRandoms
    rds, logs = [None] * len(slots), [None] * len(slots)
    res = dict(prims=[], obs=[], err=None, probes=[], creates=[], values=[[] for _ in slots], temps=[], mid=0)
    pos = [None] * len(slots)           # records delivered since the last rewind (None = not open); statistics only

    def emit(k, lop, ob):
        res["prims"].append((k, lop))
        res["obs"].append(ob)

    def others_partial(k):
        return any(j != k and pos[j] is not None and 0 < pos[j] < sources[slots[j]["src"]]["n"] for j in range(len(slots)))

    def take(k, j):
        src = sources[slots[k]["src"]]
        outs = []
        for _ in range(j):
            mark = len(logs[k]) if logs[k] is not None else 0
            try:
                c = next(rds[k])
            except StopIteration:
                break
            reqs = [r for r in logs[k][mark:] if r < len(src["groups"])] if logs[k] is not None else []
            if src["kind"] == "random":
                rows = [0] * len(c)
                res["values"][k].append((c["ra"].tobytes(), c["dec"].tobytes()))
            else:
                rows = world_rows(c["ra"], src["fid"])
            outs.append((reqs, rows))
            pos[k] += len(rows)
            if len(outs) > src["n"] + 8:
                raise RunawayRequests("more than %d chunks" % (src["n"] + 8))
        return outs

    impl.set_threads(1)
    try:
        for hi, hop in enumerate(hops):
            what, k = hop[0], hop[1]
            res["at"] = hi
            if what == "create":
                src, cs_t = sources[k], hop[2]
                if any(p is not None and 0 < p < sources[slots[j]["src"]]["n"] for j, p in enumerate(pos)):
                    res["mid"] += 1
                t = len(slots) + len(res["temps"])
                res["temps"].append(dict(src=k, cs=cs_t))
                cache = impl.fresh_dir(ctx, "wcat")
                kw = dict(ra_name="ra", dec_name="dec", patch_name="pid", degrees=False, chunksize=cs_t, max_workers=1, overwrite=True)
                if src["kind"] == "df":
                    cat = impl.Catalog.from_dataframe(cache, src["df"], **kw)
                else:
                    cat = impl.Catalog.from_file(cache, src["path"], **(dict(kw, hdu=src["hdu"]) if src["kind"] == "fits" else kw))
                stored = sorted(r for rec in impl.patch_records(cat).values() for r in world_rows(rec["ra"], src["fid"]))
                del cat
                shutil.rmtree(cache, ignore_errors=True)
                res["creates"].append(dict(hop=hi, src=k, ok=stored == list(range(src["n"])), stored=len(stored),
                                           foreign=stored.count(FOREIGN)))
                emit(t, "LOpen", [])
                emit(t, "LDo RdPass", None)
                emit(t, "LClose", [])
                continue
            src, cs = sources[slots[k]["src"]], slots[k]["cs"]
            if what != "open" and others_partial(k):
                res["mid"] += 1
            if what == "open":
                if others_partial(k):
                    res["mid"] += 1
                common = dict(ra_name="ra", dec_name="dec", degrees=False, chunksize=cs)
                logs[k] = None
                if src["kind"] == "df":
                    rds[k] = readers.DataFrameReader(src["df"], **common)
                elif src["kind"] == "random":
                    rds[k] = readers.RandomReader(BoxRandoms(10.0, 35.0, -5.0, 6.0, seed=src["seed"]), src["n"], chunksize=cs)
                elif src["kind"] == "parquet":
                    logs[k] = []
                    with parquet_logged(readers, logs[k]):
                        rds[k] = readers.new_filereader(src["path"], **common)
                else:
                    rds[k] = readers.new_filereader(src["path"], **(dict(common, hdu=src["hdu"]) if src["kind"] == "fits" else common))
                pos[k] = 0
                emit(k, "LOpen", [])
            elif what == "close":
                rds[k].__exit__(None, None, None)
                rds[k], pos[k] = None, None
                emit(k, "LClose", [])
            elif what == "iter":
                iter(rds[k])
                pos[k] = 0
                emit(k, "LDo RdIter", [])
            elif what == "next":
                emit(k, "LDo (RdNext %d)" % hop[2], take(k, hop[2]))
            elif what == "peek":
                iter(rds[k])
                pos[k] = 0
                emit(k, "LDo RdIter", [])
                emit(k, "LDo (RdNext 1)", take(k, 1))
            elif what == "pass":
                iter(rds[k])
                pos[k] = 0
                emit(k, "LDo RdPass", take(k, src["n"] + 9))
            elif what == "probe":
                got = rds[k].get_probe(hop[2])
                if src["kind"] == "random":     # one call of the generator; the state of the iteration is not touched
                    res["values"][k].append((got["ra"].tobytes(), got["dec"].tobytes()))
                    res["probes"].append(dict(hop=hi, k=k, ok=len(got) == hop[2], got=len(got), want=hop[2]))
                else:
                    rows = sorted(world_rows(got["ra"], src["fid"]))
                    want = sorted(np.linspace(0, src["n"] - 1, hop[2]).astype(int).tolist())
                    res["probes"].append(dict(hop=hi, k=k, ok=rows == want, got=rows[:12], want=want[:12]))
                    pos[k] = src["n"]
                    emit(k, "LDo RdPass", None)
            else:
                raise AssertionError(what)
    except Exception as e:  # noqa: BLE001 - every operation of the plan is valid
        res["err"] = e
    finally:
        for rd in rds:
            if rd is not None:
                try:
                    rd.__exit__(None, None, None)
                except Exception:  # noqa: BLE001
                    pass
    return res


def world_cfg_term(src, cs):
    if src["kind"] == "parquet":
        return "(CPq %s (rows_of_sizes %s))" % (fq.nat(cs), fq.nlist(src["groups"]))
    return "(COff %s %s %s)" % (fq.b(src["kind"] != "random"), fq.nat(src["n"]), fq.nat(cs))


def world_obs_term(obs):
    return fq.lst(["None" if ob is None else "(Some %s)" % fq.lst([fq.pair(fq.nlist(q), fq.nlist(r)) for q, r in ob]) for ob in obs])


def world_diagnose(src, cs, seq):
    """what is wrong with the stream of one reader (for the message and the variant of the signature; the verdict is Coq's)"""
    n, groups, ids = src["n"], src["groups"] or [], src["kind"] != "random"
    maxg = max(groups) if groups else 0
    pos = loaded = foreign = 0
    bad, buf = [], []
    for lop, ob in seq:
        if not lop.startswith("LDo (RdNext") and lop != "LDo RdPass":
            pos = loaded = 0
            continue
        if ob is None:
            if lop == "LDo RdPass":
                pos = loaded = n
            continue
        if lop == "LDo RdPass":
            pos = loaded = 0
        for reqs, rows in ob:
            loaded += sum(groups[i] for i in reqs)
            foreign += rows.count(FOREIGN) if ids else 0
            if not 1 <= len(rows) <= cs:
                bad.append("a chunk of %d records (chunk size %d)" % (len(rows), cs))
            elif pos + len(rows) > n or (ids and rows != list(range(pos, pos + len(rows)))):
                bad.append("rows %s delivered where rows %d.. were due" % (rows[:6], pos))
            if loaded and not loaded - pos < cs + maxg:
                buf.append("%d rows requested and not yet delivered (chunk size %d, largest row group %d)" % (loaded - pos, cs, maxg))
            pos += len(rows)
        want = None if lop == "LDo RdPass" else int(lop[len("LDo (RdNext "):-1])
        if pos != n and (want is None or len(ob) < want):
            bad.append("%s ended after %d of %d records" % ("the pass" if want is None else "iteration", pos, n))
        if want is not None and len(ob) > want:
            bad.append("more chunks than calls")
    return bad, buf, foreign


def world_cases(ctx, readers, terms, metas, idx):
    rng = ctx.rng
    styles = ["lockstep", "intruder", "intruder", "walk", "walk"]
    nworlds = ctx.n(200, 2500)
    t_start, first = __import__("time").time(), idx
    for wi in range(nworlds):
        big = (wi % 23 == 5) if ctx.quick() else (wi % 15 == 5)
        nslots = rng.choice([2, 2, 3])
        nsrc = rng.randrange(1, nslots + 1) if rng.random() < 0.4 else nslots
        # every fourth world: two readers of ONE kind (each kind in turn), on two sources or on the same one
        same = ("parquet", "fits", "hdf5", "df", "random")[(wi // 4 * 2 + wi // 20 + ctx.seed) % 5] if wi % 4 == 0 else None
        sources = world_sources(ctx, rng, "%d" % wi, nsrc, big, forced=(same,) * min(2, nsrc) if same else ())
        order = list(range(nsrc)) + [rng.randrange(nsrc) for _ in range(nslots - nsrc)]
        rng.shuffle(order)
        slots = [dict(src=i, cs=world_chunksize(rng, sources[i])) for i in order]
        style = styles[wi % len(styles)]
        hops = world_hops(rng, slots, sources, style)
        w = world_run(ctx, readers, sources, slots, hops)
        kinds = [sources[sl["src"]]["kind"] for sl in slots]
        spec = dict(world=True, style=style, hops=[list(h) for h in hops],
                    sources=[dict(kind=s_["kind"], n=s_["n"], groups=s_["groups"]) for s_ in sources],
                    readers=[dict(source=sl["src"], kind=kd, chunksize=sl["cs"]) for sl, kd in zip(slots, kinds)])
        ctx.count(key=("world", tuple((s_["kind"], s_["n"], tuple(s_["groups"] or ())) for s_ in sources),
                       tuple((sl["src"], sl["cs"]) for sl in slots), tuple(hops)),
                  nontrivial=w["mid"] > 0, kind="world/%s/%s" % (style, "+".join(sorted(kinds))))
        ctx.bump("world:%s" % ("operation_while_another_reader_is_partially_consumed" if w["mid"] else "no_overlap"))
        if len(set(order)) < len(order):
            ctx.bump("world:two_readers_on_one_source")
        if kinds.count("parquet") >= 2:
            ctx.bump("world:two_parquet_readers")
        for h in hops:
            ctx.bump("world-op:%s" % h[0])
        # every reader alone, driven through the operations addressed to it (a fresh object on the same source)
        solos = []
        for k, sl in enumerate(slots):
            mine = [(h[0], 0) + tuple(h[2:]) for h in hops if h[0] != "create" and h[1] == k]
            if w["err"] is not None:
                mine = [(h[0], 0) + tuple(h[2:]) for h in hops[:w["at"] + 1] if h[0] != "create" and h[1] == k]
            solos.append(world_run(ctx, readers, sources, [sl], mine))
        for s_ in sources:
            if s_["path"] and os.path.exists(s_["path"]):
                os.unlink(s_["path"])
        if w["err"] is not None:
            hop = hops[w["at"]]
            k = hop[1] if hop[0] != "create" else None
            kind = sources[hop[1]]["kind"] if k is None else kinds[k]
            alone = k is not None and solos[k]["err"] is not None
            base = "c18-raises" if alone else ("c18-creation-raises-with-live-readers" if k is None else "c18-reader-raises-with-other-readers")
            sig = "c18-pass-never-ends" if alone and isinstance(w["err"], RunawayRequests) else "%s:%s:%s" % (base, kind, type(w["err"]).__name__)
            ctx.fail(sig, "%d readers alive (%s): operation #%d %s raised %r%s" % (
                len(slots), ", ".join("%s n=%d cs=%d" % (kd, sources[sl["src"]]["n"], sl["cs"]) for sl, kd in zip(slots, kinds)),
                w["at"], list(hop), w["err"], "; the same reader driven alone raises as well" if alone else
                "; the same operations on that reader alone do not raise"), spec, case=idx)
            idx += 1
            continue
        # results of probes and creations (not part of the streams)
        for pr in w["probes"]:
            if not pr["ok"]:
                k = pr["k"]
                alone = any(not q["ok"] for q in solos[k]["probes"])
                ctx.fail("%s:%s" % ("c18-probe" if alone else "c18-probe-depends-on-other-readers", kinds[k]),
                         "get_probe on a %s reader returned rows %s instead of %s while %d other readers were alive%s"
                         % (kinds[k], pr["got"], pr["want"], len(slots) - 1, " (alone as well)" if alone else " (alone: correct)"),
                         spec, case=idx)
        for cr in w["creates"]:
            if not cr["ok"]:
                ctx.fail("c18-creation-with-live-readers:%s" % sources[cr["src"]]["kind"],
                         "a catalog created from a %s source of %d records while other readers were alive stores %d records, %d of them "
                         "not of that source" % (sources[cr["src"]]["kind"], sources[cr["src"]]["n"], cr["stored"], cr["foreign"]), spec, case=idx)
        # a random reader alone must generate what it generates in company (its generator is its own)
        for k, sl in enumerate(slots):
            if kinds[k] == "random" and solos[k]["err"] is None and solos[k]["values"][0] != w["values"][k]:
                ctx.fail("c18-reader-stream-depends-on-other-readers:random-values",
                         "a random reader (%d points, chunk size %d, seed %d) generates other points when other readers are used in "
                         "between than when driven alone through the same operations" % (sources[sl["src"]]["n"], sl["cs"], sources[sl["src"]]["seed"]),
                         spec, case=idx)
        cfgs = [world_cfg_term(sources[sl["src"]], sl["cs"]) for sl in slots] + \
               [world_cfg_term(sources[t["src"]], t["cs"]) for t in w["temps"]]
        terms.append("c18_world_case %s %s %s" % (fq.lst(cfgs), fq.lst(["(%d, %s)" % (k, lop) for k, lop in w["prims"]]),
                                                  world_obs_term(w["obs"])))
        diag = []
        for k, sl in enumerate(slots):
            seq = [(lop, ob) for (kk, lop), ob in zip(w["prims"], w["obs"]) if kk == k]
            diag.append(world_diagnose(sources[sl["src"]], sl["cs"], seq))
        widx = idx
        idx += 1
        solo_cases = []
        for k, sl in enumerate(slots):
            so = solos[k]
            if so["err"] is not None:
                ctx.fail("c18-raises:%s:%s" % (kinds[k], type(so["err"]).__name__), "a %s reader (%d records, chunk size %d) driven alone "
                         "through %s raised %r" % (kinds[k], sources[sl["src"]]["n"], sl["cs"], [h for h in hops if h[0] != "create" and h[1] == k],
                                                   so["err"]), spec, case=widx)
                solo_cases.append(None)
                continue
            terms.append("c18_solo_case %s %s %s" % (world_cfg_term(sources[sl["src"]], sl["cs"]),
                                                     fq.lst([lop for _, lop in so["prims"]]), world_obs_term(so["obs"])))
            seq = [(lop, ob) for (_, lop), ob in zip(so["prims"], so["obs"])]
            metas.append((idx, dict(world_solo=(widx, k), diag=world_diagnose(sources[sl["src"]], sl["cs"], seq)[:2])))
            solo_cases.append(idx)
            idx += 1
        metas.append((widx, dict(spec, solo_cases=solo_cases, kinds=kinds,
                                 diag=[dict(stream=d[0][:4], buffer=d[1][:3], foreign=d[2]) for d in diag],
                                 trace=[(k, lop, None if ob is None else [(q, r[:8]) for q, r in ob[:6]])
                                        for (k, lop), ob in zip(w["prims"], w["obs"])][:40])))
        ctx.sample(dict(spec, delivered=[(k, lop, None if ob is None else [r[:6] for _, r in ob[:4]])
                                         for (k, lop), ob in zip(w["prims"], w["obs"])][:16]), limit=4)
    ctx.log("worlds of readers: %d worlds, %d cases (interleaved + every reader alone) in %.1fs"
            % (nworlds, idx - first, __import__("time").time() - t_start))
    return idx


def world_verdict(ctx, i, c, meta, bycase):
    """bits: 1 rows delivered = product model, 2 row groups requested = product model, 4 the stream of every reader satisfies the
    statement (own records, once, in order, chunks of 1..cs), 8 buffer bound.  The same bits for every reader driven alone."""
    solo = [None if j is None else (bycase.get(j) or 0) for j in meta["solo_cases"]]
    kinds, diag = meta["kinds"], meta["diag"]
    for bit, name, key in ((4, "stream", "stream"), (8, "buffer", "buffer")):
        alone = [k for k, sc in enumerate(solo) if sc is not None and sc & bit]
        for k in alone:
            ctx.fail("c18-reader-%s-wrong-alone:%s" % (name, kinds[k]), "a %s reader (chunk size %d) driven alone through the operations "
                     "addressed to it in the interleaving does not deliver the records of its source once, in order, in bounded chunks "
                     "(code %d)" % (kinds[k], meta["readers"][k]["chunksize"], solo[k]), meta, case=i)
        if c & bit and not alone:
            bad = [k for k, d in enumerate(diag) if d[key]] or list(range(len(kinds)))
            k = bad[0]
            foreign = sum(d["foreign"] for d in diag)
            ctx.fail("c18-reader-%s-depends-on-other-readers:%s" % (name, kinds[k]),
                     "%d readers alive at the same time (%s), operations interleaved (%s): reader %d (%s, %d records, chunk size %d) %s; "
                     "%d delivered records belong to ANOTHER source; every reader driven alone through the same operations is correct"
                     % (len(kinds), ", ".join(kinds), meta["style"], k, kinds[k], meta["sources"][meta["readers"][k]["source"]]["n"],
                        meta["readers"][k]["chunksize"], "; ".join(diag[k][key][:3]) or "violates the statement (code %d)" % c, foreign),
                     meta, case=i)
    if c & 3 and not c & 12:
        ctx.disagree("Cases_C18:world", i, dict(code=c, solo=solo, meta=meta))
    for k, sc in enumerate(solo):
        if sc is not None and sc & 3 and not sc & 12:
            ctx.disagree("Cases_C18:world-solo", meta["solo_cases"][k], dict(code=sc, reader=k, meta=meta))


def run(ctx):
    import yaw.catalog.readers as readers
    rng = ctx.rng
    terms, metas = [], []
    combos = []
    for cs in [1, 2, 3, 4, 7, 16]:
        for n in sorted({1, max(1, cs - 1), cs, cs + 1, 2 * cs, 2 * cs + 1, 3 * cs - 1 if cs > 1 else 3, 5 * cs + 2}):
            combos.append((n, cs))
    reps = ctx.n(1, 4)
    if not ctx.quick():
        grid = [(n, cs) for n in range(1, 61) for cs in range(1, 21)]
        rng.shuffle(grid)
        combos = combos + grid[:200]
    idx = 0
    impl.set_threads(1)
    modes3 = ["create", "centers", "name"]
    plan = [dict(n=n, cs=cs, workers=0) for (n, cs) in combos for _ in range(reps)]
    plan += [dict(n=n, cs=cs, workers=w) for (n, cs, w) in pool_combos(ctx, rng) for _ in range(ctx.n(1, 2))]
    plan += typed_plan(ctx, rng)
    default_cs = int(readers.CHUNKSIZE)
    for k, ent in enumerate(plan):
        n, cs, workers = ent["n"], ent["cs"], ent["workers"]
        cst, scale = ent.get("cst", "int"), ent.get("scale", 1)
        probe, pnum = ent.get("probe", ("omitted", None)), ent.get("pnum", ("int", 2))
        if workers:
            # on the pool every source and patch mode comes round (generated centres = a probing and a writing pass)
            src = ["df", "hdf5"][(k // 3) % 2] if rng.random() < 0.8 else rng.choice(["df", "hdf5"])
            mode = modes3[k % 3] if n >= 4 else modes3[1 + k % 2]
            via = "env" if rng.random() < 0.25 else "arg"
            order = rng.choice(["random", "reverse", "identity"])
        else:
            src = rng.choice(["df", "df", "hdf5", "fits"])
            mode = rng.choice(["centers", "name", "create"]) if n >= 4 else rng.choice(["centers", "name"])
            via, order = "arg", None
        src, mode = ent.get("src", src), ent.get("mode", mode)
        pseed = rng.randrange(10 ** 6)
        idxs = np.arange(n)
        ra = 10.0 + (idxs * 37 % 101) / 4.0
        dec = -5.0 + (idxs * 53 % 89) / 8.0
        cols = {"ra": ra, "dec": dec, "pid": idxs % 2}
        kwargs = dict(ra_name="ra", dec_name="dec", max_workers=worker_arg(workers, via), **cs_kwargs(cst, cs))
        families = (cs_family(cst), "int" if probe[0] in ("int", "omitted") else probe[0],
                    "int" if pnum[0] == "int" else pnum[0])
        passes_expected = 1
        if mode == "centers":
            kwargs["patch_centers"] = impl.AngularCoordinates(np.deg2rad([[15.0, 0.0], [30.0, 3.0]]))
        elif mode == "name":
            kwargs["patch_name"] = "pid"
        else:
            kwargs["patch_num"] = pnum[1]
            if probe[0] != "omitted":
                kwargs["probe_size"] = probe[1]
            passes_expected = 2
        eff_cs = cs_effective(cst, cs, default_cs)  # DataReader.__init__ overwrites the min(n, cs) set by the file readers
        log = CappedLog()
        log.cap = request_cap(n, eff_cs, passes_expected)
        cache = impl.fresh_dir(ctx, "cat")
        err = None
        pc = pool_ctx(workers, order, pseed)
        try:
            with pc as mp:
                if src == "df":
                    impl.Catalog.from_dataframe(cache, ProxyFrame(impl.make_df(cols), log), **kwargs)
                elif src == "hdf5":
                    import h5py
                    path = os.path.join(ctx.workdir, "src.hdf5")
                    with h5py.File(path, "w") as f:
                        for kk, v in cols.items():
                            f.create_dataset(kk, data=v)
                    orig = readers.h5py

                    class _H5:
                        @staticmethod
                        def File(p, mode="r"):
                            return ProxyH5(orig.File(p, mode=mode), log, "ra")
                    readers.h5py = _H5
                    try:
                        impl.Catalog.from_file(cache, path, **kwargs)
                    finally:
                        readers.h5py = orig
                        os.unlink(path)
                else:
                    from astropy.io import fits as afits
                    path = os.path.join(ctx.workdir, "src.fits")
                    afits.BinTableHDU.from_columns([afits.Column(name="ra", format="D", array=ra),
                                                    afits.Column(name="dec", format="D", array=dec),
                                                    afits.Column(name="pid", format="K", array=cols["pid"])]).writeto(path, overwrite=True)
                    orig = readers.fits

                    class _Fits:
                        @staticmethod
                        def open(p, *a, **kw):
                            return ProxyHDUList(orig.open(p, *a, **kw), log, "ra")
                    readers.fits = _Fits
                    try:
                        impl.Catalog.from_file(cache, path, **kwargs)
                    finally:
                        readers.fits = orig
                        os.unlink(path)
        except Exception as e:
            err = e
        finally:
            impl.set_threads(1)
        shutil.rmtree(cache, ignore_errors=True)
        eff_w = (mp.pool_sizes[0] or 1) if mp.pool_sizes else 1   # workers the implementation actually used
        tasks = [list(t) for t in mp.map_calls]
        spec = dict(n=n, cs=cs, src=src, mode=mode, workers=workers, via=via, order=order, pool_seed=pseed)
        if "cst" in ent:
            spec.update(cs_type=cst, probe_size=(probe[0], repr(probe[1])), patch_num=(pnum[0], repr(pnum[1])), families=families,
                        beyond_range=beyond_range(cst, cs, n), scale=scale)
            ctx.bump("param-type:chunksize=%s" % cst)
            ctx.bump("param-family:%s%s" % (families[0], "/beyond-range" if spec["beyond_range"] else ""))
            if mode == "create":
                ctx.bump("param-type:probe_size=%s,patch_num=%s" % (probe[0], pnum[0]))
        ctx.count(key=(n, cs, src, mode, workers, via, cst, probe[0], repr(probe[1]), pnum[0]), nontrivial=n > eff_cs,
                  kind="%s/%s%s%s" % (src, mode, "/pool%d" % workers if workers else "",
                                      "/typed:%s" % families[0] if "cst" in ent else ""))
        if workers:
            ctx.bump("pool:cs_mod_w_%s,n_%s_cs" % ("zero" if eff_cs % workers == 0 else "nonzero", "gt" if n > eff_cs else "le"))
            if eff_w != workers:
                ctx.bump("pool:workers_limited_by_environment")
        if err is not None:
            # empty centre etc. are C09/C12 matters; here only valid inputs are generated
            if mode == "centers" and isinstance(err, (ValueError, RuntimeError)) and is_empty_patch_refusal(err, mp):
                ctx.bump("skipped_empty_patch")
                continue
            rows = [(l[1], l[2]) for l in log if l[0] == "rows" and l[1] is not None and l[2] is not None]
            if is_type_refusal(err, families, len(log)):
                ctx.bump("refused:%s:chunksize=%s,probe_size=%s,patch_num=%s:%s" % (src, cst, probe[0], pnum[0], type(err).__name__))
                continue
            try:
                rows = [(int(a), int(b)) for a, b in rows]
            except (TypeError, ValueError, OverflowError):
                pass
            if isinstance(err, RunawayRequests):
                bad = first_bad_request(rows, n, eff_cs)
                if bad is None:      # the cap of the harness, not a request, ended the run: nothing is shown
                    ctx.disagree("c18-request-cap", idx, dict(spec, log=rows[:20]))
                else:
                    ctx.fail(signature("c18-pass-never-ends", spec),
                             "%d records, chunk size %s(%d): after %d requests the pass had not ended; request #%d is rows %s: "
                             "not the consecutive continuation of at most %d records; first requests %s"
                             % (n, cst, cs, len(rows), bad[0], bad[1], eff_cs, rows[:8]), dict(spec, log=rows[:20]), case=idx)
            else:
                ctx.fail(signature("c18-raises:%s" % type(err).__name__, spec), "valid creation raised %r (writer process: %s)"
                         % (err, list(mp.process_exits)), spec, case=idx)
            idx += 1
            continue
        passes = split_passes(log, n)
        if passes is None:
            odd = [l for l in log if l[0] != "rows"]
            if any(l[0] == "column" for l in odd):
                ctx.fail(signature("c18-whole-input", spec), "the source was asked for a whole column at once: %s" % odd[:3],
                         dict(spec, log=log[:20]), case=idx)
            else:
                # an access path whose extent the logging proxy cannot see: the tie is broken, nothing is shown
                ctx.disagree("c18-access-path-not-observable", idx, dict(spec, log=log[:20]))
            idx += 1
            continue
        raw_ok = all((b - a) <= eff_cs for p in passes for a, b in p)
        clipped = [[(int(a), int(min(b, n))) for a, b in p] for p in passes]
        # lengths beyond unary numbers: n, cs and (on agreement) every request are multiples of the scale
        divisible = all(a % scale == 0 and b % scale == 0 for p in clipped for a, b in p)
        logterm = fq.lst([fq.lst([fq.pair(fq.nat(a // scale), fq.nat(b // scale)) for a, b in p]) for p in clipped])
        cs_t = cs_term(cst, cs // scale, n // scale, default_cs)
        shown = [(int(a), int(b)) for p in passes for a, b in p][:40]
        if mp.pool_sizes:
            terms.append("(c18_pool_case %s %s %s %s %s %s + (if %s then 0 else 32))" % (
                fq.nat(eff_w), fq.nat(n), cs_t, fq.nat(passes_expected), logterm,
                fq.lst([fq.nlist(t) for t in tasks]), fq.b(raw_ok)))
            metas.append((idx, dict(spec, pool=True, effective_workers=eff_w, log=shown, tasks=tasks[:40])))
        else:
            terms.append("(Nat.lor (c18_case %s %s %s %s) (if %s then 0 else 1) + (if %s then 0 else 8))" % (
                fq.nat(n // scale), cs_t, fq.nat(passes_expected), logterm, fq.b(divisible), fq.b(raw_ok)))
            metas.append((idx, dict(spec, log=shown)))
        ctx.sample(dict(spec, requests=clipped if n < 100 else clipped[0][:4], tasks=tasks[:6]), limit=3)
        idx += 1
    # get_probe bookkeeping: rows returned for a probe of size k = the linspace indices
    for (n, cs, k) in [(10, 3, 4), (17, 5, 17), (9, 2, 3), (20, 7, 6), (5, 5, 2), (12, 4, 1)][: ctx.n(4, 6)]:
        log = []
        cols = {"ra": np.arange(n, dtype="f8"), "dec": np.zeros(n)}
        rd = readers.DataFrameReader(ProxyFrame(impl.make_df(cols), log), ra_name="ra", dec_name="dec",
                                     chunksize=cs, degrees=False)
        probe = rd.get_probe(k)
        got = sorted(int(round(x)) for x in probe["ra"])
        want = sorted(np.linspace(0, n - 1, k).astype(int).tolist())
        passes = split_passes(log, n)
        ctx.count(key=("probe", n, cs, k), kind="probe")
        lens = [min(b, n) - a for a, b in passes[0]] if passes else []
        terms.append("code [list_eqb Z.eqb (probe_run %s 0%%Z %s) %s; c18_agree %s %s %s]" % (
            fq.zlist(lens), fq.zlist(want), fq.zlist(got), fq.nat(n), fq.nat(cs),
            fq.lst([fq.pair(fq.nat(a), fq.nat(min(b, n))) for a, b in (passes[0] if passes else [])])))
        metas.append((idx, dict(probe=(n, cs, k), got=got, want=want)))
        if got != want:
            ctx.fail("c18-probe", "get_probe returned rows %s instead of %s" % (got, want), dict(n=n, cs=cs, k=k), case=idx)
        idx += 1
    # ---- Parquet: row groups are the unit of access; the reader must request every row group once, in
    #      order, only as far as needed for the next chunk, and deliver exactly the chunks of the model
    #      (Model/Chunks.v: parquet_chunks = chunks of the concatenated row groups, C02_parquet_chunks)
    import pyarrow as pa
    layouts = [(10, 4, 3), (12, 5, 12), (9, 2, 1), (20, 7, 6), (7, 3, 4), (11, 4, 4), (13, 5, 2), (1000, 250, 300), (6, 8, 4)]
    # files written incrementally: row groups of unequal sizes (first group larger / smaller than later ones)
    uneven = [(30, [30, 30, 10, 10, 10, 10]), (4, [5, 1, 1, 1, 3, 2]), (6, [2, 9, 1, 7]), (3, [8, 1, 1, 1, 1])]
    jobs = [(n, cs, rg, None) for (n, cs, rg) in layouts[: ctx.n(6, 9)]]
    jobs += [(sum(g), cs, None, g) for (cs, g) in uneven[: ctx.n(3, 4)]]
    for _ in range(ctx.n(8, 80)):
        if rng.random() < 0.5:
            jobs.append((rng.randrange(5, 60), rng.randrange(2, 12), rng.randrange(1, 15), None))
        else:
            g = [rng.randrange(1, 12) for _ in range(rng.randrange(2, 8))]
            jobs.append((sum(g), rng.randrange(2, 14), None, g))
    jobs = [j + ("int",) for j in jobs]
    # the chunk size in every type (the row-group layouts as above); 8-bit types also beyond their range
    for _ in range(ctx.n(1, 4)):
        for kind in ["int64"] + rng.sample([k for k in NP_INT_KINDS if k != "int64"], 3) + [rng.choice(FLOAT_KINDS)]:
            if rng.random() < 0.5:
                jobs.append((rng.randrange(9, 60), rng.randrange(2, 9), rng.randrange(1, 15), None, kind))
            else:
                g = [rng.randrange(1, 12) for _ in range(rng.randrange(3, 8))]
                jobs.append((sum(g), rng.randrange(2, 9), None, g, kind))
        jobs.append((rng.randrange(3, 9), 1, rng.randrange(1, 4), None, rng.choice(BOOL_KINDS)))
        jobs.append((rng.randrange(5, 40), 0, rng.randrange(1, 15), None, rng.choice(DEFAULT_KINDS)))
        kind = rng.choice(["int8", "uint8"])
        jobs.append((rng.choice([300, CS_KINDS[kind][2] + 2, 2 * CS_KINDS[kind][2] + 5]), rng.choice([100, 37, 60, 120]),
                     rng.choice([64, 50, 97, 300]), None, kind))
    for (n, cs, rg, gsizes, cst) in jobs:
        path = os.path.join(ctx.workdir, "src.pqt")
        table = pa.table({"ra": np.arange(n, dtype="f8"), "dec": np.zeros(n)})
        if gsizes is not None:
            rg = 0
        groups = write_parquet(path, table, rg, gsizes)
        eff_cs = cs_effective(cst, cs, default_cs)
        families = (cs_family(cst),)
        pspec = dict(parquet=(n, cs, rg), groups=groups, cs_type=cst, families=families, beyond_range=beyond_range(cst, cs, n))
        reqs = CappedLog()
        reqs.cap = request_cap(n, eff_cs, 1) + len(groups)
        perr = None
        chunks = []
        marks = []           # valid row-group requests made up to the delivery of each chunk
        try:
            with parquet_logged(readers, reqs):
                with readers.ParquetReader(path, ra_name="ra", dec_name="dec", degrees=False, **cs_kwargs(cst, cs)) as rd:
                    for c in rd:
                        chunks.append([int(round(x)) for x in c["ra"]])
                        marks.append(len([r for r in reqs if r < len(groups)]))
                        if len(chunks) > reqs.cap:
                            raise RunawayRequests("more than %d chunks" % reqs.cap)
        except Exception as e:  # noqa: BLE001 - reading a valid file must not raise
            perr = e
        finally:
            os.unlink(path)
        if cst != "int":
            ctx.bump("param-type:chunksize=%s" % cst)
            ctx.bump("param-family:%s%s" % (families[0], "/beyond-range" if pspec["beyond_range"] else ""))
        if perr is not None:
            ctx.count(key=("parquet", n, cs, rg, cst), kind="parquet/raised")
            if not chunks and is_type_refusal(perr, families, len(reqs), min(len(groups), eff_cs) + 1):
                ctx.bump("refused:parquet:chunksize=%s:%s" % (cst, type(perr).__name__))
                continue
            ctx.fail(signature("c18-pass-never-ends" if isinstance(perr, RunawayRequests) else "c18-raises:%s" % type(perr).__name__, pspec),
                     "reading a valid Parquet file (%d rows, row groups of %d, chunk size %s(%d)) raised %r "
                     "after delivering chunks of %s rows" % (n, rg, cst, cs, perr, [len(c) for c in chunks][:12]),
                     dict(pspec, requests=list(reqs)[:40]), case=idx)
            idx += 1
            continue
        lens = [len(c) for c in chunks]
        flat = [x for c in chunks for x in c]
        ok_reqs = [r for r in reqs if r < len(groups)]           # the reader probes one index past the end
        ctx.count(key=("parquet", n, cs, rg, cst), nontrivial=len(groups) > 1 and n > eff_cs,
                  kind="parquet" if cst == "int" else "parquet/typed:%s" % families[0])
        loads = [b - a for a, b in zip([0] + marks[:-1], marks)]
        cs_t = cs_term(cst, cs, n, default_cs)
        # flags: chunk lengths = model; every row once in order; every row group requested once in order;
        # row groups requested per delivered chunk = model (no read-ahead) and the model's buffer bound;
        # chunks of 1..cs rows covering the file
        terms.append("code [c02_parquet_agree %s %s %s; %s; %s; Nat.eqb (c18_parquet_loads_case %s %s %s) 0; c18_lens_bounded %s %s %s]" % (
            cs_t, fq.nlist(groups), fq.nlist(lens),
            fq.b(flat == list(range(n))), fq.b(ok_reqs == list(range(len(groups)))),
            cs_t, fq.nlist(groups), fq.nlist(loads), cs_t, fq.nlist(groups), fq.nlist(lens)))
        metas.append((idx, dict(pspec, eff_cs=eff_cs, chunk_lens=lens, requests=list(reqs), loads_per_chunk=loads)))
        idx += 1
    # ---- Parquet through Catalog.from_file on the pool (2-4 workers): the chunks the reader delivers are what
    #      Pool.map receives (np.array_split of the chunk); same model as above for chunk lengths, row-group
    #      requests per delivered chunk and buffer bound, for every worker count
    pjobs = []
    for w in (2, 3, 4):
        for _ in range(ctx.n(4, 20)):
            cs = rng.choice([c for c in range(2, 14) if c % w])
            if rng.random() < 0.5:
                n_, rg_, g_ = rng.randrange(cs + 1, 6 * cs + 3), rng.choice([1, max(1, cs - 1), cs, cs + 1, 2 * cs + 1, rng.randrange(1, 15)]), None
            else:
                g_ = [rng.randrange(1, 12) for _ in range(rng.randrange(2, 8))]
                n_, rg_ = sum(g_), None
            pjobs.append((n_, cs, rg_, g_, w, rng.choice(["int", "int"] + NP_INT_KINDS)))
        pjobs.append((3 * 2 * w + 1, 2 * w, w + 1, None, w, "int"))          # control: w divides cs
        pjobs.append((rng.randrange(5, 30), 0, rng.randrange(1, 9), None, w, rng.choice(DEFAULT_KINDS)))
        kind = rng.choice(["int8", "uint8"])
        pjobs.append((rng.choice([260, 300]), rng.choice([c for c in (50, 63, 99, 100) if c % w]), rng.choice([40, 64, 97]), None, w, kind))
    for k, (n, cs, rg, gsizes, workers, cst) in enumerate(pjobs):
        mode = modes3[k % 3] if n >= 4 else modes3[1 + k % 2]
        via = "env" if rng.random() < 0.25 else "arg"
        order, pseed = rng.choice(["random", "reverse", "identity"]), rng.randrange(10 ** 6)
        ra = np.deg2rad(np.asarray([10.0 + (i * 37 % 101) / 4.0 + (i // 101) / 64.0 for i in range(n)]))
        dec = np.deg2rad(np.asarray([-5.0 + (i * 53 % 89) / 8.0 for i in range(n)]))
        table = pa.table({"ra": ra, "dec": dec, "pid": np.asarray([i % 2 for i in range(n)])})
        path = os.path.join(ctx.workdir, "src.pqt")
        if gsizes is not None:
            rg = 0
        groups = write_parquet(path, table, rg, gsizes)
        kwargs = dict(ra_name="ra", dec_name="dec", degrees=False, max_workers=worker_arg(workers, via), **cs_kwargs(cst, cs))
        passes_expected = 1
        if mode == "centers":
            kwargs["patch_centers"] = impl.AngularCoordinates(np.deg2rad([[15.0, 0.0], [30.0, 3.0]]))
        elif mode == "name":
            kwargs["patch_name"] = "pid"
        else:
            kwargs["patch_num"] = 2
            passes_expected = 2
        eff_cs = cs_effective(cst, cs, default_cs)
        families = (cs_family(cst),)
        reqs, marks, seen = CappedLog(), [], []
        reqs.cap = (request_cap(n, eff_cs, 1) + len(groups)) * passes_expected
        cache = impl.fresh_dir(ctx, "cat")
        perr = None
        pc = pool_ctx(workers, order, pseed)
        try:
            with pc as mp, parquet_logged(readers, reqs):
                mp.on_map.append(lambda items: (marks.append(len(reqs)), seen.extend(float(x) for it in items for x in it["ra"])))
                impl.Catalog.from_file(cache, path, **kwargs)
        except Exception as e:  # noqa: BLE001
            perr = e
        finally:
            impl.set_threads(1)
            os.unlink(path)
        shutil.rmtree(cache, ignore_errors=True)
        eff_w = (mp.pool_sizes[0] or 1) if mp.pool_sizes else 1
        tasks = [list(t) for t in mp.map_calls]
        spec = dict(parquet_pool=(n, cs, rg), groups=groups, mode=mode, workers=workers, via=via, order=order, pool_seed=pseed,
                    cs_type=cst, families=families, beyond_range=beyond_range(cst, cs, n), eff_cs=eff_cs)
        ctx.count(key=("parquet-pool", n, cs, tuple(groups), mode, workers, via, cst), nontrivial=len(groups) > 1 and n > eff_cs,
                  kind="parquet/%s/pool%d%s" % (mode, workers, "" if cst == "int" else "/typed:%s" % families[0]))
        ctx.bump("pool:cs_mod_w_%s,n_%s_cs" % ("zero" if eff_cs % workers == 0 else "nonzero", "gt" if n > eff_cs else "le"))
        if cst != "int":
            ctx.bump("param-type:chunksize=%s" % cst)
            ctx.bump("param-family:%s%s" % (families[0], "/beyond-range" if spec["beyond_range"] else ""))
        if perr is not None:
            if mode == "centers" and isinstance(perr, (ValueError, RuntimeError)) and is_empty_patch_refusal(perr, mp):
                ctx.bump("skipped_empty_patch")
                continue
            if not marks and is_type_refusal(perr, families, len(reqs), min(len(groups), eff_cs) + 1):
                ctx.bump("refused:parquet:chunksize=%s:%s" % (cst, type(perr).__name__))
                continue
            ctx.fail(signature("c18-pass-never-ends" if isinstance(perr, RunawayRequests) else "c18-raises:%s" % type(perr).__name__, spec),
                     "creating a catalog from a valid Parquet file (chunk size %s(%d)) raised %r (writer process: %s)"
                     % (cst, cs, perr, list(mp.process_exits)), dict(spec, requests=list(reqs)[:40]), case=idx)
            idx += 1
            continue
        if not mp.pool_sizes:
            ctx.bump("pool:workers_limited_by_environment")     # sequential after all: chunks not observable here
            continue
        # passes over the file: a request of row group 0 starts one; the reader may probe one index past the end
        starts = [i for i, r in enumerate(reqs) if r == 0]
        pass_reqs = [[r for r in reqs[a:b] if r < len(groups)] for a, b in zip(starts, starts[1:] + [len(reqs)])]
        reqs_ok = bool(starts) and starts[0] == 0 and all(p == list(range(len(groups))) for p in pass_reqs)
        last = starts[-1] if starts else 0
        cum = [len([r for r in reqs[last:m] if r < len(groups)]) for m in marks]
        loads = [b - a for a, b in zip([0] + cum[:-1], cum)]
        lens = [sum(t) for t in tasks]
        rows_ok = seen == [float(x) for x in ra]
        cs_t = cs_term(cst, cs, n, default_cs)
        # flags: chunk lengths = model; every row handed over once, in order; every row group once per pass, in order;
        # row groups requested per delivered chunk = model (+ buffer bound); chunks of 1..cs rows covering the file;
        # tasks = np.array_split of the chunk; number of passes
        terms.append("code [c02_parquet_agree %s %s %s; %s; %s; Nat.eqb (c18_parquet_loads_case %s %s %s) 0; "
                     "c18_lens_bounded %s %s %s; c18_tasks_agree %s %s %s; %s]" % (
                         cs_t, fq.nlist(groups), fq.nlist(lens), fq.b(rows_ok), fq.b(reqs_ok),
                         cs_t, fq.nlist(groups), fq.nlist(loads),
                         cs_t, fq.nlist(groups), fq.nlist(lens),
                         fq.nat(eff_w), fq.nlist(lens), fq.lst([fq.nlist(t) for t in tasks]),
                         fq.b(len(pass_reqs) == passes_expected)))
        metas.append((idx, dict(spec, effective_workers=eff_w, chunk_lens=lens, requests=list(reqs), loads_per_chunk=loads,
                                tasks=tasks[:40])))
        idx += 1
    # ---- the random generator as a source, on the pool: sizes of the generator calls of the writing pass
    #      (Model/Chunks.v:random_sizes = lengths of the model's slices, the same for every worker count)
    from yaw.randoms import BoxRandoms

    class LoggedBox(BoxRandoms):
        """BoxRandoms recording the size of every call; behaviour unchanged"""
        sizes = None

        def __call__(self, probe_size):
            self.sizes.append(int(probe_size))
            return super().__call__(probe_size)
    rjobs = []
    for k in range(ctx.n(9, 45)):
        workers = (2, 3, 4)[k % 3]
        cs = rng.choice([c for c in (1, 2, 3, 5, 6, 7, 9, 10, 13) if c % workers]) if k % 5 else 2 * workers
        n = max(8, rng.choice([cs + 1, 2 * cs + 1, 3 * cs, 5 * cs + 2, rng.randrange(8, 60)]))
        rjobs.append(dict(n=n, cs=cs, workers=workers))
    # the chunk size / probe size in every type, sequentially and on the pool, with given and with generated centres
    for rep in range(ctx.n(1, 4)):
        kinds = ["int64"] + rng.sample([k_ for k_ in NP_INT_KINDS if k_ != "int64"], 4) + [rng.choice(FLOAT_KINDS), "int"]
        for j, kind in enumerate(kinds):
            workers = (0, 2, 3, 0, 4, 0, 0)[(j + rep) % 7]
            cs = rng.choice([c for c in (2, 3, 5, 7, 9) if c % (workers or 1) or not workers])
            n = max(8, rng.choice([2 * cs + 1, 3 * cs, 5 * cs + 2]))
            rjobs.append(dict(n=n, cs=cs, workers=workers, cst=kind))
        rjobs.append(dict(n=rng.randrange(8, 14), cs=1, workers=rng.choice([0, 2]), cst=rng.choice(BOOL_KINDS)))
        rjobs.append(dict(n=rng.randrange(8, 40), cs=0, workers=rng.choice([0, 3]), cst=rng.choice(DEFAULT_KINDS)))
        kind = rng.choice(["int8", "uint8"])
        rjobs.append(dict(n=rng.choice([300, CS_KINDS[kind][2] + 2, 2 * CS_KINDS[kind][2] + 5]), cs=rng.choice([100, 37, 63, 120]),
                          workers=rng.choice([0, 0, 2]), cst=kind))
        kind = rng.choice(["int16", "uint16"])
        cs, n = rng.choice([(30000, 70000), (20000, 66000)] if kind == "uint16" else [(15000, 40000), (10000, 33000)])
        rjobs.append(dict(n=n, cs=cs, workers=0, cst=kind, scale=SCALE))
        for j in range(ctx.n(2, 4)):     # generated centres: one call for the probe, then the writing pass
            cs = rng.choice([5, 7, 9])
            n = rng.randrange(30, 50)
            probe = PROBE_KINDS[(rep * 5 + j * 3 + rng.randrange(3)) % len(PROBE_KINDS)]
            rjobs.append(dict(n=n, cs=cs, workers=(0, 2)[j % 2], cst=rng.choice(["int", "int64", "uint16", "int32"]), mode="create",
                              probe=probe))
    for ent in rjobs:
        n, cs, workers = ent["n"], ent["cs"], ent["workers"]
        cst, scale, mode, probe = ent.get("cst", "int"), ent.get("scale", 1), ent.get("mode", "centers"), ent.get("probe", ("omitted", None))
        via = "env" if rng.random() < 0.25 else "arg"
        order, pseed = rng.choice(["random", "reverse", "identity"]), rng.randrange(10 ** 6)
        eff_cs = cs_effective(cst, cs, default_cs)
        families = (cs_family(cst), "int" if probe[0] in ("int", "omitted") else probe[0])
        gen = LoggedBox(10.0, 35.0, -5.0, 6.0, seed=pseed)
        gen.sizes = sizes = CappedLog()
        sizes.cap = request_cap(n, eff_cs, 1) + 1
        cache = impl.fresh_dir(ctx, "cat")
        rerr = None
        mw = worker_arg(workers, via)
        pc = pool_ctx(workers, order, pseed)
        kwargs = dict(max_workers=mw, **cs_kwargs(cst, cs))
        if mode == "create":
            kwargs["patch_num"] = 2
            if probe[0] != "omitted":
                kwargs["probe_size"] = probe[1]
        else:
            kwargs["patch_centers"] = impl.AngularCoordinates(np.deg2rad([[15.0, 0.0], [30.0, 3.0]]))
        try:
            with pc as mp:
                impl.Catalog.from_random(cache, gen, n, **kwargs)
        except Exception as e_:  # noqa: BLE001
            rerr = e_
        finally:
            impl.set_threads(1)
        shutil.rmtree(cache, ignore_errors=True)
        eff_w = (mp.pool_sizes[0] or 1) if mp.pool_sizes else 1
        tasks = [list(t) for t in mp.map_calls]
        spec = dict(random_pool=(n, cs), workers=workers, via=via, order=order, pool_seed=pseed, mode=mode, cs_type=cst,
                    probe_size=(probe[0], repr(probe[1])), families=families, beyond_range=beyond_range(cst, cs, n), scale=scale,
                    eff_cs=eff_cs)
        ctx.count(key=("random-pool", n, cs, workers, via, cst, mode, probe[0], repr(probe[1])), nontrivial=n > eff_cs,
                  kind="random/%s%s%s" % (mode, "/pool%d" % workers if workers else "", "" if "cst" not in ent else "/typed:%s" % families[0]))
        if workers:
            ctx.bump("pool:cs_mod_w_%s,n_%s_cs" % ("zero" if eff_cs % workers == 0 else "nonzero", "gt" if n > eff_cs else "le"))
        if "cst" in ent:
            ctx.bump("param-type:chunksize=%s" % cst)
            ctx.bump("param-family:%s%s" % (families[0], "/beyond-range" if spec["beyond_range"] else ""))
            if mode == "create":
                ctx.bump("param-type:probe_size=%s,patch_num=int" % probe[0])
        if rerr is not None:
            if isinstance(rerr, (ValueError, RuntimeError)) and is_empty_patch_refusal(rerr, mp):
                ctx.bump("skipped_empty_patch")
                continue
            if mode == "create" and isinstance(rerr, ValueError) and "cannot exceed number of records" in str(rerr):
                ctx.bump("refused:random:probe_larger_than_sample")       # a probe size below 10 per patch means 100000 * sqrt(patches)
                continue
            if is_type_refusal(rerr, families, len(sizes), 2 if mode == "create" else 1):
                ctx.bump("refused:random:chunksize=%s,probe_size=%s:%s" % (cst, probe[0], type(rerr).__name__))
                continue
            ctx.fail(signature("c18-pass-never-ends" if isinstance(rerr, RunawayRequests) else "c18-raises:%s" % type(rerr).__name__, spec),
                     "creating a catalog of %d points from a random generator with chunk size %s(%d) raised %r (writer process: %s); "
                     "sizes of the generator calls: %s" % (n, cst, cs, rerr, list(mp.process_exits), list(sizes)[:12]),
                     dict(spec, call_sizes=list(sizes)[:40]), case=idx)
            idx += 1
            continue
        calls = [int(x) for x in sizes]
        probe_ok = True
        if mode == "create":       # the probe is one call of the generator (not a statement of C18), then the writing pass
            probe_ok = bool(calls) and (probe[0] == "omitted" or int(probe[1]) < 20 or calls[0] == int(probe[1]))
            calls = calls[1:]
        divisible = all(x % scale == 0 for x in calls)
        scaled = [x // scale for x in calls]
        cs_t = cs_term(cst, cs // scale, n // scale, default_cs)
        # flags: call sizes = model; calls of 1..cs records adding up to n; tasks = np.array_split of each chunk; the probe
        terms.append("code [c16_sizes_agree %s %s %s && %s; c18_lens_bounded %s [%s] %s; %s; %s]" % (
            fq.nat(n // scale), cs_t, fq.nlist(scaled), fq.b(divisible), cs_t, fq.nat(n // scale), fq.nlist(scaled),
            ("c18_tasks_agree %s %s %s" % (fq.nat(eff_w), fq.nlist(calls), fq.lst([fq.nlist(t) for t in tasks])))
            if mp.pool_sizes and scale == 1 else "true", fq.b(probe_ok)))
        metas.append((idx, dict(spec, effective_workers=eff_w, call_sizes=[int(x) for x in sizes][:60], tasks=tasks[:40])))
        idx += 1
    idx = history_cases(ctx, readers, terms, metas, idx)
    idx = world_cases(ctx, readers, terms, metas, idx)
    from props import c18_faults
    idx = c18_faults.run(ctx, readers, terms, metas, idx)
    metas.sort(key=lambda m: m[0])       # terms are appended in the order of their case numbers
    codes = ctx.shards("Cases_C18", HEADER, terms, shard=100)
    bycase = {i: c for (i, _), c in zip(metas, codes)}
    for (i, meta), c in zip(metas, codes):
        if meta.get("world"):
            world_verdict(ctx, i, c or 0, meta, bycase)
            continue
        if meta.get("fault"):
            c18_faults.verdict(ctx, i, c or 0, meta)
            continue
        if not c or "world_solo" in meta:
            continue
        if meta.get("history"):
            history_verdict(ctx, i, c, meta)
            continue
        if "random_pool" in meta:
            n_, cs_ = meta["random_pool"][0], meta["eff_cs"]
            calls_ = meta["call_sizes"][1:] if meta["mode"] == "create" else meta["call_sizes"]
            # lengths divided by the scale: the verdict of the model is confirmed on the lengths as logged
            confirmed = meta["scale"] == 1 or not (all(1 <= x <= cs_ for x in calls_) and sum(calls_) == n_)
            if c & 2 and confirmed:
                ctx.fail(signature("c18-requests", meta), "chunk size %s(%d): the generator was not asked for consecutive portions of 1..%d "
                         "records adding up to %d: %s" % (meta["cs_type"], meta["random_pool"][1], cs_, n_, calls_[:12]), meta, case=i)
            if c & 1 or c & 4 or c & 8 or (c & 2 and not confirmed):
                ctx.disagree("Cases_C18:random-pool", i, dict(code=c, meta=meta))
            continue
        if "parquet_pool" in meta:
            if c & 2 or c & 4 or c & 64:
                ctx.fail(signature("c18-requests", meta), "row groups are not requested once per pass in file order / rows not handed over "
                         "once in order (code %d)" % c, meta, case=i)
            if c & 16:
                ctx.fail(signature("c18-parquet-chunks", meta), "the reader delivered chunks of %s rows for a chunk size of %s(%d) (file of %d rows)"
                         % (meta["chunk_lens"][:12], meta["cs_type"], meta["parquet_pool"][1], meta["parquet_pool"][0]), meta, case=i)
            if (c & 8) and not (c & (2 | 4 | 16 | 64)):
                g, marks_ = meta["groups"], meta["loads_per_chunk"]
                n_, cs_ = sum(g), meta["eff_cs"]
                if bool(marks_) and marks_[0] == len(g) and n_ > cs_ + max(g):
                    ctx.fail(signature("c18-whole-input", meta), "all %d row groups (%d rows) were requested for the first chunk of %d rows"
                             % (len(g), n_, cs_), meta, case=i)
            if c & (1 | 8 | 32):
                ctx.disagree("Cases_C18:parquet-pool", i, dict(code=c, meta=meta))
            continue
        if "parquet" in meta:
            g, marks_ = meta["groups"], meta["loads_per_chunk"]
            n_, cs_ = sum(g), meta["eff_cs"]
            if c & 2 or c & 4:
                ctx.fail(signature("c18-requests", meta), "chunk size %s(%d): row groups are not requested once in file order / rows not "
                         "delivered once in order (code %d)" % (meta["cs_type"], meta["parquet"][1], c), meta, case=i)
            if c & 16:
                ctx.fail(signature("c18-parquet-chunks", meta), "the reader delivered chunks of %s rows for a chunk size of %s(%d) (file of %d rows)"
                         % (meta["chunk_lens"][:12], meta["cs_type"], meta["parquet"][1], n_), meta, case=i)
            if (c & 8) and not (c & (2 | 4 | 16)):
                # rows and request order are right, but the row groups were not requested exactly when the model
                # requests them: a failure of the property only if the whole file was buffered at once
                if bool(marks_) and marks_[0] == len(g) and n_ > cs_ + max(g):
                    ctx.fail(signature("c18-whole-input", meta), "chunk size %s(%d): all %d row groups (%d rows) were requested for the "
                             "first chunk of %d rows" % (meta["cs_type"], meta["parquet"][1], len(g), n_, cs_), meta, case=i)
            if c & (1 | 8):
                ctx.disagree("Cases_C18:parquet-loads", i, dict(code=c, meta=meta))
            continue
        if meta.get("pool"):
            # bits: 1 requests = model, 2 spec, 4 passes, 8 tasks = model, 16 requested = handed over, 32 raw slice length
            if c & 2 or c & 4 or c & 32:
                ctx.fail(signature("c18-requests", meta), "%s, %d records, chunk size %s(%d): the requests %s are not consecutive slices "
                         "of at most the chunk size covering the source once per pass, with %d workers (code %d)"
                         % (meta["src"], meta["n"], meta.get("cs_type", "int"), meta["cs"], meta["log"][:8], meta["effective_workers"], c),
                         meta, case=i)
            if c & 1 or c & 8 or c & 16:
                ctx.disagree("Cases_C18:pool", i, dict(code=c, meta=meta))
            continue
        # lengths divided by the scale (16-bit chunk sizes): the verdict of the model is confirmed on the requests as logged
        confirmed = meta.get("scale", 1) == 1 or first_bad_request(meta["log"], meta["n"], meta["cs"]) is not None
        if (c & 2 or c & 4 or c & 8) and confirmed:
            ctx.fail(signature("c18-requests", meta), "%s, %d records, chunk size %s(%d): the requests %s are not consecutive slices of at "
                     "most the chunk size covering the source once per pass (code %d)"
                     % (meta["src"], meta["n"], meta.get("cs_type", "int"), meta["cs"], meta["log"][:8], c), meta, case=i)
        if c & 1 or not confirmed:
            ctx.disagree("Cases_C18", i, dict(code=c, meta=meta))
