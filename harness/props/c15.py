"""C15 — configurations mean what their parameters say; modify equals create.

Tie: the real Configuration.create / .modify / == / to_dict / from_dict and
Scales.get_angle_radian are run over the parameter product (linear / comoving / logspace /
custom edges x closed x all units x single / multiple scales x rweight / resolution x
cosmologies) and over all single- and many double-parameter modifications; every observed
configuration is handed to Model/Config.v (c15_create_case, c15_modify_case, c15_eq_case,
c15_roundtrip_case, c15_angle_case) together with the oracle tables (comoving distances and
z_at_value results evaluated by the implementation's own cosmology objects, log / exp values
from numpy) and compared inside Coq with the repaired and with the current model.
Translator: symbols are pushed through the real Scales._compute_angle and the expression that
comes out is proved equal to r * factor(unit) / D_unit in Coq (field), for all values.

Two further dimensions of every case (props/c15_obs.py holds the code that touches the implementation):
  * the python TYPE in which each value is handed over (T = {parameter: kind}: numpy scalars of four widths, tuples /
    lists / float32 / read-only / strided / integer arrays, lists of numpy scalars, enum members, np.str_; and, with
    no promise of acceptance, option strings in another letter case and integers given as floats).  The model sees the
    value the parameter stands for: the outcome must not depend on T.
  * the INTERPRETER MODE: a sample of the create / invalid / modify / round-trip / == cases, every refusal the property
    demands among them, is repeated in fresh interpreters started with -O and with PYTHONOPTIMIZE=1 (assert
    statements and `if __debug__` blocks compiled away) and checked by the same Coq terms
    (Proofs/ConfigP.v: create_g_all_raise - a code whose validations are raise statements has one behaviour in both
    modes, so the model of the default interpreter is the model of the optimised one).
"""
import math
import os
import time
import traceback
import warnings

import numpy as np

from lib import coqrun
from lib import floatq as fq
from lib import impl  # noqa: F401  (asserts that yaw comes from the tree under test)
from props import c15_obs as ob
from props.c15_obs import (COSMO_NAMES, CUSTOM_ID, OMIT, Cos, cosmo_ident, cosmo_object,  # noqa: F401
                           custom_cosmology, kwargs_of)

ALLOWED_AXIOMS = []
TRUSTED = [
    "oracles (not modelled): astropy comoving_distance / angular_diameter_distance / z_at_value of the configured "
    "cosmology, numpy log / power; the harness evaluates them with the implementation's own cosmology objects and "
    "hands the values to the model as tables looked up to 2^-20; np.linspace is modelled exactly, np.deg2rad as "
    "multiplication with the float pi/180 (checked against a 30-digit rational pi)",
    "symbolic-trace translator for Scales._compute_angle (operator-overloading symbols in numpy object arrays; "
    "assumes the traced function branches only on the unit)",
    "the harness-side merge of create-arguments and modifications used for the implementation-vs-implementation "
    "comparison modify(...) == create(merged) mirrors Model/Config.v:overlay",
    "props/c15_obs.py:realise builds the typed value from the plain one without changing the number / string it stands "
    "for (generators only pick a kind when the conversion is exact: float32 kinds for float32-representable values, "
    "integer kinds for integral values)",
    "lib/optmode.py starts the fresh interpreters; the child reports __debug__, sys.flags.optimize and that yaw was "
    "imported from the tree under test (checked as an obligation)",
]
ASSUMPTIONS = [
    "edges of linear binnings are compared to 2^-48, of comoving/logspace binnings to 2^-20 (oracle tables), custom "
    "edges, scales, units, closed side, cosmology, rweight, resolution exactly; first/last edge against zmin/zmax "
    "exactly (bit patterns)",
    "exceptions are classed as ConfigError / ValueError / TypeError (refusal) versus KeyError / AttributeError / "
    "other (crash)",
    "the Mpc/h and kpc/h units are modelled as the code computes them: number / D_C[Mpc], no factor h",
    "acceptance is not demanded of option strings in another letter case, of integers handed over as floats and of "
    "BinMethodAuto members: a refusal is counted (refused-unpromised-input), an acceptance must mean the plain value",
    "non-finite values have no rational model: a NaN among the edges / redshift limits / scale limits must be refused "
    "or lead to strictly increasing NaN-free edges and rmin < rmax (direct check); infinite limits are not judged "
    "beyond that",
    "the outcome in an optimised interpreter is also compared with the outcome of the same call in this interpreter "
    "(bit for bit; a difference that no failing input explains is reported as a disagreement)",
]
RULE = ("cases = (kind, create-arguments, modification, cosmology) with kind in create / invalid / modify / eq / "
        "roundtrip / angle; distinct by that tuple; non-trivial when the case generates or regenerates bin edges, "
        "changes at least one parameter, or is refused (every modify/eq/roundtrip/angle/invalid case, and create "
        "cases with generated edges); the python types of the values and the interpreter mode are part of the tuple")

HEADER = "From Verif Require Import Prelude Config.\nOpen Scope Q_scope.\n"

METHODS = {"linear": "MLinear", "comoving": "MComoving", "logspace": "MLogspace", "custom": "MCustom"}
CLOSED = {"right": "ClRight", "left": "ClLeft"}
UNITS = {"kpc": "Ukpc", "Mpc": "UMpc", "rad": "Urad", "deg": "Udeg", "arcmin": "Uarcmin", "arcsec": "Uarcsec",
         "kpc/h": "Ukpc_h", "Mpc/h": "UMpc_h"}


# ---------------------------------------------------------------- oracle tables
class Oracle:
    """Caches every cosmology evaluation; builds the tables of one case."""

    def __init__(self):
        self.dist = {}
        self.grid = {}

    def D(self, ident, z):
        k = (ident, float(z))
        if k not in self.dist:
            v = cosmo_object(ident).comoving_distance(float(z))
            self.dist[k] = float(getattr(v, "value", v))
        return self.dist[k]

    def DA(self, ident, z):
        k = ("A", ident, float(z))
        if k not in self.dist:
            v = cosmo_object(ident).angular_diameter_distance(float(z))
            self.dist[k] = float(getattr(v, "value", v))
        return self.dist[k]

    def DM(self, ident, z):
        """transverse comoving distance: the distance measure of the units kpc/h and Mpc/h (options.Unit); astropy's own
        for its cosmologies, (1 + z) D_A - its definition - for a custom cosmology, whose interface has nothing else"""
        k = ("M", ident, float(z))
        if k not in self.dist:
            cos = cosmo_object(ident)
            if hasattr(cos, "comoving_transverse_distance"):
                v = cos.comoving_transverse_distance(float(z))
                self.dist[k] = float(getattr(v, "value", v))
            else:
                self.dist[k] = self.DA(ident, z) * (1.0 + float(z))
        return self.dist[k]

    def comoving_grid(self, ident, zmin, zmax, n):
        """[(d_i, z_at_value(d_i))] for the linear grid between D(zmin) and D(zmax).  The inner
        points are inverted together (what the repaired factory does); the two end points, which
        only the pinned-commit model consults, one by one and only if the root finder accepts
        them (it refuses D = 0)."""
        k = (ident, float(zmin), float(zmax), int(n))
        if k not in self.grid:
            from astropy import units
            from astropy.cosmology import z_at_value
            cos = cosmo_object(ident)
            func = cos.comoving_distance
            if ident == CUSTOM_ID:
                def func(z):
                    return cos.comoving_distance(z) * units.Mpc
            out = []
            try:
                lo, hi = self.D(ident, zmin), self.D(ident, zmax)
                lin = np.linspace(lo, hi, int(n) + 1)
            except Exception:
                lin = []
            groups = ([lin[1:-1]] if len(lin) > 2 else []) + [lin[i:i + 1] for i in ((0, len(lin) - 1) if len(lin) else ())]
            for g in groups:
                try:
                    with warnings.catch_warnings():
                        warnings.simplefilter("ignore")
                        zs = z_at_value(func, g * units.Mpc)
                    out += [(float(d), float(z)) for d, z in zip(g, np.atleast_1d(getattr(zs, "value", zs)))]
                except Exception:
                    pass
            self.grid[k] = out
        return self.grid[k]


class Tables:
    def __init__(self, oracle):
        self.o = oracle
        self.D, self.Di, self.L, self.E = {}, {}, {}, {}

    def need(self, ident, method, zmin, zmax, n):
        if zmin is None or zmax is None or n is None or n < 1 or n > 64:
            return
        try:
            zmin, zmax = float(zmin), float(zmax)
        except (TypeError, ValueError):
            return
        if not (math.isfinite(zmin) and math.isfinite(zmax)) or zmin < 0.0 or zmax < 0.0:
            return
        if method == "comoving" and ident is not None:
            try:
                self.D.setdefault(ident, {})[zmin] = self.o.D(ident, zmin)
                self.D.setdefault(ident, {})[zmax] = self.o.D(ident, zmax)
            except Exception:
                return
            for d, z in self.o.comoving_grid(ident, zmin, zmax, n):
                self.Di.setdefault(ident, {})[d] = z
        elif method == "logspace":
            with np.errstate(all="ignore"):
                lo, hi = np.log([1.0 + zmin, 1.0 + zmax])
                lin = np.linspace(lo, hi, int(n) + 1)
                ex = np.power(np.e, lin) - 1.0
            self.L[zmin], self.L[zmax] = float(lo), float(hi)
            for x, v in zip(lin, ex):
                if math.isfinite(x) and math.isfinite(v):
                    self.E[float(x)] = float(v)

    @staticmethod
    def _tab(d):
        return fq.lst([fq.pair(fq.q(k), fq.q(v)) for k, v in sorted(d.items())])

    def coq(self):
        d2 = lambda t: fq.lst([fq.pair(fq.nat(c), self._tab(tb)) for c, tb in sorted(t.items())])
        return "(mkTables %s %s %s %s)" % (d2(self.D), d2(self.Di), self._tab(self.L), self._tab(self.E))


# ---------------------------------------------------------------- encoders
def qopt(x):
    return fq.opt(x, fq.q)


def as_list(x):
    return [v for v in np.atleast_1d(x).tolist()]


def coq_method(m):
    return METHODS.get(str(m), "MUnknown")


def coq_closed(c):
    return CLOSED.get(str(c), "ClUnknown")


def coq_unit(u):
    return UNITS.get(str(u), "UUnknown")


def coq_params(P):
    g = lambda k: P.get(k, OMIT)
    none_if = lambda v: None if v is OMIT else v
    return "(mkParams %s %s %s %s %s %s %s %s %s %s %s %s %s)" % (
        fq.qlist(as_list(P["rmin"])), fq.qlist(as_list(P["rmax"])),
        fq.opt(none_if(g("unit")), coq_unit),
        qopt(none_if(g("rweight"))), fq.opt(none_if(g("resolution")), fq.z),
        qopt(none_if(g("zmin"))), qopt(none_if(g("zmax"))),
        fq.opt(none_if(g("num_bins")), fq.nat), fq.opt(none_if(g("method")), coq_method),
        fq.opt(none_if(g("edges")), fq.qlist), fq.opt(none_if(g("closed")), coq_closed),
        P.get("cosmology", Cos("omit")).coq(), fq.opt(none_if(g("max_workers")), fq.nat))


def coq_mods(M):
    def f(k, enc):
        return "None" if k not in M else "(Some %s)" % enc(M[k])
    return "(mkMods %s %s %s %s %s %s %s %s %s %s %s %s %s)" % (
        f("rmin", lambda v: fq.qlist(as_list(v))), f("rmax", lambda v: fq.qlist(as_list(v))),
        f("unit", coq_unit), f("rweight", qopt), f("resolution", lambda v: fq.opt(v, fq.z)),
        f("zmin", fq.q), f("zmax", fq.q), f("num_bins", fq.nat), f("method", coq_method),
        f("edges", fq.qlist), f("closed", coq_closed), f("cosmology", lambda c: c.coq()),
        f("max_workers", lambda v: fq.opt(v, fq.nat)))


EXN = {"ConfigError": "ExConfig", "ValueError": "ExValue", "TypeError": "ExType", "KeyError": "ExKey",
       "AttributeError": "ExAttr"}

MODES = {"-O": (("-O",), None), "PYTHONOPTIMIZE=1": ((), {"PYTHONOPTIMIZE": "1"})}


class Obs:
    """outcome of one call on the implementation (an observation dictionary of c15_obs: snap or exn / msg)"""

    def __init__(self, d):
        self.d = d
        self.snap = d.get("snap")

    @property
    def raised(self):
        return "exn" in self.d

    def exn(self):
        return self.d.get("exn")

    def msg(self):
        return self.d.get("msg", "")

    def finite(self):
        s = self.snap
        return s is None or all(isinstance(x, int) or math.isfinite(x) for x in s["edges"] + s["rmin"] + s["rmax"])

    def coq(self):
        if self.raised:
            return "(ORaised %s)" % EXN.get(self.exn(), "ExOther")
        return "(OOk %s)" % coq_snapshot(self.snap)

    def brief(self):
        if self.raised:
            return "%s: %s" % (self.exn(), self.msg()[:120])
        return dict(self.snap, edges=[float(x).hex() for x in self.snap["edges"]])


def coq_snapshot(s):
    return "(mkConfig (mkScales %s %s %s %s %s) (mkBinning %s %s %s) %d%%nat %s)" % (
        fq.qlist(s["rmin"]), fq.qlist(s["rmax"]), coq_unit(s["unit"]), qopt(s["rweight"]),
        fq.opt(s["resolution"], fq.z), fq.qlist(s["edges"]), coq_method(s["method"]), coq_closed(s["closed"]),
        s["cosmo"], fq.opt(s["workers"], fq.nat))


def do_create(P, T=None):
    return Obs(ob.observe_create(dict(P=P, T=T or {}))["o"])


class Remote:
    """a fresh interpreter in another mode: jobs are collected, run in one go, then finished"""

    def __init__(self, mode):
        self.mode = mode
        self.pending = []


# ---------------------------------------------------------------- merge (mirror of Config.v:overlay)
def is_generated(P):
    return P.get("zmin", OMIT) not in (OMIT, None) and P.get("zmax", OMIT) not in (OMIT, None)


def effective(P):
    """(method, zmin, zmax, num_bins, edges) a configuration built from P stands for"""
    if is_generated(P):
        m = P.get("method", OMIT)
        nb = P.get("num_bins", OMIT)
        return ("linear" if m is OMIT else str(m), P["zmin"], P["zmax"], 30 if nb is OMIT else nb, None)
    e = P.get("edges", OMIT)
    if e in (OMIT, None):
        return (None, None, None, None, None)
    return ("custom", e[0], e[-1], len(e) - 1, list(e))


def merge(P, M):
    """create-arguments of the configuration modify(P-configuration, M) must equal"""
    out = {}
    for k in ("rmin", "rmax", "unit", "rweight", "resolution", "max_workers", "closed", "cosmology"):
        if k in M:
            out[k] = M[k]
        elif k in P:
            out[k] = P[k]
    meth, zmin, zmax, nb, edges = effective(P)
    if "edges" in M:
        out["edges"] = M["edges"]
        return out
    new_m = str(M["method"]) if "method" in M else meth
    if "method" in M and new_m == "custom":
        out.update(zmin=M.get("zmin", zmin), zmax=M.get("zmax", zmax), method="custom")   # refused
        return out
    if new_m == "custom":
        out["edges"] = edges
        return out
    out.update(zmin=M.get("zmin", zmin), zmax=M.get("zmax", zmax), num_bins=M.get("num_bins", nb), method=new_m)
    return out


def cos_of(P):
    return P.get("cosmology", Cos("omit"))


# ---------------------------------------------------------------- case builders
def type_sig(T, lenient_only=False):
    """short structural name of a type map: 'float32-limits', 'readonly-edges+int64-num_bins'"""
    grp = lambda k: "limits" if k in ("zmin", "zmax") else "scales" if k in ("rmin", "rmax") else k
    short = lambda kind: kind.replace("np.", "").replace("array:", "").replace("list:", "list-of-")
    items = sorted({"%s-%s" % (short(kind), grp(k)) for k, kind in (T or {}).items()
                    if not lenient_only or kind in ob.LENIENT})
    return "+".join(items) or "plain"


def nan_free_valid(snap):
    """the clause itself, on numbers that have no rational model: at least two strictly increasing NaN-free edges and
    rmin < rmax without NaN"""
    e = snap["edges"]
    if len(e) < 2 or any(x != x for x in e) or not all(a < b for a, b in zip(e, e[1:])):
        return False
    lo, hi = snap["rmin"], snap["rmax"]
    return len(lo) == len(hi) and all(a == a and b == b and a < b for a, b in zip(lo, hi))


class Run:
    def __init__(self, ctx):
        self.ctx = ctx
        self.oracle = Oracle()
        self.cases = {k: [] for k in ("create", "modify", "eq", "roundtrip", "angle", "direct")}

    # -- where a job runs: this interpreter (finished at once) or a fresh one in another mode (finished by flush)
    def submit(self, job, finish, where):
        if where is None:
            return finish(ob.observe(job))
        where.pending.append((job, finish))
        return None

    def flush(self, remotes):
        """run the collected jobs of every remote interpreter (side by side), then build their cases"""
        from concurrent.futures import ThreadPoolExecutor
        from lib import optmode

        def go(rem):
            flags, env = MODES[rem.mode]
            return optmode.run(ob.CHILD, dict(jobs=[ob.enc(j) for j, _ in rem.pending]), flags=flags, env_extra=env,
                               timeout=900)
        with ThreadPoolExecutor(max_workers=len(remotes) or 1) as ex:
            outs = list(ex.map(go, remotes))
        for rem, r in zip(remotes, outs):
            res = r.get("result")
            ok = (isinstance(res, dict) and res.get("debug") is False and res.get("optimize", 0) >= 1
                  and res.get("same_tree") is True and len(res.get("results", [])) == len(rem.pending))
            self.ctx.obligation("optimised-interpreter probe ran (%s): __debug__ is False, yaw from the tree under test, "
                                "%d jobs answered" % (rem.mode, len(rem.pending)), ok,
                                "rc=%s %s" % (r.get("rc"), r.get("stderr")))
            if not ok:
                continue
            for (job, finish), out in zip(rem.pending, res["results"]):
                out = ob.dec(out)
                if "probe_error" in out:
                    self.ctx.obligation("optimised-interpreter job (%s, %s)" % (rem.mode, job["kind"]), False,
                                        out["probe_error"] + " " + repr(show_job(job))[:600])
                    continue
                finish(out)
            rem.pending = []

    def versus(self, cid, c, baseline):
        """the outcome in the other interpreter against the outcome of the same call in this one"""
        if baseline is None:
            return
        import json
        a, b = json.dumps(c["res"], sort_keys=True), json.dumps(baseline["res"], sort_keys=True)
        self.ctx.bump("optimised_same_as_default" if a == b else "optimised_differs_from_default")
        if a != b:
            self.ctx.disagree("outcome with python %s against the outcome in the default interpreter" % c["mode"], cid,
                              dict(job=show_job(c["job"]), optimised=c["res"], default=baseline["res"]))

    def fail(self, c, sig, what, replay, case):
        mode = c.get("mode")
        if mode:
            sig += ":optimised-interpreter"
            what = "with python %s (assert statements and `if __debug__` blocks compiled away): %s" % (mode, what)
            replay = dict(replay, interpreter=mode)
        self.ctx.fail(sig, what, replay, case=case)

    # -- tables a create from P may consult
    def tables_for(self, tb, P, idents=None):
        meth, zmin, zmax, nb, _ = effective(P)
        ids = set(idents or [])
        ids.add(cos_of(P).ident())
        for i in ids:
            tb.need(i, meth, zmin, zmax, nb)

    def grid_values(self, P, obs):
        """f(zmin), f(zmax), f(edges) for the grid flag, f from the RESULTING configuration"""
        if obs.raised or not is_generated(P):
            return 0.0, 0.0, []
        s = obs.snap
        try:
            if s["method"] == "comoving":
                c = s["cosmo"]
                return (self.oracle.D(c, P["zmin"]), self.oracle.D(c, P["zmax"]),
                        [self.oracle.D(c, e) for e in s["edges"]])
            if s["method"] == "logspace":
                return (float(np.log(1.0 + P["zmin"])), float(np.log(1.0 + P["zmax"])),
                        [float(np.log(1.0 + e)) for e in s["edges"]])
            return float(P["zmin"]), float(P["zmax"]), list(s["edges"])
        except Exception:
            return 0.0, 0.0, []

    def unpromised(self, kind, key, T):
        """a refusal of a value the property does not promise to accept: counted, not judged"""
        self.ctx.count(key=key, nontrivial=True, kind="%s/refused-unpromised-input" % kind)
        self.ctx.bump("refused-unpromised-input:" + type_sig(T, lenient_only=True))

    def add_create(self, P, tag, expect_invalid=None, T=None, where=None, baseline=None):
        T = dict(T or {})
        mode = where.mode if where else None
        job = dict(kind="create", P=P, T=T)

        def finish(res):
            ctx = self.ctx
            obs = Obs(res["o"])
            key = ("create", canon(P), canon(T), mode)
            if obs.raised and ob.lenient(T):
                self.unpromised("create", key, T)
                return obs
            tb = Tables(self.oracle)
            self.tables_for(tb, P)
            flo, fhi, fv = self.grid_values(P, obs)
            term = "c15_create_case %s %s %s %s %s %s" % (tb.coq(), coq_params(P), obs.coq(), fq.q(flo), fq.q(fhi),
                                                         fq.qlist(fv))
            c = dict(term=term, P=P, T=T, obs=obs, tag=tag, expect_invalid=expect_invalid, immut=res.get("immut"),
                     mode=mode, job=job, res=res)
            self.cases["create"].append(c)
            self.versus(("create", len(self.cases["create"]) - 1), c, baseline)
            ctx.count(key=key, nontrivial=is_generated(P) or obs.raised or bool(T) or bool(mode),
                      kind="create/%s/%s%s%s" % (effective(P)[0], "raised" if obs.raised else "ok",
                                                 "/typed" if T else "", "/" + mode if mode else ""))
            for k, kind in T.items():
                ctx.bump("typed:%s:%s" % (k, kind))
            ctx.sample(dict(kind="create", args=show(P), types=T, interpreter=mode, observed=obs.brief()), limit=4)
            return obs
        return self.submit(job, finish, where)

    def add_modify(self, P, M, tag, T=None, TM=None, where=None, baseline=None):
        T, TM = dict(T or {}), dict(TM or {})
        mode = where.mode if where else None
        merged = merge(P, M)
        job = dict(kind="modify", P=P, T=T, M=M, TM=TM, merged=merged)

        def finish(res):
            ctx = self.ctx
            o_create = Obs(res["o_create"])
            if o_create.raised:
                return
            o_mod, o_after, o_fresh = Obs(res["o_mod"]), Obs(res["o_after"]), Obs(res["o_fresh"])
            key = ("modify", canon(P), canon(M), canon(T), canon(TM), mode)
            if o_mod.raised and ob.lenient(TM):
                self.unpromised("modify", key, TM)
                return
            tb = Tables(self.oracle)
            self.tables_for(tb, P)
            extra = {0, cos_of(P).ident()}
            if "cosmology" in M:
                extra.add(M["cosmology"].ident())
            self.tables_for(tb, merged, idents=[i for i in extra if i is not None])
            term = "c15_modify_case %s %s %s %s %s %s %s" % (tb.coq(), coq_params(P), coq_mods(M), o_create.coq(),
                                                            o_mod.coq(), o_after.coq(), o_fresh.coq())
            c = dict(term=term, P=P, M=M, T=T, TM=TM, merged=merged, o_create=o_create, o_mod=o_mod, o_after=o_after,
                     o_fresh=o_fresh, tag=tag, mode=mode, job=job, res=res)
            self.cases["modify"].append(c)
            self.versus(("modify", len(self.cases["modify"]) - 1), c, baseline)
            ctx.count(key=key, nontrivial=True,
                      kind="modify/%s/%d-param%s%s" % (effective(P)[0], len(M), "/typed" if T or TM else "",
                                                       "/" + mode if mode else ""))
            if not mode:
                for k in M:
                    ctx.bump("modified:" + k)
            for k, kind in TM.items():
                ctx.bump("typed-modification:%s:%s" % (k, kind))
            ctx.sample(dict(kind="modify", args=show(P), mods=show(M), types=T, mod_types=TM, interpreter=mode,
                            observed=o_mod.brief()), limit=4)
        return self.submit(job, finish, where)

    def add_eq(self, PA, PB, same, tag, TA=None, TB=None, where=None, baseline=None):
        TA, TB = dict(TA or {}), dict(TB or {})
        mode = where.mode if where else None
        job = dict(kind="eq", PA=PA, TA=TA, PB=PB, TB=TB)

        def finish(res):
            if "outcome" not in res:
                return
            o, msg = res["outcome"], res.get("msg", "")
            oc = {"true": "EqTrue", "false": "EqFalse"}.get(o) or "(EqRaised %s)" % EXN.get(o, "ExOther")
            tb = Tables(self.oracle)
            self.tables_for(tb, PA)
            self.tables_for(tb, PB)
            term = "c15_eq_case %s %s %s %s %s" % (tb.coq(), coq_params(PA), coq_params(PB), fq.b(same), oc)
            c = dict(term=term, PA=PA, PB=PB, TA=TA, TB=TB, same=same, outcome=o, message=msg, tag=tag, mode=mode,
                     job=job, res=res)
            self.cases["eq"].append(c)
            self.versus(("eq", len(self.cases["eq"]) - 1), c, baseline)
            self.ctx.count(key=("eq", canon(PA), canon(PB), canon(TA), canon(TB), mode), nontrivial=True,
                           kind="eq/%s%s%s" % ("same" if same else "differ", "/typed" if TA or TB else "",
                                               "/" + mode if mode else ""))
        return self.submit(job, finish, where)

    def add_roundtrip(self, P, tag, T=None, via="dict", where=None, baseline=None):
        T = dict(T or {})
        mode = where.mode if where else None
        job = dict(kind="roundtrip", P=P, T=T, via=via, scratch=self.ctx.workdir)

        def finish(res):
            o_create = Obs(res["o_create"])
            if o_create.raised:
                return
            o_rt = Obs(res["o_rt"])
            tb = Tables(self.oracle)
            self.tables_for(tb, P)
            s = o_create.snap
            tb.need(s["cosmo"], s["method"], s["edges"][0], s["edges"][-1], len(s["edges"]) - 1)
            term = "c15_roundtrip_case %s %s %s %s" % (tb.coq(), coq_params(P), o_create.coq(), o_rt.coq())
            c = dict(term=term, P=P, T=T, via=via, o_create=o_create, o_rt=o_rt, tag=tag, mode=mode, job=job, res=res)
            self.cases["roundtrip"].append(c)
            self.versus(("roundtrip", len(self.cases["roundtrip"]) - 1), c, baseline)
            self.ctx.count(key=("roundtrip", canon(P), canon(T), via, mode), nontrivial=True,
                           kind="roundtrip/%s/%s%s%s" % (effective(P)[0], via, "/typed" if T else "",
                                                         "/" + mode if mode else ""))
        return self.submit(job, finish, where)

    def add_direct(self, P, tag, sig, M=None, T=None, TM=None, where=None, baseline=None):
        """values without a rational model (NaN among them): the call must be refused, or what comes out must
        satisfy the clause (nan_free_valid); judged here, not in Coq"""
        T, TM = dict(T or {}), dict(TM or {})
        mode = where.mode if where else None
        if M is None:
            job = dict(kind="create", P=P, T=T)
        else:
            job = dict(kind="modify", P=P, T=T, M=M, TM=TM, merged=P)

        def finish(res):
            if M is None:
                obs = Obs(res["o"])
            else:
                if "o_mod" not in res:
                    return
                obs = Obs(res["o_mod"])
            c = dict(P=P, M=M, T=T, TM=TM, obs=obs, tag=tag, sig=sig, mode=mode, job=job, res=res)
            self.cases["direct"].append(c)
            cid = ("direct", len(self.cases["direct"]) - 1)
            self.versus(cid, c, baseline)
            self.ctx.count(key=("direct", canon(P), canon(M or {}), canon(T), canon(TM), mode), nontrivial=True,
                           kind="non-finite/%s/%s%s" % (tag, "raised" if obs.raised else "accepted", "/" + mode if mode else ""))
            if not obs.raised and not nan_free_valid(obs.snap):
                call_ = "create(%s)" % show(P) if M is None else "create(%s).modify(%s)" % (show(P), show(M))
                self.fail(c, sig, "%s is accepted: edges %s, rmin %s, rmax %s" % (call_, obs.snap["edges"], obs.snap["rmin"],
                                                                                    obs.snap["rmax"]),
                          dict(kind="direct", args=show(P), mods=show(M) if M is not None else None, types=T,
                               mod_types=TM, signature=sig, tag=tag, observed=repr(obs.snap)), cid)
        return self.submit(job, finish, where)

    def add_angle(self, unit, rmin, rmax, z, ident, tag, via_config=True, T=None, twin=None):
        """get_angle_radian(z, cosmology) of the scales of a configuration (or of a bare ScalesConfig
        when the cosmology cannot be put into a Configuration); T = the python types of rmin / rmax, twin = index of
        the angle case with the same numbers handed over as plain python values"""
        from yaw import Configuration
        from yaw.config import ScalesConfig
        T = dict(T or {})
        cos = cosmo_object(ident)
        try:
            lo, hi = ob.realise("rmin", T.get("rmin"), rmin), ob.realise("rmax", T.get("rmax"), rmax)
            if via_config:
                name = cos if ident == CUSTOM_ID else [k for k, v in COSMO_NAMES.items() if v == ident][0]
                conf = Configuration.create(rmin=lo, rmax=hi, unit=unit, zmin=0.25, zmax=0.5, num_bins=1,
                                            cosmology=name)
                amin, amax = conf.scales.scales.get_angle_radian(z, cosmology=conf.cosmology)
                used = cosmo_ident(conf.cosmology)
            else:
                sc = ScalesConfig.create(rmin=lo, rmax=hi, unit=unit)
                amin, amax = sc.scales.get_angle_radian(z, cosmology=cos)
                used = ident
        except Exception as e:  # noqa: BLE001
            self.ctx.fail("c15-angle-raises:%s" % type(e).__name__,
                          "get_angle_radian raised %s for unit %s" % (type(e).__name__, unit),
                          dict(unit=unit, rmin=rmin, rmax=rmax, z=z, cosmology=ident, types=T,
                               traceback=traceback.format_exc()[-1200:]))
            return None
        rs = as_list(rmin) + as_list(rmax)
        ang = [float(x) for x in np.atleast_1d(amin)] + [float(x) for x in np.atleast_1d(amax)]
        DA, DC = self.oracle.DA(used, z), self.oracle.DM(used, z)
        term = "c15_angle_case %s %s %s %s %s %s" % (coq_unit(unit), fq.q(float(np.pi / 180.0)), fq.q(DA), fq.q(DC),
                                                    fq.qlist(rs), fq.qlist(ang))
        self.cases["angle"].append(dict(term=term, unit=unit, rmin=rmin, rmax=rmax, z=z, cosmology=ident,
                                        angles=[a.hex() for a in ang], DA=DA, DC=DC, tag=tag, types=T, twin=twin))
        self.ctx.count(key=("angle", unit, repr(rmin), repr(rmax), z, ident, via_config, canon(T)), nontrivial=True,
                       kind="angle/%s/cos%d%s" % (unit, ident, "/typed" if T else ""))
        for k, kind in T.items():
            self.ctx.bump("typed-angle:%s:%s" % (k, kind))
        return len(self.cases["angle"]) - 1


    def add_angle_fresh(self, unit, rmin, rmax, z, H0, Om0, tag, family="FlatLambdaCDM", extra=None):
        """the same conversion with a short-lived cosmology object (a parameter scan creates and drops
        many of them; nothing may be remembered per object identity) of ANY astropy family: flat, curved (open and
        closed), constant and evolving dark energy, with and without radiation / massive neutrinos"""
        import gc
        import astropy.cosmology as ac
        from yaw import Configuration
        kw = dict(H0=H0, Om0=Om0, **(extra or {}))
        label = "%s(%s)" % (family, ", ".join("%s=%s" % kv for kv in sorted(kw.items())))
        cos = getattr(ac, family)(**kw)
        try:
            conf = Configuration.create(rmin=rmin, rmax=rmax, unit=unit, zmin=0.25, zmax=0.5, num_bins=1, cosmology=cos)
            amin, amax = conf.scales.scales.get_angle_radian(z, cosmology=conf.cosmology)
        except Exception as e:  # noqa: BLE001
            self.ctx.fail("c15-angle-raises:%s" % type(e).__name__, "get_angle_radian raised %s for unit %s with a %s object"
                          % (type(e).__name__, unit, family), dict(unit=unit, rmin=rmin, rmax=rmax, z=z, cosmology=label))
            return
        ref = getattr(ac, family)(**kw)      # independent object with the same parameters = the oracle
        DA, DC = float(ref.angular_diameter_distance(float(z)).value), float(ref.comoving_transverse_distance(float(z)).value)
        rs = as_list(rmin) + as_list(rmax)
        try:
            ang = [float(x) for x in np.atleast_1d(amin)] + [float(x) for x in np.atleast_1d(amax)]
        except Exception as e:  # noqa: BLE001
            self.ctx.fail("c15-angle-not-a-number", "get_angle_radian with a short-lived %s object returned %r (%s): a value "
                          "remembered from an earlier, unrelated cosmology object?" % (family, amin, type(e).__name__),
                          dict(unit=unit, rmin=rmin, rmax=rmax, z=z, cosmology=label))
            return
        term = "c15_angle_case %s %s %s %s %s %s" % (coq_unit(unit), fq.q(float(np.pi / 180.0)), fq.q(DA), fq.q(DC),
                                                    fq.qlist(rs), fq.qlist(ang))
        self.cases["angle"].append(dict(term=term, unit=unit, rmin=rmin, rmax=rmax, z=z, cosmology=label,
                                        angles=[a.hex() for a in ang], DA=DA, DC=DC, tag=tag))
        curved = abs(float(getattr(ref, "Ok0", 0.0))) > 1e-6
        self.ctx.count(key=("angle-fresh", unit, repr(rmin), repr(rmax), z, label), nontrivial=True,
                       kind="angle-fresh/%s/%s%s" % (unit, family, "/curved" if curved else ""))
        del cos, conf, ref
        gc.collect()


def cosmology_family(rng):
    """(family, extra keyword arguments) over the astropy FLRW classes: the transverse comoving distance differs from the
    line-of-sight one only with curvature, dark-energy models change both, radiation matters at high z"""
    fam = rng.choice(["FlatLambdaCDM", "LambdaCDM", "LambdaCDM", "LambdaCDM", "wCDM", "FlatwCDM", "w0waCDM", "Flatw0waCDM"])
    extra = {}
    if fam in ("LambdaCDM", "wCDM", "w0waCDM"):
        extra["Ode0"] = rng.choice([0.3, 0.5, 0.9, 1.1])          # Om0 + Ode0 != 1: open and closed
    if fam in ("wCDM", "FlatwCDM", "w0waCDM", "Flatw0waCDM"):
        extra["w0"] = rng.choice([-1.2, -0.9, -0.7])
    if fam in ("w0waCDM", "Flatw0waCDM"):
        extra["wa"] = rng.choice([-0.3, 0.2])
    if rng.random() < 0.4:
        extra["Tcmb0"] = 2.725
        if rng.random() < 0.5:
            extra["Neff"] = 3.04
            extra["m_nu"] = [0.0, 0.0, 0.06]
    return fam, extra


def canon(d):
    return tuple(sorted((k, repr(v.key()) if isinstance(v, Cos) else repr(v)) for k, v in d.items()))


def show(d):
    return {k: (repr(v) if isinstance(v, Cos) else v) for k, v in d.items()}


def show_job(job):
    return {k: (show(v) if isinstance(v, dict) else v) for k, v in job.items()}


# ---------------------------------------------------------------- generators
def gen_scales(rng, multi=None):
    multi = rng.random() < 0.4 if multi is None else multi
    if multi:
        k = rng.choice([2, 3, 4])
        lo = rng.sample([1.0, 2.5, 10.0, 50.0, 100.0, 128.0, 0.5], k)
        order = rng.choice(["ascending", "ascending", "descending", "any", "repeated"])      # a scale LIST: any order, repeats allowed
        if order == "ascending":
            lo = sorted(lo)
        elif order == "descending":
            lo = sorted(lo, reverse=True)
        hi = [float(x) * rng.choice([2.0, 4.0, 10.0]) for x in lo]
        if order == "repeated":
            j = rng.randrange(k)
            lo, hi = lo + [lo[j]], hi + [hi[j]]                  # the same range listed twice
        return [float(x) for x in lo], hi
    a = rng.choice([0.5, 1.0, 2.5, 10.0, 100.0, 100, 128.0])
    b = a * rng.choice([2, 4.0, 10.0])
    if rng.random() < 0.3:
        return [a], [b]
    return a, b


def gen_base(rng, kind, idx):
    """create-arguments of one base configuration of the given binning kind"""
    P = {}
    P["rmin"], P["rmax"] = gen_scales(rng, multi=(idx % 3 == 1))
    units = list(UNITS) + [OMIT]
    u = units[(idx * 5 + rng.randrange(3)) % len(units)]
    if u is not OMIT:
        P["unit"] = u
    if rng.random() < 0.5:
        P["rweight"] = rng.choice([-1.0, 0.5, None])
    if rng.random() < 0.5:
        P["resolution"] = rng.choice([10, 50, None])
    c = [OMIT, "right", "left"][(idx + rng.randrange(2)) % 3]
    if c is not OMIT:
        P["closed"] = c
    cos = [Cos("omit"), Cos("name", "WMAP9"), Cos("obj", "WMAP9"), Cos("none"), Cos("name", "Planck15"),
           Cos("obj", "Planck13"), Cos("name", "WMAP9"), Cos("obj", "Planck15"), Cos("custom"),
           Cos("name", "WMAP9")][(idx + rng.randrange(3)) % 10]
    if cos.kind != "omit":
        P["cosmology"] = cos
    if rng.random() < 0.3:
        P["max_workers"] = rng.choice([2, 0, 4])
    if kind == "custom":
        n = rng.choice([2, 3, 4, 6])
        pts = sorted(rng.sample(range(0, 96), n))
        P["edges"] = [p / 32.0 for p in pts]
        if rng.random() < 0.3:
            P["method"] = "custom"
    else:
        if kind == "linear":
            n = rng.choice([1, 2, 3, 4, 5, 8, OMIT])
            nn = 30 if n is OMIT else n
            zmin = rng.choice([0.0, 1 / 32, 0.25, 0.5])
            step = rng.choice([1, 2, 3, 8]) / 64.0
            zmax = zmin + nn * step
        else:
            n = rng.choice([1, 2, 3, 4, 7, OMIT])
            zmin = rng.choice([1 / 128, 1 / 32, 0.125, 0.25, 0.5] + ([0.0] if kind == "logspace" else []))
            zmax = rng.choice([z for z in (0.75, 1.0, 1.25, 2.0, 3.0) if z > zmin])
        P["zmin"], P["zmax"] = zmin, zmax
        if n is not OMIT:
            P["num_bins"] = n
        if kind != "linear" or rng.random() < 0.5:
            P["method"] = kind
        if rng.random() < 0.1:
            P["edges"] = [0.0, 1.0, 2.0]     # ignored (with a warning) when zmin and zmax are given
    return P


def single_mods(rng, P):
    """every parameter of modify, set alone (valid and a few invalid values)"""
    meth, zmin, zmax, nb, edges = effective(P)
    rmin, rmax = as_list(P["rmin"]), as_list(P["rmax"])
    scal = lambda l: l if len(l) > 1 or isinstance(P["rmin"], list) else l[0]
    unit = P.get("unit", "kpc")
    out = [
        dict(rmin=scal([x / 2.0 for x in rmin])),
        dict(rmax=scal([x * 2.0 for x in rmax])),
        dict(rmin=scal(list(rmax))),                         # rmin >= rmax: refused
        dict(unit=rng.choice([u for u in UNITS if u != unit])),
        dict(unit="parsec"),
        dict(rweight=rng.choice([-2.0, 1.5])), dict(rweight=None),
        dict(resolution=rng.choice([5, 20])), dict(resolution=None),
        dict(zmin=max(0.0, zmin - 1 / 64) if zmin > 0 else 1 / 64),
        dict(zmax=zmax + 0.25),
        dict(zmin=zmax + 1.0),                               # zmin >= zmax: refused
        dict(num_bins=rng.choice([k for k in (1, 2, 3, 5, 6) if k != nb])),
        dict(method=rng.choice([m for m in ("linear", "comoving", "logspace") if m != meth])),
        dict(method="custom"), dict(method="quadratic"),
        dict(edges=[zmin + 1 / 64, zmin + 0.25, zmin + 1.0]),
        dict(edges=[0.5, 0.25]),                             # not increasing: refused
        dict(closed="left" if P.get("closed", "right") == "right" else "right"),
        dict(closed="both"),
        dict(cosmology=Cos("name", rng.choice([n for n in COSMO_NAMES if COSMO_NAMES[n] != cos_of(P).ident()]))),
        dict(cosmology=Cos("obj", rng.choice([n for n in COSMO_NAMES if COSMO_NAMES[n] != cos_of(P).ident()]))),
        dict(cosmology=Cos("none")),
        dict(cosmology=Cos("custom") if cos_of(P).kind != "custom" else Cos("obj", "WMAP9")),
        dict(cosmology=Cos("badname")), dict(cosmology=Cos("badtype")),
        dict(max_workers=rng.choice([3, 0])), dict(max_workers=None),
    ]
    return out


def double_mods(rng, P, k):
    meth, zmin, zmax, nb, edges = effective(P)
    other = [m for m in ("linear", "comoving", "logspace") if m != meth]
    othercos = [n for n in COSMO_NAMES if COSMO_NAMES[n] != cos_of(P).ident()]
    pool = [
        dict(zmin=zmin / 2.0 + 1 / 128, zmax=zmax + 0.5),
        dict(num_bins=rng.choice([2, 3, 5]), method=rng.choice(other)),
        dict(method=rng.choice(other), cosmology=Cos("obj", rng.choice(othercos))),
        dict(method="comoving", cosmology=Cos("name", rng.choice(othercos))),
        dict(closed="left", unit=rng.choice(list(UNITS))),
        dict(rmin=[0.25], rmax=[8.0]) if len(as_list(P["rmin"])) == 1 else dict(rmin=[0.25, 0.5], rmax=[8.0, 16.0]),
        dict(edges=[0.125, 0.25, 0.75, 1.5], closed="left"),
        dict(method="linear", zmin=zmin + 1 / 64),
        dict(method=rng.choice(other), zmax=zmax + 1.0),
        dict(cosmology=Cos("obj", rng.choice(othercos)), num_bins=rng.choice([2, 4])),
        dict(rweight=-0.5, resolution=25),
        dict(zmin=zmin + 1 / 64, closed="right"),
        dict(num_bins=3, rmax=[x * 4.0 for x in as_list(P["rmax"])] if isinstance(P["rmax"], list) else as_list(P["rmax"])[0] * 4.0),
        dict(unit=rng.choice(list(UNITS)), cosmology=Cos("name", rng.choice(othercos))),
        dict(edges=[0.25, 0.5], method="linear"),
        dict(max_workers=2, zmax=zmax + 0.125),
        dict(method="linear", num_bins=2),
    ]
    rng.shuffle(pool)
    return pool[:k]


def invalid_params(rng):
    base = dict(rmin=1.0, rmax=2.0, zmin=0.25, zmax=0.75, num_bins=2)
    cust = dict(rmin=1.0, rmax=2.0)
    out = []

    def add(tag, P):
        out.append((tag, P))
    add("neither", dict(rmin=1.0, rmax=2.0))
    add("zmin-only", dict(rmin=1.0, rmax=2.0, zmin=0.25))
    add("zmax-only", dict(rmin=1.0, rmax=2.0, zmax=0.25, method="comoving"))
    add("edges-equal", dict(cust, edges=[0.25, 0.5, 0.5]))
    add("edges-decreasing", dict(cust, edges=[0.5, 0.25]))
    add("edges-single", dict(cust, edges=[0.5]))
    add("edges-unsorted", dict(cust, edges=[0.125, 0.75, 0.5, 1.0], closed="left"))
    add("rmin-eq-rmax", dict(base, rmin=2.0))
    add("rmin-gt-rmax", dict(base, rmin=[1.0, 5.0], rmax=[2.0, 4.0]))
    add("scales-length", dict(base, rmin=[1.0, 2.0], rmax=[4.0]))
    add("method-unknown", dict(base, method="quadratic"))
    add("method-custom-with-zmin", dict(base, method="custom"))
    add("unit-unknown", dict(base, unit="parsec"))
    add("closed-unknown", dict(base, closed="both"))
    add("cosmology-unknown-name", dict(base, cosmology=Cos("badname")))
    add("cosmology-bad-type", dict(base, cosmology=Cos("badtype")))
    add("zmin-eq-zmax", dict(base, zmin=0.5, zmax=0.5))
    add("zmin-gt-zmax", dict(base, zmin=0.75, zmax=0.25))
    add("zmin-gt-zmax-comoving", dict(base, zmin=0.75, zmax=0.25, method="comoving", cosmology=Cos("name", "WMAP9")))
    add("zmin-eq-zmax-logspace", dict(base, zmin=0.5, zmax=0.5, method="logspace"))
    add("num-bins-0", dict(base, num_bins=0))
    add("num-bins-0-logspace", dict(base, num_bins=0, method="logspace"))
    return [(tag, P, {}) for tag, P in out] + typed_invalid_params(base, cust)


def typed_invalid_params(base, cust):
    """the same refusals with the offending values in other python types"""
    f32 = lambda *xs: [float(np.float32(x)) for x in xs]
    return [
        ("edges-unsorted/tuple", dict(cust, edges=[0.125, 0.75, 0.5, 1.0]), dict(edges="tuple")),
        ("edges-equal/float32-array", dict(cust, edges=f32(0.1, 0.3, 0.3, 0.7)), dict(edges="array:float32")),
        ("edges-decreasing/readonly-array", dict(cust, edges=[1.0, 0.5, 0.125], closed="left"),
         dict(edges="array:readonly", closed="enum")),
        ("edges-unsorted/strided-array", dict(cust, edges=[0.125, 0.5, 0.25]), dict(edges="array:strided")),
        ("edges-equal/int64-array", dict(cust, edges=[0, 1, 1, 2]), dict(edges="array:int64")),
        ("edges-single/list-of-np.float64", dict(cust, edges=[0.5]), dict(edges="list:np.float64")),
        ("zmin-gt-zmax/np.float32", dict(base, zmin=f32(0.7)[0], zmax=f32(0.1)[0]), dict(zmin="np.float32", zmax="np.float32")),
        ("zmin-eq-zmax/np.int64", dict(base, zmin=1, zmax=1, method="logspace"), dict(zmin="np.int64", zmax="np.int64")),
        ("zmin-eq-zmax/np.float64-comoving", dict(base, zmin=0.5, zmax=0.5, method="comoving"),
         dict(zmin="np.float64", zmax="np.float64", method="enum")),
        ("rmin-gt-rmax/float32-array", dict(base, rmin=[1.0, 5.0], rmax=[2.0, 4.0]),
         dict(rmin="array:float32", rmax="array:float32")),
        ("rmin-eq-rmax/np.int32", dict(base, rmin=2, rmax=2), dict(rmin="np.int32", rmax="np.int32")),
        ("scales-length/tuple", dict(base, rmin=[1.0, 2.0], rmax=[4.0]), dict(rmin="tuple", rmax="tuple")),
        ("num-bins-0/np.int64", dict(base, num_bins=0), dict(num_bins="np.int64")),
        ("method-unknown/np.str_", dict(base, method="quadratic"), dict(method="np.str_")),
        ("unit-unknown/np.str_", dict(base, unit="parsec"), dict(unit="np.str_")),
    ]


def nonfinite_params():
    """(tag, signature, create-arguments, modification or None): NaN where a number is expected"""
    nan, inf = float("nan"), float("inf")
    base = dict(rmin=1.0, rmax=2.0, zmin=0.25, zmax=0.75, num_bins=2)
    cust = dict(rmin=1.0, rmax=2.0)
    good = dict(cust, edges=[0.125, 0.5, 1.0])
    E, S = "c15-invalid-accepted:nan-edges", "c15-invalid-accepted:nan-scales"
    return [
        ("nan-inner-edge", E, dict(cust, edges=[0.1, nan, 1.0]), None),
        ("nan-first-edge", E, dict(cust, edges=[nan, 0.5, 1.0]), None),
        ("nan-last-edge", E, dict(cust, edges=[0.1, 0.5, nan], closed="left"), None),
        ("nan-zmin", E, dict(base, zmin=nan), None),
        ("nan-zmax-logspace", E, dict(base, zmax=nan, method="logspace"), None),
        ("nan-zmin-comoving", E, dict(base, zmin=nan, method="comoving"), None),
        ("inf-zmax", E, dict(base, zmax=inf), None),
        ("inf-inf-edges", E, dict(cust, edges=[0.1, inf, inf]), None),
        ("modify-nan-edges", E, good, dict(edges=[0.1, nan, 1.0])),
        ("modify-nan-zmin", E, base, dict(zmin=nan)),
        ("nan-rmin", S, dict(base, rmin=nan), None),
        ("nan-rmax", S, dict(base, rmax=nan), None),
        ("nan-in-rmin-list", S, dict(base, rmin=[1.0, nan], rmax=[2.0, 4.0]), None),
        ("modify-nan-rmin", S, base, dict(rmin=nan)),
        ("modify-nan-rmax", S, good, dict(rmax=nan)),
    ]


# ---------------------------------------------------------------- python types of the values
VALID_OPTIONS = dict(unit=UNITS, method=METHODS, closed=CLOSED)


def kinds_for(param, plain):
    """the kinds in which this value can be handed over without changing what it stands for"""
    if plain is None or plain is OMIT or isinstance(plain, Cos):
        return []
    if param in ob.FLOAT_PARAMS:
        cands = ob.SCALAR_FLOAT_KINDS
    elif param in ob.INT_PARAMS:
        cands = ob.SCALAR_INT_KINDS
    elif param in ob.SEQ_PARAMS:
        cands = ob.SEQ_KINDS
    elif param in ob.SCALE_PARAMS:
        cands = ob.SEQ_KINDS if isinstance(plain, list) else ob.SCALAR_FLOAT_KINDS
    elif param in ob.STR_PARAMS:
        if str(plain) not in VALID_OPTIONS[param]:
            return []
        cands = ob.STR_KINDS
    else:
        return []
    return [k for k in cands if ob.applicable(param, k, plain)]


def draw_types(rng, P, prob=0.6):
    T = {}
    for k in sorted(P):
        ks = kinds_for(k, P[k])
        if ks and rng.random() < prob:
            T[k] = rng.choice(ks)
    return T


def lenient_cases():
    """values the property does not promise to accept; when they are accepted they must mean the plain value"""
    base = dict(rmin=1.0, rmax=2.0, zmin=0.25, zmax=0.75, num_bins=3, method="logspace", closed="left", unit="Mpc/h",
                resolution=10, max_workers=2)
    out = []
    for k in ("unit", "method", "closed"):
        for kind in ob.STR_LENIENT_KINDS:
            out.append((base, {k: kind}))
    for k in ("num_bins", "resolution", "max_workers"):
        for kind in ("float", "np.float64-for-int", "np.float32-for-int"):
            out.append((base, {k: kind}))
    out.append((base, dict(method="enum-auto")))
    out.append((dict(rmin=1.0, rmax=2.0, edges=[0.125, 0.5, 1.0], closed="right", unit="arcmin"), dict(closed="upper", unit="title")))
    return out


# ---------------------------------------------------------------- deterministic probes of the known findings
def probes(run):
    lin = dict(rmin=100.0, rmax=1000.0, zmin=0.25, zmax=1.25, num_bins=4)
    # F14
    run.add_eq(lin, dict(lin), True, "probe-F14")
    # F15
    com = dict(lin, method="comoving", cosmology=Cos("name", "WMAP9"))
    run.add_modify(com, dict(rmin=200.0), "probe-F15")
    run.add_modify(dict(lin, method="comoving"), dict(cosmology=Cos("name", "WMAP9")), "probe-F15-name")
    # F20
    cus = dict(rmin=100.0, rmax=1000.0, edges=[0.25, 0.5, 1.0], closed="left")
    run.add_modify(cus, dict(closed="right"), "probe-F20")
    # F19
    run.add_create(dict(lin, method="comoving"), "probe-F19-comoving")
    run.add_create(dict(rmin=100.0, rmax=1000.0, zmin=0.0, zmax=1.0, num_bins=3, method="logspace"), "probe-F19-logspace")
    # new: dictionary round trip of custom edges; custom cosmology; comoving from zmin = 0
    run.add_roundtrip(cus, "probe-roundtrip-custom")
    run.add_create(dict(lin, cosmology=Cos("custom")), "probe-custom-cosmology")
    run.add_create(dict(lin, method="comoving", cosmology=Cos("custom")), "probe-custom-cosmology-comoving")
    run.add_modify(dict(lin, method="comoving", cosmology=Cos("custom")), dict(num_bins=2), "probe-custom-cosmology-modify")
    run.add_modify(dict(lin, method="comoving"), dict(cosmology=Cos("custom")), "probe-custom-cosmology-modify-to")
    run.add_modify(dict(rmin=100.0, rmax=1000.0, zmin=0.0, zmax=1.0, num_bins=3), dict(method="comoving"), "probe-comoving-zmin0-modify")
    run.add_create(dict(rmin=100.0, rmax=1000.0, zmin=0.0, zmax=1.0, num_bins=3, method="comoving"), "probe-comoving-zmin0")
    custom_cosmology_factory_probe(run.ctx)
    typed_probes(run)


def typed_probes(run):
    """F26 (18c893e): numpy float32 redshift limits; F27 (3e8b370): float32 scale limits; F28 (38ed3ea): NaN"""
    f32 = lambda x: float(np.float32(x))
    lim32 = dict(zmin="np.float32", zmax="np.float32")
    for meth in ("linear", "logspace", "comoving"):
        P = dict(rmin=100.0, rmax=1000.0, zmin=f32(0.1), zmax=f32(1.0), num_bins=3, method=meth)
        run.add_create(P, "probe-F26-" + meth, T=lim32)
        run.add_modify(P, dict(num_bins=3), "probe-F26-%s-modify-same-value" % meth, T=lim32)
        run.add_modify(P, dict(rmin=200.0), "probe-F26-%s-modify-scale" % meth, T=lim32)
        run.add_roundtrip(P, "probe-F26-" + meth, T=lim32, via="yaml")
        run.add_eq(P, dict(P), True, "probe-F26-" + meth, TA=lim32)
    # the same numbers as plain python values / numpy float32 scalars / a float32 array, every unit
    for ui, u in enumerate(UNITS):
        for kind, lo, hi in (("np.float32", 100.0, 1000.0), ("array:float32", [f32(0.1), 2.5], [f32(0.7), 10.0])):
            twin = run.add_angle(u, lo, hi, [0.5, 0.25, 1.0][ui % 3], ui % 3, "probe-F27-plain")
            run.add_angle(u, lo, hi, [0.5, 0.25, 1.0][ui % 3], ui % 3, "probe-F27-" + kind, T=dict(rmin=kind, rmax=kind), twin=twin)
    for tag, sig, P, M in nonfinite_params():
        run.add_direct(P, tag, sig, M=M)
    for P, T in lenient_cases():
        run.add_create(P, "unpromised-input", T=T)
        plain = {k: v for k, v in P.items() if k not in T}
        if "edges" in P or ("zmin" in plain and "zmax" in plain):
            run.add_modify(plain, {k: P[k] for k in T}, "unpromised-input", TM=T)


def custom_cosmology_factory_probe(ctx):
    """BinningConfig.create(method=comoving, cosmology=<CustomCosmology>) - the level below
    Configuration, where a custom cosmology can be handed over at all"""
    from yaw.config import BinningConfig
    try:
        with warnings.catch_warnings():
            warnings.simplefilter("ignore")
            b = BinningConfig.create(zmin=0.25, zmax=1.25, num_bins=4, method="comoving", cosmology=custom_cosmology())
        e = [float(x) for x in b.edges]
        # D_C = 3000 z: the comoving grid is the linear grid
        want = [0.25, 0.5, 0.75, 1.0, 1.25]
        if len(e) != 5 or any(abs(a - w) > 1e-6 for a, w in zip(e, want)):
            ctx.fail("c15-custom-cosmology-comoving-edges", "comoving edges for a custom cosmology with D_C = 3000 z "
                     "are not the linear grid: %s" % e, dict(edges=e))
        ctx.count(key=("factory-custom",), nontrivial=True, kind="factory/custom-cosmology/ok")
    except Exception as ex:  # noqa: BLE001
        ctx.count(key=("factory-custom",), nontrivial=True, kind="factory/custom-cosmology/raised")
        ctx.fail("c15-custom-cosmology-comoving-%s" % type(ex).__name__.lower(),
                 "BinningConfig.create(method='comoving', cosmology=<CustomCosmology returning floats>) raised %s: %s"
                 % (type(ex).__name__, str(ex)[:200]),
                 dict(call="BinningConfig.create(zmin=0.25, zmax=1.25, num_bins=4, method='comoving', "
                           "cosmology=CustomCosmology subclass with D_C = 3000 z)",
                      traceback=traceback.format_exc()[-1200:]))


# ---------------------------------------------------------------- translator for _compute_angle
class Sym:
    def __init__(self, e):
        self.e = e

    @staticmethod
    def lit(o):
        if isinstance(o, Sym):
            return o.e
        return fq.q(float(o))

    def __truediv__(self, o):
        return Sym("(%s / %s)" % (self.e, Sym.lit(o)))

    def __rtruediv__(self, o):
        return Sym("(%s / %s)" % (Sym.lit(o), self.e))

    def __mul__(self, o):
        return Sym("(%s * %s)" % (self.e, Sym.lit(o)))

    __rmul__ = __mul__

    def __add__(self, o):
        return Sym("(%s + %s)" % (self.e, Sym.lit(o)))

    def __radd__(self, o):
        return Sym("(%s + %s)" % (Sym.lit(o), self.e))

    def deg2rad(self):          # numpy calls the method of the same name on object arrays
        return Sym("(%s * pi180)" % self.e)


class SymCosmology:
    def angular_diameter_distance(self, z):
        return Sym("DA")

    def comoving_distance(self, z):
        return Sym("DLOS")      # line of sight: not the distance measure of any unit

    def comoving_transverse_distance(self, z):
        return Sym("DC")


def trace_obligations(ctx):
    from yaw.cosmology import new_scales
    lemmas, status = [], {}
    for u, cu in UNITS.items():
        try:
            sc = new_scales(1.0, 2.0, unit=u)
            out = sc._compute_angle(np.array([Sym("r")], dtype=object), Sym("z"), SymCosmology())
            expr = np.atleast_1d(out)[0]
            expr = expr.e if isinstance(expr, Sym) else None
        except Exception as e:  # noqa: BLE001
            expr = None
            status[u] = "trace-unavailable: %s" % type(e).__name__
        if expr is None:
            status.setdefault(u, "trace-unavailable")
            continue
        status[u] = expr
        # DC is the transverse comoving distance, by definition (1 + z) times the angular diameter distance; DLOS (the
        # line-of-sight comoving distance) is under no hypothesis: an expression that uses it proves nothing
        lemmas.append((u, "Lemma trace_%s : forall r pi180 DA DC DLOS z : Q, ~ DA == 0 -> ~ DC == 0 -> ~ 1 + z == 0 ->\n"
                          "  DC == DA * (1 + z) ->\n"
                          "  %s == angle_spec %s pi180 DA DC r.\n"
                          "Proof. intros r pi180 DA DC DLOS z HA HC HZ HT. unfold angle_spec, unit_factor, unit_dist. "
                          "try rewrite HT. field; auto. Qed.\n" % (cu, expr, cu)))
    ctx.extra["trace_status"] = status
    for u, lem in lemmas:
        path = os.path.join(ctx.workdir, "Trace_C15_%s.v" % UNITS[u])
        with open(path, "w") as f:
            f.write(HEADER + "\n" + lem)
        rc, out = coqrun.coqc_file(path, 120)
        ctx.obligation("trace:_compute_angle[%s] = r * factor / D" % u, rc == 0,
                       "traced expression: %s\n%s" % (status[u], out[-1500:]))
        if rc != 0:
            ctx.bump("trace_lemma_failed")
    return status


# ---------------------------------------------------------------- interpretation
def edges_rel_diff(a, b):
    if len(a) != len(b):
        return float("inf")
    return max([abs(x - y) / max(abs(y), 1e-300) if x != y else 0.0 for x, y in zip(a, b)] or [0.0])


def classify_modify(c):
    """structural signature of a modify that is not create(merged), from what was observed"""
    P, M, o = c["P"], c["M"], c["o_mod"]
    meth = effective(P)[0]
    mg = c["merged"]
    new_meth = str(mg.get("method", "custom" if "edges" in mg else "linear"))
    ex = o.exn()
    if ex == "KeyError" and meth == "custom" and "edges" not in M:
        return "c15-modify-closed-custom-edges-keyerror"
    if ex == "AttributeError" and "cosmology" in M and M["cosmology"].kind in ("name", "badname") and new_meth == "comoving":
        return "c15-modify-cosmology-str-attributeerror"
    if ex == "TypeError" and "cosmology" in M and M["cosmology"].kind == "custom":
        return "c15-custom-cosmology-typeerror"
    if ex == "CosmologyError" and new_meth == "comoving" and mg.get("zmin") == 0.0:
        return "c15-comoving-zmin0-cosmologyerror"
    if ex is None and not c["o_fresh"].raised:
        got, want = o.snap, c["o_fresh"].snap
        same_rest = all(got[k] == want[k] for k in got if k != "edges")
        if same_rest and new_meth == "comoving" and "cosmology" not in M and cos_of(P).ident() not in (0, None) \
                and "edges" not in M:
            # the edges create() gives for the merged parameters with the DEFAULT cosmology
            dflt = do_create({k: v for k, v in mg.items() if k != "cosmology"})
            if not dflt.raised and edges_rel_diff(got["edges"], dflt.snap["edges"]) < 1e-6 \
                    and edges_rel_diff(got["edges"], want["edges"]) >= 1e-6:
                return "c15-modify-drops-cosmology"
        if same_rest and meth in ("comoving", "logspace") and is_generated(P):
            e = c["o_create"].snap["edges"]
            if (e[0] != P["zmin"] or e[-1] != P["zmax"]) and edges_rel_diff(got["edges"], want["edges"]) < 1e-6:
                return "c15-edges-span-%s" % meth      # modify starts from the drifted end points
    return "c15-modify-differs-from-create:%s" % (ex or "value")


def interpret(run, codes):
    ctx = run.ctx
    # ---- create
    for i, (c, code) in enumerate(zip(run.cases["create"], codes["create"])):
        cid = ("create", i)
        P, obs = c["P"], c["obs"]
        replay = dict(kind="create", args=show(P), types=c["T"], observed=obs.brief(), tag=c["tag"])
        if c["immut"]:
            run.fail(c, "c15-immutable-setattr", "attributes of %s can be assigned" % c["immut"], replay, case=cid)
        if code is None:
            continue
        meth = effective(P)[0]
        failed = False
        if code & 4:
            failed = True
            run.fail(c, "c15-edges-len", "create(num_bins=n) does not give n + 1 edges (%s, got %d edges)"
                     % (meth, len(obs.snap["edges"])), replay, case=cid)
        if code & 8:
            failed = True
            run.fail(c, "c15-edges-not-increasing", "created configuration has edges that are not strictly increasing",
                     replay, case=cid)
        if code & 16:
            failed = True
            e = obs.snap["edges"]
            run.fail(c, "c15-edges-span-%s" % meth,
                     "%s edges do not span [zmin, zmax] exactly: zmin=%s first=%s, zmax=%s last=%s"
                     % (meth, float(P["zmin"]).hex(), e[0].hex(), float(P["zmax"]).hex(), e[-1].hex()), replay, case=cid)
        if code & 32:
            failed = True
            run.fail(c, "c15-invalid-accepted:%s" % c["tag"], "invalid parameters (%s) are accepted" % c["tag"], replay, case=cid)
        if code & 64:
            failed = True
            ex = obs.exn()
            if cos_of(P).kind == "custom" and ex == "TypeError":
                sig = "c15-custom-cosmology-typeerror"
            elif ex == "CosmologyError" and meth == "comoving" and P.get("zmin") == 0.0:
                sig = "c15-comoving-zmin0-cosmologyerror"
            else:
                sig = "c15-valid-rejected:%s" % ex
            run.fail(c, sig, "valid parameters are refused with %s" % obs.brief(), replay, case=cid)
        if code & 128:
            failed = True
            run.fail(c, "c15-edges-grid-%s" % meth, "%s edges are not the linear grid in the method's distance measure "
                     "of the configured cosmology" % meth, replay, case=cid)
        if c["expect_invalid"] and not obs.raised and not (code & 32):
            ctx.disagree("Cases_C15_create", cid, dict(note="generator marks the parameters invalid, model does not", replay=replay))
        if (code & 1) and ((code & 2) or not failed):
            ctx.disagree("Cases_C15_create", cid, dict(code=code, replay=replay))
        if not (code & 16) and is_generated(P) and not obs.raised and meth in ("comoving", "logspace"):
            ctx.bump("span_exact:" + meth)
    # ---- modify
    for i, (c, code) in enumerate(zip(run.cases["modify"], codes["modify"])):
        cid = ("modify", i)
        replay = dict(kind="modify", args=show(c["P"]), mods=show(c["M"]), types=c["T"], mod_types=c["TM"],
                      merged=show(c["merged"]),
                      modify=c["o_mod"].brief(), create_merged=c["o_fresh"].brief(), original_after=c["o_after"].brief(),
                      tag=c["tag"])
        if code is None:
            continue
        if code & 32:
            if c["T"] and not (code & 1) and not (code & 8):
                # created from values in other python types: the created configuration is not the one its parameters
                # stand for, while modify() of it and create() of the merged plain values both are
                run.fail(c, "c15-modify-differs-from-create:" + type_sig(c["T"]),
                         "create with %s gives another configuration than modify(%s) of it and than create of the same "
                         "values as plain python numbers: create -> %s ; modify -> %s"
                         % (", ".join("%s as %s" % kv for kv in sorted(c["T"].items())),
                            ", ".join("%s=%r" % kv for kv in sorted(show(c["M"]).items())), short(c["o_create"]), short(c["o_mod"])),
                         replay, case=cid)
            else:
                ctx.disagree("Cases_C15_modify(base create)", cid, dict(code=code, replay=replay))
            continue
        if code & 16:
            ctx.obligation("instance of modify_is_create_merge on case %d" % i, False, repr(replay))
        if code & 4:
            run.fail(c, "c15-modify-mutates-original", "the original configuration changed during modify(%s)"
                     % ", ".join(sorted(c["M"])), replay, case=cid)
        if code & 1:
            sig = classify_modify(c)
            if code & 2:
                ctx.bump("modify_agrees_with_neither_model")
                if sig.startswith("c15-modify-differs-from-create:"):
                    ctx.disagree("Cases_C15_modify", cid, dict(code=code, replay=replay))
            else:
                ctx.bump("modify_agrees_with_pinned_commit_model_only")
            run.fail(c, sig, "modify(%s) on a %s configuration is not create(merged parameters): modify -> %s ; create -> %s"
                     % (", ".join("%s=%r" % kv for kv in sorted(show(c["M"]).items())), effective(c["P"])[0],
                        short(c["o_mod"]), short(c["o_fresh"])), replay, case=cid)
        elif code & 8:
            run.fail(c, "c15-modify-differs-from-create:impl", "modify(%s) and create(merged parameters) of the "
                     "implementation differ" % ", ".join(sorted(c["M"])), replay, case=cid)
        if not (code & 1):
            ctx.bump("modify_equals_create")
    # ---- eq
    for i, (c, code) in enumerate(zip(run.cases["eq"], codes["eq"])):
        cid = ("eq", i)
        replay = dict(kind="eq", a=show(c["PA"]), b=show(c["PB"]), a_types=c["TA"], b_types=c["TB"], same=c["same"],
                      outcome=c["outcome"], message=c["message"], tag=c["tag"])
        if code is None:
            continue
        if code & 1:
            if c["outcome"] == "AttributeError" and "rbin_num" in c.get("message", ""):
                sig = "c15-eq-attributeerror-rbin_num"
            else:
                sig = "c15-eq-wrong:%s" % c["outcome"]
                ctx.disagree("Cases_C15_eq", cid, dict(code=code, replay=replay))
            run.fail(c, sig, "== of two configurations built from %s parameters gives %s"
                     % ("the same" if c["same"] else "different", c["outcome"]), replay, case=cid)
        elif code & 4:
            run.fail(c, "c15-eq-equal-params-unequal", "configurations with equal parameters do not compare equal", replay, case=cid)
    # ---- roundtrip
    for i, (c, code) in enumerate(zip(run.cases["roundtrip"], codes["roundtrip"])):
        cid = ("roundtrip", i)
        P = c["P"]
        meth = effective(P)[0]
        replay = dict(kind="roundtrip", args=show(P), types=c["T"], via=c["via"], created=c["o_create"].brief(),
                      restored=c["o_rt"].brief(), tag=c["tag"])
        if code is None:
            continue
        if code & 1:
            if meth == "custom" and c["o_rt"].exn() == "ConfigError":
                sig = "c15-roundtrip-custom-edges-configerror"
            else:
                sig = "c15-roundtrip-differs:%s" % (c["o_rt"].exn() or "value")
                ctx.disagree("Cases_C15_roundtrip", cid, dict(code=code, replay=replay))
            run.fail(c, sig, "from_dict(to_dict()) of a %s configuration gives %s" % (meth, short(c["o_rt"])), replay, case=cid)
        elif cos_of(P).kind == "custom" and c["o_rt"].exn() == "ConfigError":
            # to_dict refuses custom cosmologies (documented; premise cosmo_named of roundtrip_id)
            ctx.bump("roundtrip_refused_custom_cosmology")
        elif code & 4:
            run.fail(c, "c15-roundtrip-differs:value", "from_dict(to_dict()) changes the configuration", replay, case=cid)
        elif code & 8:
            e = c["o_create"].snap["edges"]
            inexact = is_generated(P) and (e[0] != P["zmin"] or e[-1] != P["zmax"])
            if meth in ("comoving", "logspace") and inexact:
                ctx.bump("roundtrip_changes_edges_bits_because_span_inexact:" + meth)
            else:
                run.fail(c, "c15-roundtrip-changes-edges", "from_dict(to_dict()) changes bin edges (%s)" % meth, replay, case=cid)
    # ---- angle
    for i, (c, code) in enumerate(zip(run.cases["angle"], codes["angle"])):
        cid = ("angle", i)
        replay = {k: v for k, v in c.items() if k != "term"}
        if code is None:
            continue
        if code & 3:
            twin = c.get("twin")
            if c.get("types") and twin is not None and codes["angle"][twin] is not None and not (codes["angle"][twin] & 3):
                run.fail(c, "c15-angle-precision:" + type_sig(c["types"]),
                         "get_angle_radian for unit %s is r * factor / D(z) when the scale limits are plain python numbers, "
                         "but not for the same numbers handed over as %s: %s against %s"
                         % (c["unit"], type_sig(c["types"]), c["angles"], run.cases["angle"][twin]["angles"]), replay, case=cid)
            else:
                run.fail(c, "c15-angle-%s" % c["unit"], "get_angle_radian for unit %s is not r * factor / D(z) of the "
                         "configured cosmology" % c["unit"], replay, case=cid)
        if code & 4:
            run.fail(c, "c15-deg2rad-factor", "the factor of np.deg2rad is not pi/180", replay, case=cid)


def short(o):
    if o.raised:
        return "%s" % o.exn()
    s = o.snap
    return "%s edges %s.. cosmology %s" % (s["method"], [round(x, 9) for x in s["edges"][:3]], s["cosmo"])


# ---------------------------------------------------------------- entry points
def build_cases(ctx, run):
    rng = ctx.rng
    probes(run)
    kinds = ["linear", "comoving", "logspace", "custom"]
    nbase = ctx.n(12, 112)
    ndouble = ctx.n(5, 8)
    bases = []
    for i in range(nbase):
        P = gen_base(rng, kinds[i % 4], i)
        bases.append(P)
    for i, P in enumerate(bases):
        obs = run.add_create(P, "base")
        if obs.raised:
            continue
        run.add_roundtrip(P, "base")
        singles = single_mods(rng, P)
        if not ctx.quick() and i >= 40:
            rng.shuffle(singles)
            singles = singles[:14]
        for M in singles:
            run.add_modify(P, M, "single")
        for M in double_mods(rng, P, ndouble):
            run.add_modify(P, M, "double")
        # == : same parameters (fresh objects), and one parameter changed at a time
        run.add_eq(P, dict(P), True, "same")
        vary = []
        meth, zmin, zmax, nb, edges = effective(P)
        vary.append(dict(P, rmax=[x * 2.0 for x in as_list(P["rmax"])] if isinstance(P["rmax"], list) else P["rmax"] * 2.0))
        vary.append(dict(P, unit="deg" if P.get("unit", "kpc") != "deg" else "rad"))
        vary.append(dict(P, rweight=3.0))
        vary.append(dict(P, resolution=7))
        vary.append(dict(P, closed="left" if P.get("closed", "right") == "right" else "right"))
        vary.append(dict(P, cosmology=Cos("name", "Planck13" if cos_of(P).ident() != 2 else "WMAP9")))
        vary.append(dict(P, cosmology=Cos("custom") if cos_of(P).kind != "custom" else Cos("none")))
        if meth == "custom":
            vary.append(dict(P, edges=list(edges) + [edges[-1] + 1.0]))
        else:
            vary.append(dict(P, zmax=zmax + 0.5))
        k = ctx.n(3, 4)
        rng.shuffle(vary)
        for PB in vary[:k]:
            run.add_eq(P, PB, False, "differ")
    for tag, P, T in invalid_params(rng):
        run.add_create(P, tag, expect_invalid=True, T=T)
    typed_cases(ctx, run, bases)
    # angles: every unit x cosmology (through a Configuration), custom cosmology through ScalesConfig
    # from just above 0 (the low-redshift bins of C01) to beyond the turnover of the angular-diameter distance
    zs = [2.0 ** -10, 2.0 ** -8, 0.0625, 0.25, 0.5, 1.0, 2.0, 6.0] if ctx.quick() else \
        [2.0 ** -14, 2.0 ** -10, 2.0 ** -8, 2.0 ** -6, 0.0625, 0.25, 0.5, 0.75, 1.0, 2.0, 3.0, 6.0, 10.0]
    for ui, u in enumerate(UNITS):
        for ci, ident in enumerate([0, 1, 2]):
            reps = ctx.n(1, 4)
            for r in range(reps):
                rmin, rmax = gen_scales(rng, multi=((ui + ci + r) % 2 == 0))
                run.add_angle(u, rmin, rmax, rng.choice(zs), ident, "unit-x-cosmology")
        rmin, rmax = gen_scales(rng)
        run.add_angle(u, rmin, rmax, rng.choice(zs), CUSTOM_ID, "custom-cosmology", via_config=False)
        if ui % 2 == 0 or not ctx.quick():
            # through a Configuration; when a custom cosmology is refused there, that is reported
            # once by the create probe (c15-custom-cosmology-typeerror), not per unit
            if not do_create(dict(rmin=1.0, rmax=2.0, zmin=0.25, zmax=0.5, num_bins=1, cosmology=Cos("custom"))).raised:
                run.add_angle(u, rmin, rmax, rng.choice(zs), CUSTOM_ID, "custom-cosmology-config", via_config=True)


    # a scan over short-lived cosmology objects at one redshift (physical and comoving units)
    for u in ("kpc", "Mpc", "kpc/h", "Mpc/h"):
        for j in range(ctx.n(8, 30)):
            run.add_angle_fresh(u, 100.0, 1000.0, 0.5, 55.0 + 2.5 * j, 0.2 + 0.01 * j, "short-lived-cosmology")
        # the other astropy families (curved, w, w0-wa, radiation), at any redshift
        for j in range(ctx.n(10, 40)):
            fam, extra = cosmology_family(rng)
            rmin, rmax = gen_scales(rng, multi=(j % 3 == 0))
            run.add_angle_fresh(u, rmin, rmax, rng.choice(zs), rng.choice([60.0, 67.7, 73.0]), rng.choice([0.2, 0.3, 0.45]),
                                "cosmology-family", family=fam, extra=extra)


def typed_cases(ctx, run, bases):
    """the base configurations once more, every value in a python type drawn for it: create, the YAML / file round
    trip, == with the configuration built from plain values, typed modifications, and the angles of typed scales"""
    rng = ctx.rng
    zs = [0.0625, 0.25, 0.5, 1.0, 2.0]
    for i, P in enumerate(bases):
        if not ctx.quick() and i >= 60:
            break
        T = draw_types(rng, P)
        if not T:
            T = draw_types(rng, P, prob=1.0)
        obs = run.add_create(P, "typed-base", T=T)
        if obs.raised:
            continue
        run.add_roundtrip(P, "typed-base", T=T, via=["yaml", "file", "dict"][i % 3])
        run.add_eq(P, dict(P), True, "typed-vs-plain", TA=T)
        mods = single_mods(rng, P) + double_mods(rng, P, 3)
        rng.shuffle(mods)
        done = 0
        for M in mods:
            TM = draw_types(rng, M, prob=0.9)
            if not TM:
                continue
            # a typed modification of the typed configuration, and the same of the plain one
            run.add_modify(P, M, "typed", T=T if done % 2 == 0 else None, TM=TM)
            done += 1
            if done >= ctx.n(4, 5):
                break
        # the modification that changes nothing of a typed configuration regenerates what create made
        same = {k: P[k] for k in ("num_bins", "closed", "rweight") if k in P and P[k] is not None}
        if same:
            k = rng.choice(sorted(same))
            run.add_modify(P, {k: same[k]}, "typed-same-value", T=T)
        if "rmin" in T or "rmax" in T:
            u = P.get("unit", "kpc")
            ident = cos_of(P).ident() or 0
            z = rng.choice(zs)
            TS = {k: T[k] for k in ("rmin", "rmax") if k in T}
            twin = run.add_angle(u, P["rmin"], P["rmax"], z, ident, "typed-scales-plain", via_config=ident != CUSTOM_ID)
            run.add_angle(u, P["rmin"], P["rmax"], z, ident, "typed-scales", via_config=ident != CUSTOM_ID, T=TS, twin=twin)
    # every scale type x every unit, one redshift each
    for ui, u in enumerate(UNITS):
        for multi in (False, True):
            lo, hi = gen_scales(rng, multi=multi)
            if multi or isinstance(lo, list):
                lo, hi = as_list(lo), as_list(hi)
            kinds = [k for k in kinds_for("rmin", lo) if k in kinds_for("rmax", hi)]
            for kind in (kinds if not ctx.quick() else rng.sample(kinds, min(2, len(kinds)))):
                z = rng.choice(zs)
                twin = run.add_angle(u, lo, hi, z, ui % 3, "scale-types-plain")
                run.add_angle(u, lo, hi, z, ui % 3, "scale-types", T=dict(rmin=kind, rmax=kind), twin=twin)


def optimised_cases(ctx, run):
    """-O / PYTHONOPTIMIZE=1: every case in which the implementation refused something (the refusals the property
    demands are among them: invalid create-arguments in every type, NaN, refused modifications), every create and round
    trip, and a sample of the accepted modifications and comparisons - the same jobs, the same Coq checkers"""
    rng = ctx.rng
    snap = {k: list(v) for k, v in run.cases.items()}
    refused = [c for c in snap["modify"] if c["o_mod"].raised]
    accepted = [c for c in snap["modify"] if not c["o_mod"].raised]
    rng.shuffle(refused)
    rng.shuffle(accepted)
    # refusals that come from a validation of numbers (the ones an assert could stand for) first
    refused.sort(key=lambda c: 0 if set(c["M"]) & {"rmin", "rmax", "zmin", "zmax", "edges", "num_bins"} else 1)
    mods = refused[:ctx.n(40, 160)] + accepted[:ctx.n(24, 100)]
    eqs = list(snap["eq"])
    rng.shuffle(eqs)
    must = [c for c in snap["create"] if c["obs"].raised or c["expect_invalid"]]
    rest = [c for c in snap["create"] if not (c["obs"].raised or c["expect_invalid"])]
    creates = must + (rest if ctx.quick() else rest[:200])
    rts = snap["roundtrip"] if ctx.quick() else snap["roundtrip"][:80]
    remotes = [Remote(mode) for mode in MODES]
    for rem in remotes:
        for c in creates:
            run.add_create(c["P"], c["tag"], expect_invalid=c["expect_invalid"], T=c["T"], where=rem, baseline=c)
        for c in snap["direct"]:
            run.add_direct(c["P"], c["tag"], c["sig"], M=c["M"], T=c["T"], TM=c["TM"], where=rem, baseline=c)
        for c in mods:
            run.add_modify(c["P"], c["M"], c["tag"], T=c["T"], TM=c["TM"], where=rem, baseline=c)
        for c in rts:
            run.add_roundtrip(c["P"], c["tag"], T=c["T"], via=c["via"], where=rem, baseline=c)
        for c in eqs[:ctx.n(8, 30)]:
            run.add_eq(c["PA"], c["PB"], c["same"], c["tag"], TA=c["TA"], TB=c["TB"], where=rem, baseline=c)
    ctx.log("optimised interpreters: %s" % ", ".join("%s=%d jobs" % (r.mode, len(r.pending)) for r in remotes))
    run.flush(remotes)


def evaluate(ctx, run):
    codes = {}
    for kind in ("create", "modify", "eq", "roundtrip", "angle"):
        terms = [c["term"] for c in run.cases[kind]]
        t0 = time.time()
        # the expensive terms come in runs (all modifications of one 30-bin comoving / logspace base): deal the
        # terms out over the shards instead of cutting the list into blocks
        size = 40
        nsh = max(1, -(-len(terms) // size))
        perm = sorted(range(len(terms)), key=lambda i: (i % nsh, i))
        got = ctx.shards("Cases_C15_%s" % kind, HEADER, [terms[i] for i in perm], shard=size) if terms else []
        codes[kind] = [None] * len(terms)
        for pos, i in enumerate(perm):
            codes[kind][i] = got[pos]
        ctx.log("coq %s: %d terms in %.1fs" % (kind, len(terms), time.time() - t0))
    interpret(run, codes)
    ctx.extra["cases"] = {k: len(v) for k, v in run.cases.items()}
    ctx.extra["hypotheses_checked"] = {
        "edges_span_endpoint_hypothesis (first = zmin and last = zmax, bit for bit) held":
            {k: v for k, v in ctx.hist.items() if k.startswith("span_exact")},
    }


def run(ctx):
    r = Run(ctx)
    trace_obligations(ctx)
    build_cases(ctx, r)
    optimised_cases(ctx, r)
    ctx.log("cases: " + ", ".join("%s=%d" % (k, len(v)) for k, v in r.cases.items()))
    evaluate(ctx, r)


def replay(ctx, data):
    """re-run the case stored in a replay file (args are shown with repr; cosmologies as Cos(...))"""
    rp = data.get("replay", data)

    def unshow(d):
        out = {}
        for k, v in d.items():
            if isinstance(v, str) and v.startswith("Cos("):
                body = v[4:-1].split(",")
                out[k] = Cos(body[0], body[1] if len(body) > 1 else None)
            else:
                out[k] = v
        return out
    r = Run(ctx)
    kind = rp.get("kind")
    rem = Remote(rp["interpreter"]) if rp.get("interpreter") in MODES else None
    T = rp.get("types") or {}
    if kind == "create":
        r.add_create(unshow(rp["args"]), rp.get("tag", "replay"), T=T, where=rem)
    elif kind == "modify":
        r.add_modify(unshow(rp["args"]), unshow(rp["mods"]), "replay", T=T, TM=rp.get("mod_types"), where=rem)
    elif kind == "eq":
        r.add_eq(unshow(rp["a"]), unshow(rp["b"]), rp.get("same", rp["a"] == rp["b"]), "replay", TA=rp.get("a_types"),
                 TB=rp.get("b_types"), where=rem)
    elif kind == "roundtrip":
        r.add_roundtrip(unshow(rp["args"]), "replay", T=T, via=rp.get("via", "dict"), where=rem)
    elif kind == "direct":
        r.add_direct(unshow(rp["args"]), rp.get("tag", "replay"), rp["signature"],
                     M=unshow(rp["mods"]) if rp.get("mods") is not None else None, T=T, TM=rp.get("mod_types"), where=rem)
    elif (kind == "angle" or "unit" in rp) and not isinstance(rp.get("cosmology"), str):
        via = rp.get("tag") != "custom-cosmology"
        twin = None
        if rp.get("types"):
            twin = r.add_angle(rp["unit"], rp["rmin"], rp["rmax"], rp["z"], rp["cosmology"], "replay-plain", via_config=via)
        r.add_angle(rp["unit"], rp["rmin"], rp["rmax"], rp["z"], rp["cosmology"], "replay", via_config=via,
                    T=rp.get("types"), twin=twin)
    else:
        probes(r)
    if rem is not None:
        r.flush([rem])
    evaluate(ctx, r)
