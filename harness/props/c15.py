"""C15 — configurations mean what their parameters say; modify equals create.

Tie: the real Configuration.create / .modify / == / to_dict / from_dict and
Scales.get_angle_radian are run over the parameter product (linear / comoving / logspace /
custom edges x closed x all units x single / multiple scales x rweight / resolution x
cosmologies) and over all single- and many double-parameter modifications; every observed
configuration is handed to Model/Config.v (c15_create_case, c15_modify_case, c15_eq_case,
c15_roundtrip_case, c15_angle_case) together with the oracle tables (comoving distances and
z_at_value results evaluated by the implementation's own cosmology objects, log / exp values
from numpy) and compared inside Coq with the repaired and with the current model.
Translator: symbols are pushed through the real Scales._compute_angle and the expression that
comes out is proved equal to r * factor(unit) / D_unit in Coq (field), for all values.
"""
import math
import os
import traceback
import warnings

import numpy as np

from lib import coqrun
from lib import floatq as fq
from lib import impl  # noqa: F401  (asserts that yaw comes from the tree under test)

ALLOWED_AXIOMS = []
TRUSTED = [
    "oracles (not modelled): astropy comoving_distance / angular_diameter_distance / z_at_value of the configured "
    "cosmology, numpy log / power; the harness evaluates them with the implementation's own cosmology objects and "
    "hands the values to the model as tables looked up to 2^-20; np.linspace is modelled exactly, np.deg2rad as "
    "multiplication with the float pi/180 (checked against a 30-digit rational pi)",
    "symbolic-trace translator for Scales._compute_angle (operator-overloading symbols in numpy object arrays; "
    "assumes the traced function branches only on the unit)",
    "the harness-side merge of create-arguments and modifications used for the implementation-vs-implementation "
    "comparison modify(...) == create(merged) mirrors Model/Config.v:overlay",
]
ASSUMPTIONS = [
    "edges of linear binnings are compared to 2^-48, of comoving/logspace binnings to 2^-20 (oracle tables), custom "
    "edges, scales, units, closed side, cosmology, rweight, resolution exactly; first/last edge against zmin/zmax "
    "exactly (bit patterns)",
    "exceptions are classed as ConfigError / ValueError / TypeError (refusal) versus KeyError / AttributeError / "
    "other (crash)",
    "the Mpc/h and kpc/h units are modelled as the code computes them: number / D_C[Mpc], no factor h",
]
RULE = ("cases = (kind, create-arguments, modification, cosmology) with kind in create / invalid / modify / eq / "
        "roundtrip / angle; distinct by that tuple; non-trivial when the case generates or regenerates bin edges, "
        "changes at least one parameter, or is refused (every modify/eq/roundtrip/angle/invalid case, and create "
        "cases with generated edges)")

HEADER = "From Verif Require Import Prelude Config.\nOpen Scope Q_scope.\n"

COSMO_NAMES = {"Planck15": 0, "WMAP9": 1, "Planck13": 2}
CUSTOM_ID = 100

METHODS = {"linear": "MLinear", "comoving": "MComoving", "logspace": "MLogspace", "custom": "MCustom"}
CLOSED = {"right": "ClRight", "left": "ClLeft"}
UNITS = {"kpc": "Ukpc", "Mpc": "UMpc", "rad": "Urad", "deg": "Udeg", "arcmin": "Uarcmin", "arcsec": "Uarcsec",
         "kpc/h": "Ukpc_h", "Mpc/h": "UMpc_h"}
OMIT = "<omit>"


# ---------------------------------------------------------------- cosmologies
class Cos:
    """How a cosmology is handed over: kind in omit/none/name/obj/custom/badname/badtype."""

    def __init__(self, kind, name=None):
        self.kind, self.name = kind, name

    def key(self):
        return (self.kind, self.name)

    def __repr__(self):
        return "Cos(%s%s)" % (self.kind, "," + self.name if self.name else "")

    def value(self):
        import astropy.cosmology as ac
        if self.kind == "none":
            return None
        if self.kind == "name":
            return self.name
        if self.kind == "obj":
            return getattr(ac, self.name)
        if self.kind == "custom":
            return custom_cosmology()
        if self.kind == "badname":
            return "NoSuchCosmology"
        if self.kind == "badtype":
            return 5
        raise KeyError(self.kind)

    def coq(self):
        if self.kind == "omit":
            return "(CosName 0)"
        if self.kind == "none":
            return "CosNone"
        if self.kind == "name":
            return "(CosName %d)" % COSMO_NAMES[self.name]
        if self.kind == "obj":
            return "(CosObj %d)" % COSMO_NAMES[self.name]
        if self.kind == "custom":
            return "(CosCustom %d)" % CUSTOM_ID
        return "CosBadName" if self.kind == "badname" else "CosBadType"

    def ident(self):
        """number of the cosmology this stands for (None when it is not a cosmology)"""
        if self.kind in ("omit", "none"):
            return 0
        if self.kind in ("name", "obj"):
            return COSMO_NAMES[self.name]
        if self.kind == "custom":
            return CUSTOM_ID
        return None


_CUSTOM = []


def custom_cosmology():
    if not _CUSTOM:
        from yaw.cosmology import CustomCosmology

        class Linear(CustomCosmology):
            """D_C = 3000 z Mpc, D_A = D_C / (1 + z); plain floats as the interface documents"""

            def comoving_distance(self, z):
                return 3000.0 * np.asarray(z, dtype=float)

            def angular_diameter_distance(self, z):
                z = np.asarray(z, dtype=float)
                return 3000.0 * z / (1.0 + z)

        _CUSTOM.append(Linear())
    return _CUSTOM[0]


def cosmo_object(ident):
    import astropy.cosmology as ac
    if ident == CUSTOM_ID:
        return custom_cosmology()
    for k, v in COSMO_NAMES.items():
        if v == ident:
            return getattr(ac, k)
    raise KeyError(ident)


def cosmo_ident(obj):
    from yaw.cosmology import CustomCosmology
    if isinstance(obj, CustomCosmology):
        return CUSTOM_ID
    return COSMO_NAMES.get(getattr(obj, "name", None), 99)


# ---------------------------------------------------------------- oracle tables
class Oracle:
    """Caches every cosmology evaluation; builds the tables of one case."""

    def __init__(self):
        self.dist = {}
        self.grid = {}

    def D(self, ident, z):
        k = (ident, float(z))
        if k not in self.dist:
            v = cosmo_object(ident).comoving_distance(float(z))
            self.dist[k] = float(getattr(v, "value", v))
        return self.dist[k]

    def DA(self, ident, z):
        k = ("A", ident, float(z))
        if k not in self.dist:
            v = cosmo_object(ident).angular_diameter_distance(float(z))
            self.dist[k] = float(getattr(v, "value", v))
        return self.dist[k]

    def comoving_grid(self, ident, zmin, zmax, n):
        """[(d_i, z_at_value(d_i))] for the linear grid between D(zmin) and D(zmax).  The inner
        points are inverted together (what the repaired factory does); the two end points, which
        only the pinned-commit model consults, one by one and only if the root finder accepts
        them (it refuses D = 0)."""
        k = (ident, float(zmin), float(zmax), int(n))
        if k not in self.grid:
            from astropy import units
            from astropy.cosmology import z_at_value
            cos = cosmo_object(ident)
            func = cos.comoving_distance
            if ident == CUSTOM_ID:
                def func(z):
                    return cos.comoving_distance(z) * units.Mpc
            out = []
            try:
                lo, hi = self.D(ident, zmin), self.D(ident, zmax)
                lin = np.linspace(lo, hi, int(n) + 1)
            except Exception:
                lin = []
            groups = ([lin[1:-1]] if len(lin) > 2 else []) + [lin[i:i + 1] for i in ((0, len(lin) - 1) if len(lin) else ())]
            for g in groups:
                try:
                    with warnings.catch_warnings():
                        warnings.simplefilter("ignore")
                        zs = z_at_value(func, g * units.Mpc)
                    out += [(float(d), float(z)) for d, z in zip(g, np.atleast_1d(getattr(zs, "value", zs)))]
                except Exception:
                    pass
            self.grid[k] = out
        return self.grid[k]


class Tables:
    def __init__(self, oracle):
        self.o = oracle
        self.D, self.Di, self.L, self.E = {}, {}, {}, {}

    def need(self, ident, method, zmin, zmax, n):
        if zmin is None or zmax is None or n is None or n < 1 or n > 64:
            return
        try:
            zmin, zmax = float(zmin), float(zmax)
        except (TypeError, ValueError):
            return
        if not (math.isfinite(zmin) and math.isfinite(zmax)) or zmin < 0.0 or zmax < 0.0:
            return
        if method == "comoving" and ident is not None:
            try:
                self.D.setdefault(ident, {})[zmin] = self.o.D(ident, zmin)
                self.D.setdefault(ident, {})[zmax] = self.o.D(ident, zmax)
            except Exception:
                return
            for d, z in self.o.comoving_grid(ident, zmin, zmax, n):
                self.Di.setdefault(ident, {})[d] = z
        elif method == "logspace":
            with np.errstate(all="ignore"):
                lo, hi = np.log([1.0 + zmin, 1.0 + zmax])
                lin = np.linspace(lo, hi, int(n) + 1)
                ex = np.power(np.e, lin) - 1.0
            self.L[zmin], self.L[zmax] = float(lo), float(hi)
            for x, v in zip(lin, ex):
                if math.isfinite(x) and math.isfinite(v):
                    self.E[float(x)] = float(v)

    @staticmethod
    def _tab(d):
        return fq.lst([fq.pair(fq.q(k), fq.q(v)) for k, v in sorted(d.items())])

    def coq(self):
        d2 = lambda t: fq.lst([fq.pair(fq.nat(c), self._tab(tb)) for c, tb in sorted(t.items())])
        return "(mkTables %s %s %s %s)" % (d2(self.D), d2(self.Di), self._tab(self.L), self._tab(self.E))


# ---------------------------------------------------------------- encoders
def qopt(x):
    return fq.opt(x, fq.q)


def as_list(x):
    return [v for v in np.atleast_1d(x).tolist()]


def coq_method(m):
    return METHODS.get(str(m), "MUnknown")


def coq_closed(c):
    return CLOSED.get(str(c), "ClUnknown")


def coq_unit(u):
    return UNITS.get(str(u), "UUnknown")


def coq_params(P):
    g = lambda k: P.get(k, OMIT)
    none_if = lambda v: None if v is OMIT else v
    return "(mkParams %s %s %s %s %s %s %s %s %s %s %s %s %s)" % (
        fq.qlist(as_list(P["rmin"])), fq.qlist(as_list(P["rmax"])),
        fq.opt(none_if(g("unit")), coq_unit),
        qopt(none_if(g("rweight"))), fq.opt(none_if(g("resolution")), fq.z),
        qopt(none_if(g("zmin"))), qopt(none_if(g("zmax"))),
        fq.opt(none_if(g("num_bins")), fq.nat), fq.opt(none_if(g("method")), coq_method),
        fq.opt(none_if(g("edges")), fq.qlist), fq.opt(none_if(g("closed")), coq_closed),
        P.get("cosmology", Cos("omit")).coq(), fq.opt(none_if(g("max_workers")), fq.nat))


def coq_mods(M):
    def f(k, enc):
        return "None" if k not in M else "(Some %s)" % enc(M[k])
    return "(mkMods %s %s %s %s %s %s %s %s %s %s %s %s %s)" % (
        f("rmin", lambda v: fq.qlist(as_list(v))), f("rmax", lambda v: fq.qlist(as_list(v))),
        f("unit", coq_unit), f("rweight", qopt), f("resolution", lambda v: fq.opt(v, fq.z)),
        f("zmin", fq.q), f("zmax", fq.q), f("num_bins", fq.nat), f("method", coq_method),
        f("edges", fq.qlist), f("closed", coq_closed), f("cosmology", lambda c: c.coq()),
        f("max_workers", lambda v: fq.opt(v, fq.nat)))


def kwargs_of(P):
    kw = {}
    for k, v in P.items():
        if v is OMIT:
            continue
        if k == "cosmology":
            if v.kind == "omit":
                continue
            kw[k] = v.value()
        else:
            kw[k] = v
    return kw


EXN = {"ConfigError": "ExConfig", "ValueError": "ExValue", "TypeError": "ExType", "KeyError": "ExKey",
       "AttributeError": "ExAttr"}


class Obs:
    """outcome of one call on the implementation"""

    def __init__(self, conf=None, exc=None):
        self.conf, self.exc = conf, exc
        self.snap = snapshot(conf) if conf is not None else None

    @property
    def raised(self):
        return self.exc is not None

    def exn(self):
        return type(self.exc).__name__ if self.exc is not None else None

    def coq(self):
        if self.exc is not None:
            return "(ORaised %s)" % EXN.get(type(self.exc).__name__, "ExOther")
        return "(OOk %s)" % coq_snapshot(self.snap)

    def brief(self):
        if self.exc is not None:
            return "%s: %s" % (type(self.exc).__name__, str(self.exc)[:120])
        return dict(self.snap, edges=[float(x).hex() for x in self.snap["edges"]])


def snapshot(conf):
    """everything public of a configuration, as plain python values (copied)"""
    return dict(
        edges=[float(x) for x in np.array(conf.binning.edges, dtype=float, copy=True)],
        method=str(conf.binning.method), closed=str(conf.binning.closed),
        rmin=[x for x in np.atleast_1d(conf.scales.scales.scale_min).tolist()],
        rmax=[x for x in np.atleast_1d(conf.scales.scales.scale_max).tolist()],
        unit=str(conf.scales.unit), rweight=conf.scales.rweight, resolution=conf.scales.resolution,
        cosmo=cosmo_ident(conf.cosmology), workers=conf.max_workers)


def coq_snapshot(s):
    return "(mkConfig (mkScales %s %s %s %s %s) (mkBinning %s %s %s) %d%%nat %s)" % (
        fq.qlist(s["rmin"]), fq.qlist(s["rmax"]), coq_unit(s["unit"]), qopt(s["rweight"]),
        fq.opt(s["resolution"], fq.z), fq.qlist(s["edges"]), coq_method(s["method"]), coq_closed(s["closed"]),
        s["cosmo"], fq.opt(s["workers"], fq.nat))


def call(f):
    try:
        with warnings.catch_warnings():
            warnings.simplefilter("ignore")
            return Obs(conf=f())
    except Exception as e:  # noqa: BLE001 - the class of the exception is the observation
        return Obs(exc=e)


def do_create(P):
    from yaw import Configuration
    return call(lambda: Configuration.create(**kwargs_of(P)))


# ---------------------------------------------------------------- merge (mirror of Config.v:overlay)
def is_generated(P):
    return P.get("zmin", OMIT) not in (OMIT, None) and P.get("zmax", OMIT) not in (OMIT, None)


def effective(P):
    """(method, zmin, zmax, num_bins, edges) a configuration built from P stands for"""
    if is_generated(P):
        m = P.get("method", OMIT)
        nb = P.get("num_bins", OMIT)
        return ("linear" if m is OMIT else str(m), P["zmin"], P["zmax"], 30 if nb is OMIT else nb, None)
    e = P.get("edges", OMIT)
    if e in (OMIT, None):
        return (None, None, None, None, None)
    return ("custom", e[0], e[-1], len(e) - 1, list(e))


def merge(P, M):
    """create-arguments of the configuration modify(P-configuration, M) must equal"""
    out = {}
    for k in ("rmin", "rmax", "unit", "rweight", "resolution", "max_workers", "closed", "cosmology"):
        if k in M:
            out[k] = M[k]
        elif k in P:
            out[k] = P[k]
    meth, zmin, zmax, nb, edges = effective(P)
    if "edges" in M:
        out["edges"] = M["edges"]
        return out
    new_m = str(M["method"]) if "method" in M else meth
    if "method" in M and new_m == "custom":
        out.update(zmin=M.get("zmin", zmin), zmax=M.get("zmax", zmax), method="custom")   # refused
        return out
    if new_m == "custom":
        out["edges"] = edges
        return out
    out.update(zmin=M.get("zmin", zmin), zmax=M.get("zmax", zmax), num_bins=M.get("num_bins", nb), method=new_m)
    return out


def cos_of(P):
    return P.get("cosmology", Cos("omit"))


# ---------------------------------------------------------------- case builders
class Run:
    def __init__(self, ctx):
        self.ctx = ctx
        self.oracle = Oracle()
        self.cases = {k: [] for k in ("create", "modify", "eq", "roundtrip", "angle")}
        self.base_cache = {}

    # -- tables a create from P may consult
    def tables_for(self, tb, P, idents=None):
        meth, zmin, zmax, nb, _ = effective(P)
        ids = set(idents or [])
        ids.add(cos_of(P).ident())
        for i in ids:
            tb.need(i, meth, zmin, zmax, nb)

    def grid_values(self, P, obs):
        """f(zmin), f(zmax), f(edges) for the grid flag, f from the RESULTING configuration"""
        if obs.raised or not is_generated(P):
            return 0.0, 0.0, []
        s = obs.snap
        try:
            if s["method"] == "comoving":
                c = s["cosmo"]
                return (self.oracle.D(c, P["zmin"]), self.oracle.D(c, P["zmax"]),
                        [self.oracle.D(c, e) for e in s["edges"]])
            if s["method"] == "logspace":
                return (float(np.log(1.0 + P["zmin"])), float(np.log(1.0 + P["zmax"])),
                        [float(np.log(1.0 + e)) for e in s["edges"]])
            return float(P["zmin"]), float(P["zmax"]), list(s["edges"])
        except Exception:
            return 0.0, 0.0, []

    def add_create(self, P, tag, expect_invalid=None):
        ctx = self.ctx
        obs = do_create(P)
        tb = Tables(self.oracle)
        self.tables_for(tb, P)
        flo, fhi, fv = self.grid_values(P, obs)
        term = "c15_create_case %s %s %s %s %s %s" % (tb.coq(), coq_params(P), obs.coq(), fq.q(flo), fq.q(fhi),
                                                     fq.qlist(fv))
        immut = None
        if not obs.raised:
            immut = immutable_probe(obs.conf)
        self.cases["create"].append(dict(term=term, P=P, obs=obs, tag=tag, expect_invalid=expect_invalid,
                                         immut=immut))
        ctx.count(key=("create", canon(P)), nontrivial=is_generated(P) or obs.raised,
                  kind="create/%s/%s" % (effective(P)[0], "raised" if obs.raised else "ok"))
        ctx.sample(dict(kind="create", args=show(P), observed=obs.brief()), limit=4)
        return obs

    def add_modify(self, P, M, tag):
        ctx = self.ctx
        o_create = do_create(P)
        if o_create.raised:
            return
        conf = o_create.conf
        mk = {k: (v.value() if k == "cosmology" else v) for k, v in M.items()}
        o_mod = call(lambda: conf.modify(**mk))
        o_after = Obs(conf=conf)
        merged = merge(P, M)
        o_fresh = do_create(merged)
        tb = Tables(self.oracle)
        self.tables_for(tb, P)
        extra = {0, cos_of(P).ident()}
        if "cosmology" in M:
            extra.add(M["cosmology"].ident())
        self.tables_for(tb, merged, idents=[i for i in extra if i is not None])
        term = "c15_modify_case %s %s %s %s %s %s %s" % (tb.coq(), coq_params(P), coq_mods(M), o_create.coq(),
                                                        o_mod.coq(), o_after.coq(), o_fresh.coq())
        self.cases["modify"].append(dict(term=term, P=P, M=M, merged=merged, o_create=o_create, o_mod=o_mod,
                                         o_after=o_after, o_fresh=o_fresh, tag=tag))
        ctx.count(key=("modify", canon(P), canon(M)), nontrivial=True,
                  kind="modify/%s/%d-param" % (effective(P)[0], len(M)))
        for k in M:
            ctx.bump("modified:" + k)
        ctx.sample(dict(kind="modify", args=show(P), mods=show(M), observed=o_mod.brief()), limit=4)

    def add_eq(self, PA, PB, same, tag):
        from yaw import Configuration  # noqa: F401
        a, b = do_create(PA), do_create(PB)
        if a.raised or b.raised:
            return
        msg = ""
        try:
            r = (a.conf == b.conf)
            o, oc = ("true" if r else "false"), ("EqTrue" if r else "EqFalse")
        except Exception as e:  # noqa: BLE001
            o, oc = type(e).__name__, "(EqRaised %s)" % EXN.get(type(e).__name__, "ExOther")
            msg = str(e)
        tb = Tables(self.oracle)
        self.tables_for(tb, PA)
        self.tables_for(tb, PB)
        term = "c15_eq_case %s %s %s %s %s" % (tb.coq(), coq_params(PA), coq_params(PB), fq.b(same), oc)
        self.cases["eq"].append(dict(term=term, PA=PA, PB=PB, same=same, outcome=o, message=msg, tag=tag))
        self.ctx.count(key=("eq", canon(PA), canon(PB)), nontrivial=True, kind="eq/%s" % ("same" if same else "differ"))

    def add_roundtrip(self, P, tag):
        from yaw import Configuration
        o_create = do_create(P)
        if o_create.raised:
            return
        conf = o_create.conf
        o_rt = call(lambda: Configuration.from_dict(conf.to_dict()))
        tb = Tables(self.oracle)
        self.tables_for(tb, P)
        if not o_create.raised:
            s = o_create.snap
            tb.need(s["cosmo"], s["method"], s["edges"][0], s["edges"][-1], len(s["edges"]) - 1)
        term = "c15_roundtrip_case %s %s %s %s" % (tb.coq(), coq_params(P), o_create.coq(), o_rt.coq())
        self.cases["roundtrip"].append(dict(term=term, P=P, o_create=o_create, o_rt=o_rt, tag=tag))
        self.ctx.count(key=("roundtrip", canon(P)), nontrivial=True, kind="roundtrip/%s" % effective(P)[0])

    def add_angle(self, unit, rmin, rmax, z, ident, tag, via_config=True):
        """get_angle_radian(z, cosmology) of the scales of a configuration (or of a bare ScalesConfig
        when the cosmology cannot be put into a Configuration)"""
        from yaw import Configuration
        from yaw.config import ScalesConfig
        cos = cosmo_object(ident)
        try:
            if via_config:
                name = cos if ident == CUSTOM_ID else [k for k, v in COSMO_NAMES.items() if v == ident][0]
                conf = Configuration.create(rmin=rmin, rmax=rmax, unit=unit, zmin=0.25, zmax=0.5, num_bins=1,
                                            cosmology=name)
                amin, amax = conf.scales.scales.get_angle_radian(z, cosmology=conf.cosmology)
                used = cosmo_ident(conf.cosmology)
            else:
                sc = ScalesConfig.create(rmin=rmin, rmax=rmax, unit=unit)
                amin, amax = sc.scales.get_angle_radian(z, cosmology=cos)
                used = ident
        except Exception as e:  # noqa: BLE001
            self.ctx.fail("c15-angle-raises:%s" % type(e).__name__,
                          "get_angle_radian raised %s for unit %s" % (type(e).__name__, unit),
                          dict(unit=unit, rmin=rmin, rmax=rmax, z=z, cosmology=ident,
                               traceback=traceback.format_exc()[-1200:]))
            return
        rs = as_list(rmin) + as_list(rmax)
        ang = [float(x) for x in np.atleast_1d(amin)] + [float(x) for x in np.atleast_1d(amax)]
        DA, DC = self.oracle.DA(used, z), self.oracle.D(used, z)
        term = "c15_angle_case %s %s %s %s %s %s" % (coq_unit(unit), fq.q(float(np.pi / 180.0)), fq.q(DA), fq.q(DC),
                                                    fq.qlist(rs), fq.qlist(ang))
        self.cases["angle"].append(dict(term=term, unit=unit, rmin=rmin, rmax=rmax, z=z, cosmology=ident,
                                        angles=[a.hex() for a in ang], DA=DA, DC=DC, tag=tag))
        self.ctx.count(key=("angle", unit, repr(rmin), repr(rmax), z, ident, via_config), nontrivial=True,
                       kind="angle/%s/cos%d" % (unit, ident))


    def add_angle_fresh(self, unit, rmin, rmax, z, H0, Om0, tag):
        """the same conversion with a short-lived cosmology object (a parameter scan creates and drops
        many of them; nothing may be remembered per object identity)"""
        import gc
        from astropy.cosmology import FlatLambdaCDM
        from yaw import Configuration
        cos = FlatLambdaCDM(H0=H0, Om0=Om0)
        try:
            conf = Configuration.create(rmin=rmin, rmax=rmax, unit=unit, zmin=0.25, zmax=0.5, num_bins=1, cosmology=cos)
            amin, amax = conf.scales.scales.get_angle_radian(z, cosmology=conf.cosmology)
        except Exception as e:  # noqa: BLE001
            self.ctx.fail("c15-angle-raises:%s" % type(e).__name__, "get_angle_radian raised %s for unit %s with a FlatLambdaCDM object"
                          % (type(e).__name__, unit), dict(unit=unit, rmin=rmin, rmax=rmax, z=z, H0=H0, Om0=Om0))
            return
        ref = FlatLambdaCDM(H0=H0, Om0=Om0)      # independent object with the same parameters = the oracle
        DA, DC = float(ref.angular_diameter_distance(float(z)).value), float(ref.comoving_distance(float(z)).value)
        rs = as_list(rmin) + as_list(rmax)
        try:
            ang = [float(x) for x in np.atleast_1d(amin)] + [float(x) for x in np.atleast_1d(amax)]
        except Exception as e:  # noqa: BLE001
            self.ctx.fail("c15-angle-not-a-number", "get_angle_radian with a short-lived FlatLambdaCDM object returned %r (%s): a value "
                          "remembered from an earlier, unrelated cosmology object?" % (amin, type(e).__name__),
                          dict(unit=unit, rmin=rmin, rmax=rmax, z=z, H0=H0, Om0=Om0))
            return
        term = "c15_angle_case %s %s %s %s %s %s" % (coq_unit(unit), fq.q(float(np.pi / 180.0)), fq.q(DA), fq.q(DC),
                                                    fq.qlist(rs), fq.qlist(ang))
        self.cases["angle"].append(dict(term=term, unit=unit, rmin=rmin, rmax=rmax, z=z, cosmology="FlatLambdaCDM(H0=%s, Om0=%s)" % (H0, Om0),
                                        angles=[a.hex() for a in ang], DA=DA, DC=DC, tag=tag))
        self.ctx.count(key=("angle-fresh", unit, repr(rmin), repr(rmax), z, H0, Om0), nontrivial=True, kind="angle-fresh/%s" % unit)
        del cos, conf, ref
        gc.collect()


def canon(d):
    return tuple(sorted((k, repr(v.key()) if isinstance(v, Cos) else repr(v)) for k, v in d.items()))


def show(d):
    return {k: (repr(v) if isinstance(v, Cos) else v) for k, v in d.items()}


def immutable_probe(conf):
    """names of the objects whose attributes could be assigned (must be none)"""
    bad = []
    for name, obj, attr in (("Configuration", conf, "max_workers"), ("ScalesConfig", conf.scales, "rweight"),
                            ("BinningConfig", conf.binning, "method")):
        try:
            setattr(obj, attr, getattr(obj, attr))
            bad.append(name)
        except AttributeError:
            pass
        except Exception:  # noqa: BLE001
            bad.append(name + "?")
    return bad


# ---------------------------------------------------------------- generators
def gen_scales(rng, multi=None):
    multi = rng.random() < 0.4 if multi is None else multi
    if multi:
        k = rng.choice([2, 3])
        lo = sorted(rng.sample([1.0, 2.5, 10.0, 50.0, 100.0, 128.0, 0.5], k))
        return [float(x) for x in lo], [float(x) * rng.choice([2.0, 4.0, 10.0]) for x in lo]
    a = rng.choice([0.5, 1.0, 2.5, 10.0, 100.0, 100, 128.0])
    b = a * rng.choice([2, 4.0, 10.0])
    if rng.random() < 0.3:
        return [a], [b]
    return a, b


def gen_base(rng, kind, idx):
    """create-arguments of one base configuration of the given binning kind"""
    P = {}
    P["rmin"], P["rmax"] = gen_scales(rng, multi=(idx % 3 == 1))
    units = list(UNITS) + [OMIT]
    u = units[(idx * 5 + rng.randrange(3)) % len(units)]
    if u is not OMIT:
        P["unit"] = u
    if rng.random() < 0.5:
        P["rweight"] = rng.choice([-1.0, 0.5, None])
    if rng.random() < 0.5:
        P["resolution"] = rng.choice([10, 50, None])
    c = [OMIT, "right", "left"][(idx + rng.randrange(2)) % 3]
    if c is not OMIT:
        P["closed"] = c
    cos = [Cos("omit"), Cos("name", "WMAP9"), Cos("obj", "WMAP9"), Cos("none"), Cos("name", "Planck15"),
           Cos("obj", "Planck13"), Cos("name", "WMAP9"), Cos("obj", "Planck15"), Cos("custom"),
           Cos("name", "WMAP9")][(idx + rng.randrange(3)) % 10]
    if cos.kind != "omit":
        P["cosmology"] = cos
    if rng.random() < 0.3:
        P["max_workers"] = rng.choice([2, 0, 4])
    if kind == "custom":
        n = rng.choice([2, 3, 4, 6])
        pts = sorted(rng.sample(range(0, 96), n))
        P["edges"] = [p / 32.0 for p in pts]
        if rng.random() < 0.3:
            P["method"] = "custom"
    else:
        if kind == "linear":
            n = rng.choice([1, 2, 3, 4, 5, 8, OMIT])
            nn = 30 if n is OMIT else n
            zmin = rng.choice([0.0, 1 / 32, 0.25, 0.5])
            step = rng.choice([1, 2, 3, 8]) / 64.0
            zmax = zmin + nn * step
        else:
            n = rng.choice([1, 2, 3, 4, 7, OMIT])
            zmin = rng.choice([1 / 128, 1 / 32, 0.125, 0.25, 0.5] + ([0.0] if kind == "logspace" else []))
            zmax = rng.choice([z for z in (0.75, 1.0, 1.25, 2.0, 3.0) if z > zmin])
        P["zmin"], P["zmax"] = zmin, zmax
        if n is not OMIT:
            P["num_bins"] = n
        if kind != "linear" or rng.random() < 0.5:
            P["method"] = kind
        if rng.random() < 0.1:
            P["edges"] = [0.0, 1.0, 2.0]     # ignored (with a warning) when zmin and zmax are given
    return P


def single_mods(rng, P):
    """every parameter of modify, set alone (valid and a few invalid values)"""
    meth, zmin, zmax, nb, edges = effective(P)
    rmin, rmax = as_list(P["rmin"]), as_list(P["rmax"])
    scal = lambda l: l if len(l) > 1 or isinstance(P["rmin"], list) else l[0]
    unit = P.get("unit", "kpc")
    out = [
        dict(rmin=scal([x / 2.0 for x in rmin])),
        dict(rmax=scal([x * 2.0 for x in rmax])),
        dict(rmin=scal(list(rmax))),                         # rmin >= rmax: refused
        dict(unit=rng.choice([u for u in UNITS if u != unit])),
        dict(unit="parsec"),
        dict(rweight=rng.choice([-2.0, 1.5])), dict(rweight=None),
        dict(resolution=rng.choice([5, 20])), dict(resolution=None),
        dict(zmin=max(0.0, zmin - 1 / 64) if zmin > 0 else 1 / 64),
        dict(zmax=zmax + 0.25),
        dict(zmin=zmax + 1.0),                               # zmin >= zmax: refused
        dict(num_bins=rng.choice([k for k in (1, 2, 3, 5, 6) if k != nb])),
        dict(method=rng.choice([m for m in ("linear", "comoving", "logspace") if m != meth])),
        dict(method="custom"), dict(method="quadratic"),
        dict(edges=[zmin + 1 / 64, zmin + 0.25, zmin + 1.0]),
        dict(edges=[0.5, 0.25]),                             # not increasing: refused
        dict(closed="left" if P.get("closed", "right") == "right" else "right"),
        dict(closed="both"),
        dict(cosmology=Cos("name", rng.choice([n for n in COSMO_NAMES if COSMO_NAMES[n] != cos_of(P).ident()]))),
        dict(cosmology=Cos("obj", rng.choice([n for n in COSMO_NAMES if COSMO_NAMES[n] != cos_of(P).ident()]))),
        dict(cosmology=Cos("none")),
        dict(cosmology=Cos("custom") if cos_of(P).kind != "custom" else Cos("obj", "WMAP9")),
        dict(cosmology=Cos("badname")), dict(cosmology=Cos("badtype")),
        dict(max_workers=rng.choice([3, 0])), dict(max_workers=None),
    ]
    return out


def double_mods(rng, P, k):
    meth, zmin, zmax, nb, edges = effective(P)
    other = [m for m in ("linear", "comoving", "logspace") if m != meth]
    othercos = [n for n in COSMO_NAMES if COSMO_NAMES[n] != cos_of(P).ident()]
    pool = [
        dict(zmin=zmin / 2.0 + 1 / 128, zmax=zmax + 0.5),
        dict(num_bins=rng.choice([2, 3, 5]), method=rng.choice(other)),
        dict(method=rng.choice(other), cosmology=Cos("obj", rng.choice(othercos))),
        dict(method="comoving", cosmology=Cos("name", rng.choice(othercos))),
        dict(closed="left", unit=rng.choice(list(UNITS))),
        dict(rmin=[0.25], rmax=[8.0]) if len(as_list(P["rmin"])) == 1 else dict(rmin=[0.25, 0.5], rmax=[8.0, 16.0]),
        dict(edges=[0.125, 0.25, 0.75, 1.5], closed="left"),
        dict(method="linear", zmin=zmin + 1 / 64),
        dict(method=rng.choice(other), zmax=zmax + 1.0),
        dict(cosmology=Cos("obj", rng.choice(othercos)), num_bins=rng.choice([2, 4])),
        dict(rweight=-0.5, resolution=25),
        dict(zmin=zmin + 1 / 64, closed="right"),
        dict(num_bins=3, rmax=[x * 4.0 for x in as_list(P["rmax"])] if isinstance(P["rmax"], list) else as_list(P["rmax"])[0] * 4.0),
        dict(unit=rng.choice(list(UNITS)), cosmology=Cos("name", rng.choice(othercos))),
        dict(edges=[0.25, 0.5], method="linear"),
        dict(max_workers=2, zmax=zmax + 0.125),
        dict(method="linear", num_bins=2),
    ]
    rng.shuffle(pool)
    return pool[:k]


def invalid_params(rng):
    base = dict(rmin=1.0, rmax=2.0, zmin=0.25, zmax=0.75, num_bins=2)
    cust = dict(rmin=1.0, rmax=2.0)
    out = []

    def add(tag, P):
        out.append((tag, P))
    add("neither", dict(rmin=1.0, rmax=2.0))
    add("zmin-only", dict(rmin=1.0, rmax=2.0, zmin=0.25))
    add("zmax-only", dict(rmin=1.0, rmax=2.0, zmax=0.25, method="comoving"))
    add("edges-equal", dict(cust, edges=[0.25, 0.5, 0.5]))
    add("edges-decreasing", dict(cust, edges=[0.5, 0.25]))
    add("edges-single", dict(cust, edges=[0.5]))
    add("edges-unsorted", dict(cust, edges=[0.125, 0.75, 0.5, 1.0], closed="left"))
    add("rmin-eq-rmax", dict(base, rmin=2.0))
    add("rmin-gt-rmax", dict(base, rmin=[1.0, 5.0], rmax=[2.0, 4.0]))
    add("scales-length", dict(base, rmin=[1.0, 2.0], rmax=[4.0]))
    add("method-unknown", dict(base, method="quadratic"))
    add("method-custom-with-zmin", dict(base, method="custom"))
    add("unit-unknown", dict(base, unit="parsec"))
    add("closed-unknown", dict(base, closed="both"))
    add("cosmology-unknown-name", dict(base, cosmology=Cos("badname")))
    add("cosmology-bad-type", dict(base, cosmology=Cos("badtype")))
    add("zmin-eq-zmax", dict(base, zmin=0.5, zmax=0.5))
    add("zmin-gt-zmax", dict(base, zmin=0.75, zmax=0.25))
    add("zmin-gt-zmax-comoving", dict(base, zmin=0.75, zmax=0.25, method="comoving", cosmology=Cos("name", "WMAP9")))
    add("zmin-eq-zmax-logspace", dict(base, zmin=0.5, zmax=0.5, method="logspace"))
    add("num-bins-0", dict(base, num_bins=0))
    add("num-bins-0-logspace", dict(base, num_bins=0, method="logspace"))
    return out


# ---------------------------------------------------------------- deterministic probes of the known findings
def probes(run):
    lin = dict(rmin=100.0, rmax=1000.0, zmin=0.25, zmax=1.25, num_bins=4)
    # F14
    run.add_eq(lin, dict(lin), True, "probe-F14")
    # F15
    com = dict(lin, method="comoving", cosmology=Cos("name", "WMAP9"))
    run.add_modify(com, dict(rmin=200.0), "probe-F15")
    run.add_modify(dict(lin, method="comoving"), dict(cosmology=Cos("name", "WMAP9")), "probe-F15-name")
    # F20
    cus = dict(rmin=100.0, rmax=1000.0, edges=[0.25, 0.5, 1.0], closed="left")
    run.add_modify(cus, dict(closed="right"), "probe-F20")
    # F19
    run.add_create(dict(lin, method="comoving"), "probe-F19-comoving")
    run.add_create(dict(rmin=100.0, rmax=1000.0, zmin=0.0, zmax=1.0, num_bins=3, method="logspace"), "probe-F19-logspace")
    # new: dictionary round trip of custom edges; custom cosmology; comoving from zmin = 0
    run.add_roundtrip(cus, "probe-roundtrip-custom")
    run.add_create(dict(lin, cosmology=Cos("custom")), "probe-custom-cosmology")
    run.add_create(dict(lin, method="comoving", cosmology=Cos("custom")), "probe-custom-cosmology-comoving")
    run.add_modify(dict(lin, method="comoving", cosmology=Cos("custom")), dict(num_bins=2), "probe-custom-cosmology-modify")
    run.add_modify(dict(lin, method="comoving"), dict(cosmology=Cos("custom")), "probe-custom-cosmology-modify-to")
    run.add_modify(dict(rmin=100.0, rmax=1000.0, zmin=0.0, zmax=1.0, num_bins=3), dict(method="comoving"), "probe-comoving-zmin0-modify")
    run.add_create(dict(rmin=100.0, rmax=1000.0, zmin=0.0, zmax=1.0, num_bins=3, method="comoving"), "probe-comoving-zmin0")
    custom_cosmology_factory_probe(run.ctx)


def custom_cosmology_factory_probe(ctx):
    """BinningConfig.create(method=comoving, cosmology=<CustomCosmology>) - the level below
    Configuration, where a custom cosmology can be handed over at all"""
    from yaw.config import BinningConfig
    try:
        with warnings.catch_warnings():
            warnings.simplefilter("ignore")
            b = BinningConfig.create(zmin=0.25, zmax=1.25, num_bins=4, method="comoving", cosmology=custom_cosmology())
        e = [float(x) for x in b.edges]
        # D_C = 3000 z: the comoving grid is the linear grid
        want = [0.25, 0.5, 0.75, 1.0, 1.25]
        if len(e) != 5 or any(abs(a - w) > 1e-6 for a, w in zip(e, want)):
            ctx.fail("c15-custom-cosmology-comoving-edges", "comoving edges for a custom cosmology with D_C = 3000 z "
                     "are not the linear grid: %s" % e, dict(edges=e))
        ctx.count(key=("factory-custom",), nontrivial=True, kind="factory/custom-cosmology/ok")
    except Exception as ex:  # noqa: BLE001
        ctx.count(key=("factory-custom",), nontrivial=True, kind="factory/custom-cosmology/raised")
        ctx.fail("c15-custom-cosmology-comoving-%s" % type(ex).__name__.lower(),
                 "BinningConfig.create(method='comoving', cosmology=<CustomCosmology returning floats>) raised %s: %s"
                 % (type(ex).__name__, str(ex)[:200]),
                 dict(call="BinningConfig.create(zmin=0.25, zmax=1.25, num_bins=4, method='comoving', "
                           "cosmology=CustomCosmology subclass with D_C = 3000 z)",
                      traceback=traceback.format_exc()[-1200:]))


# ---------------------------------------------------------------- translator for _compute_angle
class Sym:
    def __init__(self, e):
        self.e = e

    @staticmethod
    def lit(o):
        if isinstance(o, Sym):
            return o.e
        return fq.q(float(o))

    def __truediv__(self, o):
        return Sym("(%s / %s)" % (self.e, Sym.lit(o)))

    def __rtruediv__(self, o):
        return Sym("(%s / %s)" % (Sym.lit(o), self.e))

    def __mul__(self, o):
        return Sym("(%s * %s)" % (self.e, Sym.lit(o)))

    __rmul__ = __mul__

    def deg2rad(self):          # numpy calls the method of the same name on object arrays
        return Sym("(%s * pi180)" % self.e)


class SymCosmology:
    def angular_diameter_distance(self, z):
        return Sym("DA")

    def comoving_distance(self, z):
        return Sym("DC")


def trace_obligations(ctx):
    from yaw.cosmology import new_scales
    lemmas, status = [], {}
    for u, cu in UNITS.items():
        try:
            sc = new_scales(1.0, 2.0, unit=u)
            out = sc._compute_angle(np.array([Sym("r")], dtype=object), 0.5, SymCosmology())
            expr = np.atleast_1d(out)[0]
            expr = expr.e if isinstance(expr, Sym) else None
        except Exception as e:  # noqa: BLE001
            expr = None
            status[u] = "trace-unavailable: %s" % type(e).__name__
        if expr is None:
            status.setdefault(u, "trace-unavailable")
            continue
        status[u] = expr
        lemmas.append((u, "Lemma trace_%s : forall r pi180 DA DC : Q, ~ DA == 0 -> ~ DC == 0 ->\n"
                          "  %s == angle_spec %s pi180 DA DC r.\n"
                          "Proof. intros r pi180 DA DC HA HC. unfold angle_spec, unit_factor, unit_dist. "
                          "field; auto. Qed.\n" % (cu, expr, cu)))
    ctx.extra["trace_status"] = status
    for u, lem in lemmas:
        path = os.path.join(ctx.workdir, "Trace_C15_%s.v" % UNITS[u])
        with open(path, "w") as f:
            f.write(HEADER + "\n" + lem)
        rc, out = coqrun.coqc_file(path, 120)
        ctx.obligation("trace:_compute_angle[%s] = r * factor / D" % u, rc == 0,
                       "traced expression: %s\n%s" % (status[u], out[-1500:]))
        if rc != 0:
            ctx.bump("trace_lemma_failed")
    return status


# ---------------------------------------------------------------- interpretation
def edges_rel_diff(a, b):
    if len(a) != len(b):
        return float("inf")
    return max([abs(x - y) / max(abs(y), 1e-300) if x != y else 0.0 for x, y in zip(a, b)] or [0.0])


def classify_modify(c):
    """structural signature of a modify that is not create(merged), from what was observed"""
    P, M, o = c["P"], c["M"], c["o_mod"]
    meth = effective(P)[0]
    mg = c["merged"]
    new_meth = str(mg.get("method", "custom" if "edges" in mg else "linear"))
    ex = o.exn()
    if ex == "KeyError" and meth == "custom" and "edges" not in M:
        return "c15-modify-closed-custom-edges-keyerror"
    if ex == "AttributeError" and "cosmology" in M and M["cosmology"].kind in ("name", "badname") and new_meth == "comoving":
        return "c15-modify-cosmology-str-attributeerror"
    if ex == "TypeError" and "cosmology" in M and M["cosmology"].kind == "custom":
        return "c15-custom-cosmology-typeerror"
    if ex == "CosmologyError" and new_meth == "comoving" and mg.get("zmin") == 0.0:
        return "c15-comoving-zmin0-cosmologyerror"
    if ex is None and not c["o_fresh"].raised:
        got, want = o.snap, c["o_fresh"].snap
        same_rest = all(got[k] == want[k] for k in got if k != "edges")
        if same_rest and new_meth == "comoving" and "cosmology" not in M and cos_of(P).ident() not in (0, None) \
                and "edges" not in M:
            # the edges create() gives for the merged parameters with the DEFAULT cosmology
            dflt = do_create({k: v for k, v in mg.items() if k != "cosmology"})
            if not dflt.raised and edges_rel_diff(got["edges"], dflt.snap["edges"]) < 1e-6 \
                    and edges_rel_diff(got["edges"], want["edges"]) >= 1e-6:
                return "c15-modify-drops-cosmology"
        if same_rest and meth in ("comoving", "logspace") and is_generated(P):
            e = c["o_create"].snap["edges"]
            if (e[0] != P["zmin"] or e[-1] != P["zmax"]) and edges_rel_diff(got["edges"], want["edges"]) < 1e-6:
                return "c15-edges-span-%s" % meth      # modify starts from the drifted end points
    return "c15-modify-differs-from-create:%s" % (ex or "value")


def interpret(run, codes):
    ctx = run.ctx
    # ---- create
    for i, (c, code) in enumerate(zip(run.cases["create"], codes["create"])):
        cid = ("create", i)
        P, obs = c["P"], c["obs"]
        replay = dict(kind="create", args=show(P), observed=obs.brief(), tag=c["tag"])
        if c["immut"]:
            ctx.fail("c15-immutable-setattr", "attributes of %s can be assigned" % c["immut"], replay, case=cid)
        if code is None:
            continue
        meth = effective(P)[0]
        failed = False
        if code & 4:
            failed = True
            ctx.fail("c15-edges-len", "create(num_bins=n) does not give n + 1 edges (%s, got %d edges)"
                     % (meth, len(obs.snap["edges"])), replay, case=cid)
        if code & 8:
            failed = True
            ctx.fail("c15-edges-not-increasing", "created configuration has edges that are not strictly increasing",
                     replay, case=cid)
        if code & 16:
            failed = True
            e = obs.snap["edges"]
            ctx.fail("c15-edges-span-%s" % meth,
                     "%s edges do not span [zmin, zmax] exactly: zmin=%s first=%s, zmax=%s last=%s"
                     % (meth, float(P["zmin"]).hex(), e[0].hex(), float(P["zmax"]).hex(), e[-1].hex()), replay, case=cid)
        if code & 32:
            failed = True
            ctx.fail("c15-invalid-accepted:%s" % c["tag"], "invalid parameters (%s) are accepted" % c["tag"], replay, case=cid)
        if code & 64:
            failed = True
            ex = obs.exn()
            if cos_of(P).kind == "custom" and ex == "TypeError":
                sig = "c15-custom-cosmology-typeerror"
            elif ex == "CosmologyError" and meth == "comoving" and P.get("zmin") == 0.0:
                sig = "c15-comoving-zmin0-cosmologyerror"
            else:
                sig = "c15-valid-rejected:%s" % ex
            ctx.fail(sig, "valid parameters are refused with %s" % obs.brief(), replay, case=cid)
        if code & 128:
            failed = True
            ctx.fail("c15-edges-grid-%s" % meth, "%s edges are not the linear grid in the method's distance measure "
                     "of the configured cosmology" % meth, replay, case=cid)
        if c["expect_invalid"] and not obs.raised and not (code & 32):
            ctx.disagree("Cases_C15_create", cid, dict(note="generator marks the parameters invalid, model does not", replay=replay))
        if (code & 1) and ((code & 2) or not failed):
            ctx.disagree("Cases_C15_create", cid, dict(code=code, replay=replay))
        if not (code & 16) and is_generated(P) and not obs.raised and meth in ("comoving", "logspace"):
            ctx.bump("span_exact:" + meth)
    # ---- modify
    for i, (c, code) in enumerate(zip(run.cases["modify"], codes["modify"])):
        cid = ("modify", i)
        replay = dict(kind="modify", args=show(c["P"]), mods=show(c["M"]), merged=show(c["merged"]),
                      modify=c["o_mod"].brief(), create_merged=c["o_fresh"].brief(), original_after=c["o_after"].brief(),
                      tag=c["tag"])
        if code is None:
            continue
        if code & 32:
            ctx.disagree("Cases_C15_modify(base create)", cid, dict(code=code, replay=replay))
            continue
        if code & 16:
            ctx.obligation("instance of modify_is_create_merge on case %d" % i, False, repr(replay))
        if code & 4:
            ctx.fail("c15-modify-mutates-original", "the original configuration changed during modify(%s)"
                     % ", ".join(sorted(c["M"])), replay, case=cid)
        if code & 1:
            sig = classify_modify(c)
            if code & 2:
                ctx.bump("modify_agrees_with_neither_model")
                if sig.startswith("c15-modify-differs-from-create:"):
                    ctx.disagree("Cases_C15_modify", cid, dict(code=code, replay=replay))
            else:
                ctx.bump("modify_agrees_with_pinned_commit_model_only")
            ctx.fail(sig, "modify(%s) on a %s configuration is not create(merged parameters): modify -> %s ; create -> %s"
                     % (", ".join("%s=%r" % kv for kv in sorted(show(c["M"]).items())), effective(c["P"])[0],
                        short(c["o_mod"]), short(c["o_fresh"])), replay, case=cid)
        elif code & 8:
            ctx.fail("c15-modify-differs-from-create:impl", "modify(%s) and create(merged parameters) of the "
                     "implementation differ" % ", ".join(sorted(c["M"])), replay, case=cid)
        if not (code & 1):
            ctx.bump("modify_equals_create")
    # ---- eq
    for i, (c, code) in enumerate(zip(run.cases["eq"], codes["eq"])):
        cid = ("eq", i)
        replay = dict(kind="eq", a=show(c["PA"]), b=show(c["PB"]), outcome=c["outcome"], message=c["message"], tag=c["tag"])
        if code is None:
            continue
        if code & 1:
            if c["outcome"] == "AttributeError" and "rbin_num" in c.get("message", ""):
                sig = "c15-eq-attributeerror-rbin_num"
            else:
                sig = "c15-eq-wrong:%s" % c["outcome"]
                ctx.disagree("Cases_C15_eq", cid, dict(code=code, replay=replay))
            ctx.fail(sig, "== of two configurations built from %s parameters gives %s"
                     % ("the same" if c["same"] else "different", c["outcome"]), replay, case=cid)
        elif code & 4:
            ctx.fail("c15-eq-equal-params-unequal", "configurations with equal parameters do not compare equal", replay, case=cid)
    # ---- roundtrip
    for i, (c, code) in enumerate(zip(run.cases["roundtrip"], codes["roundtrip"])):
        cid = ("roundtrip", i)
        P = c["P"]
        meth = effective(P)[0]
        replay = dict(kind="roundtrip", args=show(P), created=c["o_create"].brief(), restored=c["o_rt"].brief(), tag=c["tag"])
        if code is None:
            continue
        if code & 1:
            if meth == "custom" and c["o_rt"].exn() == "ConfigError":
                sig = "c15-roundtrip-custom-edges-configerror"
            else:
                sig = "c15-roundtrip-differs:%s" % (c["o_rt"].exn() or "value")
                ctx.disagree("Cases_C15_roundtrip", cid, dict(code=code, replay=replay))
            ctx.fail(sig, "from_dict(to_dict()) of a %s configuration gives %s" % (meth, short(c["o_rt"])), replay, case=cid)
        elif cos_of(P).kind == "custom" and c["o_rt"].exn() == "ConfigError":
            # to_dict refuses custom cosmologies (documented; premise cosmo_named of roundtrip_id)
            ctx.bump("roundtrip_refused_custom_cosmology")
        elif code & 4:
            ctx.fail("c15-roundtrip-differs:value", "from_dict(to_dict()) changes the configuration", replay, case=cid)
        elif code & 8:
            e = c["o_create"].snap["edges"]
            inexact = is_generated(P) and (e[0] != P["zmin"] or e[-1] != P["zmax"])
            if meth in ("comoving", "logspace") and inexact:
                ctx.bump("roundtrip_changes_edges_bits_because_span_inexact:" + meth)
            else:
                ctx.fail("c15-roundtrip-changes-edges", "from_dict(to_dict()) changes bin edges (%s)" % meth, replay, case=cid)
    # ---- angle
    for i, (c, code) in enumerate(zip(run.cases["angle"], codes["angle"])):
        cid = ("angle", i)
        replay = {k: v for k, v in c.items() if k != "term"}
        if code is None:
            continue
        if code & 3:
            ctx.fail("c15-angle-%s" % c["unit"], "get_angle_radian for unit %s is not r * factor / D(z) of the "
                     "configured cosmology" % c["unit"], replay, case=cid)
        if code & 4:
            ctx.fail("c15-deg2rad-factor", "the factor of np.deg2rad is not pi/180", replay, case=cid)


def short(o):
    if o.raised:
        return "%s" % type(o.exc).__name__
    s = o.snap
    return "%s edges %s.. cosmology %s" % (s["method"], [round(x, 9) for x in s["edges"][:3]], s["cosmo"])


# ---------------------------------------------------------------- entry points
def build_cases(ctx, run):
    rng = ctx.rng
    probes(run)
    kinds = ["linear", "comoving", "logspace", "custom"]
    nbase = ctx.n(12, 112)
    ndouble = ctx.n(5, 8)
    bases = []
    for i in range(nbase):
        P = gen_base(rng, kinds[i % 4], i)
        bases.append(P)
    for i, P in enumerate(bases):
        obs = run.add_create(P, "base")
        if obs.raised:
            continue
        run.add_roundtrip(P, "base")
        singles = single_mods(rng, P)
        if not ctx.quick() and i >= 40:
            rng.shuffle(singles)
            singles = singles[:14]
        for M in singles:
            run.add_modify(P, M, "single")
        for M in double_mods(rng, P, ndouble):
            run.add_modify(P, M, "double")
        # == : same parameters (fresh objects), and one parameter changed at a time
        run.add_eq(P, dict(P), True, "same")
        vary = []
        meth, zmin, zmax, nb, edges = effective(P)
        vary.append(dict(P, rmax=[x * 2.0 for x in as_list(P["rmax"])] if isinstance(P["rmax"], list) else P["rmax"] * 2.0))
        vary.append(dict(P, unit="deg" if P.get("unit", "kpc") != "deg" else "rad"))
        vary.append(dict(P, rweight=3.0))
        vary.append(dict(P, resolution=7))
        vary.append(dict(P, closed="left" if P.get("closed", "right") == "right" else "right"))
        vary.append(dict(P, cosmology=Cos("name", "Planck13" if cos_of(P).ident() != 2 else "WMAP9")))
        vary.append(dict(P, cosmology=Cos("custom") if cos_of(P).kind != "custom" else Cos("none")))
        if meth == "custom":
            vary.append(dict(P, edges=list(edges) + [edges[-1] + 1.0]))
        else:
            vary.append(dict(P, zmax=zmax + 0.5))
        k = ctx.n(3, 4)
        rng.shuffle(vary)
        for PB in vary[:k]:
            run.add_eq(P, PB, False, "differ")
    for tag, P in invalid_params(rng):
        run.add_create(P, tag, expect_invalid=True)
    # angles: every unit x cosmology (through a Configuration), custom cosmology through ScalesConfig
    # from just above 0 (the low-redshift bins of C01) to beyond the turnover of the angular-diameter distance
    zs = [2.0 ** -10, 2.0 ** -8, 0.0625, 0.25, 0.5, 1.0, 2.0, 6.0] if ctx.quick() else \
        [2.0 ** -14, 2.0 ** -10, 2.0 ** -8, 2.0 ** -6, 0.0625, 0.25, 0.5, 0.75, 1.0, 2.0, 3.0, 6.0, 10.0]
    for ui, u in enumerate(UNITS):
        for ci, ident in enumerate([0, 1, 2]):
            reps = ctx.n(1, 4)
            for r in range(reps):
                rmin, rmax = gen_scales(rng, multi=((ui + ci + r) % 2 == 0))
                run.add_angle(u, rmin, rmax, rng.choice(zs), ident, "unit-x-cosmology")
        rmin, rmax = gen_scales(rng)
        run.add_angle(u, rmin, rmax, rng.choice(zs), CUSTOM_ID, "custom-cosmology", via_config=False)
        if ui % 2 == 0 or not ctx.quick():
            # through a Configuration; when a custom cosmology is refused there, that is reported
            # once by the create probe (c15-custom-cosmology-typeerror), not per unit
            if not do_create(dict(rmin=1.0, rmax=2.0, zmin=0.25, zmax=0.5, num_bins=1, cosmology=Cos("custom"))).raised:
                run.add_angle(u, rmin, rmax, rng.choice(zs), CUSTOM_ID, "custom-cosmology-config", via_config=True)


    # a scan over short-lived cosmology objects at one redshift (physical and comoving units)
    for u in ("kpc", "Mpc", "kpc/h", "Mpc/h"):
        for j in range(ctx.n(8, 30)):
            run.add_angle_fresh(u, 100.0, 1000.0, 0.5, 55.0 + 2.5 * j, 0.2 + 0.01 * j, "short-lived-cosmology")


def evaluate(ctx, run):
    codes = {}
    for kind in ("create", "modify", "eq", "roundtrip", "angle"):
        terms = [c["term"] for c in run.cases[kind]]
        codes[kind] = ctx.shards("Cases_C15_%s" % kind, HEADER, terms, shard=60) if terms else []
    interpret(run, codes)
    ctx.extra["cases"] = {k: len(v) for k, v in run.cases.items()}
    ctx.extra["hypotheses_checked"] = {
        "edges_span_endpoint_hypothesis (first = zmin and last = zmax, bit for bit) held":
            {k: v for k, v in ctx.hist.items() if k.startswith("span_exact")},
    }


def run(ctx):
    r = Run(ctx)
    trace_obligations(ctx)
    build_cases(ctx, r)
    ctx.log("cases: " + ", ".join("%s=%d" % (k, len(v)) for k, v in r.cases.items()))
    evaluate(ctx, r)


def replay(ctx, data):
    """re-run the case stored in a replay file (args are shown with repr; cosmologies as Cos(...))"""
    rp = data.get("replay", data)

    def unshow(d):
        out = {}
        for k, v in d.items():
            if isinstance(v, str) and v.startswith("Cos("):
                body = v[4:-1].split(",")
                out[k] = Cos(body[0], body[1] if len(body) > 1 else None)
            else:
                out[k] = v
        return out
    r = Run(ctx)
    kind = rp.get("kind")
    if kind == "create":
        r.add_create(unshow(rp["args"]), rp.get("tag", "replay"))
    elif kind == "modify":
        r.add_modify(unshow(rp["args"]), unshow(rp["mods"]), "replay")
    elif kind == "eq":
        r.add_eq(unshow(rp["a"]), unshow(rp["b"]), rp["a"] == rp["b"], "replay")
    elif kind == "roundtrip":
        r.add_roundtrip(unshow(rp["args"]), "replay")
    elif kind == "angle":
        r.add_angle(rp["unit"], rp["rmin"], rp["rmax"], rp["z"], rp["cosmology"], "replay",
                    via_config=rp.get("tag") != "custom-cosmology")
    else:
        probes(r)
    evaluate(ctx, r)
