"""C10 — redshift-bin membership follows the closed-side rule everywhere.

Tie: real catalogs are created with Catalog.from_dataframe (named patches), the trees are built
with Catalog.build_trees(edges, closed=...), and three consumers of the binning are observed:
  * yaw.catalog.trees.BinnedTrees(patch): per-bin num_records / sum_weights,
  * HistData.from_catalog(cat, BinningConfig | Configuration).data,
  * the per-bin, per-patch sum_weights stored in a measurement
    (autocorrelate / crosscorrelate -> CorrFunc.dd.sum_weights.sum_weights1).
All three are compared inside Coq (Model/Binning.v: c10_case) with the one spec `member`, with the
proved model (digitize based) and with each other, for redshifts drawn from
edges U midpoints U {below zmin, above zmax} (plus a few generic values), both closed sides,
weighted / unweighted, several patches, bins without objects, patches without an object inside
the binning.

Process boundary: the same cases are also run with the work done by WORKER PROCESSES, where every
object that carries the rule (Binning, BinningConfig, Configuration, inside the ParallelJob that
yaw sends with each task) is pickled before it is used:
  * 'real' flavour: max_workers >= 2 on the real multiprocessing pool (YAW_NUM_THREADS raised),
  * 'pickling' flavour: an in-process pool (harness/sim/pool.py FakePool subclassed here) that puts
    every task and result through multiprocessing's ForkingPickler, deterministic and cheap, so
    the exhaustive edge-value placements are run through it as well,
  * 'transport' flavour: the binning / configuration handed to BinnedTrees.build,
    HistData.from_catalog and autocorrelate went through pickle / ForkingPickler / copy / deepcopy /
    Binning.copy / a pickled ParallelJob first;
all are compared with the same Coq checker c10_case against the CONFIGURED closed side.  Besides,
the transports themselves (the three object types x pickle protocols 0-5, ForkingPickler, copy,
deepcopy, Binning.copy, ParallelJob args/kwargs, a real worker process: the worker's view and the
object sent back) and the binning that results report (tree cache, HistData, CorrFunc) are
compared on (closed, edges) in Coq (c10_transport_case; C10_member_determines_binning: nothing
less than equal closed side and edges keeps every redshift in its bin).

Measurements over several LINKED patches ('linked' family): the samples of one measurement (data and
randoms of autocorrelate; reference, unknown and their randoms of crosscorrelate) are separate
catalogs over the same patch centres that populate DIFFERENT (bin, patch) cells: cells empty in one
sample and populated in the partner, bins empty in every patch, patches populated in one bin only,
objects on edges and outside the binning; per-sample weight column; patch centres close enough that
patch pairs (i, j), i != j, are counted (complete, chain-like and absent linkage).  Every pair-count
container of the result (dd, dr, rd, rr) is observed on both sides (sum_weights1, sum_weights2) and
compared in Coq (c10_count_case) with the model of count_pairs (one write per patch pair result, in
the order of the linkage's pair sequence, last write wins: count_pairs_sw) and with the spec: the
closed-side rule applied to the objects of the column's patch alone (C10_count_pairs_member: for
every pair sequence, whatever the partners hold); a sample without binning (unknown side of a
cross-correlation) must report the patch total in every bin.  Serial, real worker processes and the
pickling pool with permuted order of arrival.

Histories of the tree cache ('history' family): the trees are cached per patch together with the binning they were built
with, and BinnedTrees.build decides per patch whether they can be kept, so the patches of ONE catalog may hold trees for
DIFFERENT binnings (or none) when the measured build is requested: BinnedTrees.build on a subset of the patches (first only,
last only, all but first / last, every second, a prefix, a random subset), Catalog.build_trees or a measurement run
interrupted after k rebuilds (fault injection into yaw.catalog.trees.build_trees), each with the other closed side, moved
inner edges, one bin more / fewer, a wider / narrower range or no binning, in sequences of one to four steps.  Then
Catalog.build_trees (forced or not), autocorrelate or crosscorrelate is run with the configured binning (serial, worker
processes, pickling pool) and the cache of EVERY patch (stored binning and per-bin num_records / sum_weights), HistData and
the measurement's sum_weights are compared in Coq (c10_cache_case) with the model of the cache (Model/Binning.v: patch_build,
cat_build, cat_build_intr, run_history: C10_cache_history_member holds for every history) and with the closed-side rule of the
requested binning; the cache before the measured build is compared with the model of the history.  In a cross-correlation the
catalog used WITHOUT binning has a history of its own (it served as a binned sample before) and must report the patch total in
every bin.  Redshifts are drawn from the edges / midpoints / outside values of the requested binning and of the binnings of
the history, i.e. where the binnings of one history disagree.

Extreme but legal sizes of the binning ('large' family): 1, 2, 3 bins, bin counts around 2^7, 2^8, 2^15 and 2^16 (the widths of the
integer types a bin index fits into), thousands and up to 10^5 bins; custom edge arrays and generated ones (zmin / zmax / num_bins,
linear); very narrow bins (2^-20) next to very wide ones (several units); objects in the first and the LAST bins, in the bins whose
index is around those powers of two, on their edges and midpoints, on the open outer edge and outside; one to three patches, with
and without weights, both closed sides; trees, histogram and (angular scales, so that no cosmology is evaluated per bin) the
measurement's sum_weights, serial and on the worker / pickling pools.  The edges are described as (lo, [(step, count)]) and built
inside Coq (seg_edges: C10_seg_edges_valid), the observations are handed over sparsely (number of bins reported + the bins that are
not empty) and compared in Coq (c10_big_case) with the model of build_trees (np.digitize evaluated by skipping chunks of edges:
C10_chunked_digitize) and with the closed-side rule evaluated directly on the listed bins; C10_big_case_sound: code 0 means that
ALL bins, listed or not, hold what the rule says.

Binnings that are NEARLY but not exactly equal ('near' family): the same binning obtained on different construction routes - decimal
edges typed by hand, np.linspace, the edges the implementation generates itself (linear / comoving / logspace), zmin + k * step, repeated
addition, np.arange, text with 16 / 15 / 12 / 9 significant digits or 6 decimals read back, float32 values widened, single edges moved by
1 ... 8 units in the last place (np.nextafter) - same closed side, same number of bins, edge arrays that differ from one unit in the last
place up to about 10^-6 relative.  Redshifts sit exactly on every variant of a contested edge, on the floats next to them and between them
(incl. two-decimal catalog values that coincide with a typed edge), so membership under two variants differs.  Histories of the cache whose
binnings are such variants of the requested one (trees built for A explicitly or implicitly by a measurement, chains A, C, back and forth B,
A, partial and interrupted rebuilds), then Catalog.build_trees WITHOUT force / autocorrelate / crosscorrelate with B: the cache of every
patch, HistData and the measurement's sum_weights are compared by the history checker c10_cache_case (whose cache model compares binnings
EXACTLY) with the closed-side rule of the binning requested NOW, on the exact rational values of the float64 edges and redshifts.  The
comparison itself is observed as well: Binning / BinningConfig / Configuration == and !=, BinnedTrees.binning_equal on trees cached for the
first binning, for all ordered pairs of variants (and the same array twice, and the other closed side), compared in Coq (c10_eq_case) with
the exact comparison binning_eqb.  Model/BinningEq.v, Proofs/BinningEqP.v: the cache decision with the comparison as a parameter;
C10_cache_comparison_sufficient / C10_cache_comparison_exact_only: the cache is correct for every patch exactly when `equal` implies
exactly equal closed side and edges; C10_tolerant_equality_refuted: every np.allclose-like comparison with a positive tolerance accepts two
valid binnings that put a redshift on an edge into different bins.

Calls that only LOOK, made between two measurements with the same configuration object ('look' family, harness/props/c10_looks.py):
create the configuration, measure (HistData, autocorrelate, crosscorrelate), then a random sequence of library calls on the results, on
the configuration and on what they hand out - plot with every style / xoffset / indicate_zero / scale_dz / ax / colour / label / plot_kwargs,
plot_corr (matplotlib, Agg), repr / str / format, len / iteration / indexing, == / != / is_compatible, the accessors .edges .mids .dz .left
.right .closed .zmin .zmax .num_bins (read; computed on out of place or on copies), to_dict / from_dict, to_file(s) and reading back,
copy / deepcopy / Binning.copy, pickle, get_centers, sample / sample_patch_sum / get_array, normalised, RedshiftData.from_corrfuncs /
from_corrdata, modify (and a histogram with the modified configuration), + - * of results - then build_trees / HistData.from_catalog /
autocorrelate / crosscorrelate with the SAME configuration object (same or fresh catalog).  Compared in Coq (Model/BinningLook.v:
c10_look_case, C10_look_case_sound) with the closed-side rule for the edges the configuration was CREATED with (the harness's own copy of the
numbers, never read back from the object) and with what the configuration reports afterwards (closed side, edges; bit patterns on the python
side as well).  Redshifts sit on the created edges and within (half) the shifts the arguments of the history could produce.  Model: a heap of
arrays, accessors that hand out the stored array / a view (alias) or a new array, in-place updates versus new arrays:
C10_look_copying_keeps_edges, C10_look_nowrite_keeps_edges, C10_look_safe_member (every later measurement uses the created edges),
C10_look_aliasing_refuted (for every binning, closed side and shift d > 0: `x = binning.edges; x += d`, also inside plot(style=step,
xoffset=d), moves the stored edges and a redshift of the first bin ends in no bin).
"""
import copy
import itertools
import multiprocessing
import pickle
import shutil
import traceback
from multiprocessing.reduction import ForkingPickler

import numpy as np

from lib import floatq as fq
from lib import impl
from sim import pool as simpool

ALLOWED_AXIOMS = []
TRUSTED = [
    "numpy kernels np.digitize / np.histogram / ndarray.sum and scipy KDTree construction are exercised, not verified; "
    "their documented semantics are what Model/Binning.v models (digitize: prefix of passing edges; histogram: inner bins [lo,hi), last bin [lo,hi])",
    "python-side membership (gen_member) is used only to shape generated inputs and to label the input distribution, never for a verdict",
    "worker processes: the real multiprocessing pool (fork) is run with 2-4 workers; the 'pickling' pool runs the tasks in the "
    "calling process and reproduces only what a pool does to tasks and results (ForkingPickler round trip), not the OS scheduling (C05); "
    "MPI (mpi4py absent) is not exercised",
    "history family: an interrupted catalog-wide build is produced by fault injection: the module-level function "
    "yaw.catalog.trees.build_trees, which BinnedTrees.build calls between removing the patch's binning file and writing the new trees, "
    "is replaced for that step by a wrapper that raises a BaseException at the (fuel+1)-th call (serial builds only); a process "
    "killed at another instruction of BinnedTrees.build is not reproduced (C07 / C18 territory)",
    "near family: python-side float comparisons (contested_values, rel_class, gen_member in label_history) shape the inputs and word the "
    "labels / reports; the verdicts are the Coq codes of c10_cache_case and c10_eq_case on the exact rational values",
    "large family: the per-bin observations (up to 10^5 trees / histogram entries / rows of sum_weights) are re-encoded by the harness as "
    "(number of entries, [(index, value) for the entries that are not (0, 0.0) resp. 0.0]) before they are handed to Coq (sparse_of); "
    "the float64 edge array handed to yaw is computed with exact integer arithmetic in units of 2^-20 and is the array seg_edges builds in Coq "
    "(same lo, steps and counts; every value is checked to be exactly representable); python-side expected values (expected_sparse) "
    "only word the report of a failure (which bins, which kind), the verdict is the Coq code",
    "look family: the call that changed the configured binning is named by comparing, on the python side, the bytes of the edges and "
    "the closed side the configuration reports before and after every call (this words the signature and the report); the verdict is "
    "the Coq code of c10_look_case on the exact rational values, and the final byte comparison with the harness's own copy of the numbers; "
    "matplotlib runs with the Agg backend (no display), what is drawn is not inspected; the what-if reading handed to Coq (which plotted "
    "results share memory with the configuration's edges: np.shares_memory; which style draws against the edges: 'step', HistData's default) "
    "is used for the wording of a failure only (flag 6 of c10_look_case)",
]
ASSUMPTIONS = [
    "redshifts, edges and weights are dyadic rationals with few bits, so every float64 sum is exact and is compared with Qeq_bool "
    "(near family: edges and redshifts are arbitrary float64 values, handed to Coq as their exact rational values; they are only compared, "
    "never added; the weights keep few bits)",
    "objects handed to the model are the input rows grouped by their named patch (C02: the catalog stores exactly these)",
    "patch ids are 0..P-1 (PatchedSumWeights indexes columns by patch id)",
    "linked family: every binned sample holds at least one object inside the binning in every patch (otherwise the pinned commit stops at "
    "the known build_trees defect c10-empty-patch-unboundlocal, probed separately) and at least two objects per patch, two of equal weight "
    "placed symmetrically about the patch centre and the others on it, so that the (weighted) patch centres of the samples coincide and the implementation's patch-consistency check accepts them; "
    "a refusal (InconsistentPatchesError) is counted, not reported, and more than 20% refusals break an obligation",
    "linked family: the pair sequence handed to the model is the one the implementation's PatchLinkage yields for the case "
    "(C10_count_pairs_schedule_free: the verdict does not depend on it as long as every patch occurs, which flag 4 of c10_count_case checks)",
    "history family: every patch holds an object inside the requested binning and inside every binning of the history (flag 8 of "
    "c10_cache_case, evaluated in Coq; otherwise the pinned commit stops at c10-empty-patch-unboundlocal); the steps of a history "
    "run serially, the measured build also on worker processes; Catalog.build_trees visits the patches in the order of their ids "
    "(the model of an interrupted build; checked through the observed cache before the measured build, flag 5)",
    "near family: every patch holds the midpoint of a bin of the reference variant, which lies strictly inside every variant (the variants "
    "agree to about six digits, the bins are at least 0.01 wide; flag 8 of c10_cache_case checks it); the edges the implementation generates "
    "itself (zmin / zmax / num_bins, linear / comoving / logspace) are INPUTS of the cases, whatever their values (C15 judges them)",
    "large family: for generated edges (zmin, zmax, num_bins, method linear) the case is evaluated when the edge array the implementation "
    "reports equals the exact linear edges lo + k * step (step a power of two); otherwise it is counted and skipped, and more than 20% "
    "skipped cases break an obligation; the measurement uses angular scales (unit arcmin), the per-bin sum_weights do not depend on the scales",
    "look family: every patch holds an object strictly inside the created binning; redshifts are the created edges, midpoints, outside values "
    "and the edges moved by (half) the x-offsets / factors the history uses (arbitrary float64 values handed to Coq exactly, only compared), "
    "weights have few bits; a call of the history that raises is counted (not a C10 failure) and more than 15% raising calls break an "
    "obligation; the harness never writes into an array handed out by the library (C10 does not promise anything about a caller who does): it "
    "computes out of place or on copies, so every change of the configured binning is the library's own doing; for edges generated by the "
    "implementation (zmin, zmax, num_bins, linear) the case is evaluated when the edges reported right after creation are the exact linear "
    "ones (otherwise counted and skipped, more than 20% skipped break an obligation; C15 judges generated edges)",
]
RULE = ("cases = (closed side, weight column present, edges, per-patch lists of (redshift, weight), consumers observed, "
        "where the work is done: serial / real worker processes / pickling pool / transported binning); "
        "distinct by that tuple; non-trivial when at least one redshift lies exactly on a bin edge or outside the binning "
        "(the inputs on which the closed-side rule, the outer-edge mask and the index filter 0 < i <= nbins matter); "
        "transport cases = (object type, transport, closed side, edges), all non-trivial; "
        "linked cases = (closed side, edges, patch centre gaps, auto / cross, per sample: weight column, per-patch (redshift, weight) lists, "
        "where the work is done), one evaluation per pair-count container; non-trivial when some counted patch pair joins, in some bin, "
        "a populated tree with an empty one (the inputs on which a per-bin sum could depend on the partner patch); "
        "history cases = (closed side, weight column, edges, per-patch (redshift, weight) lists, history of the cache: sequence of "
        "(per-patch builds on listed patches | catalog-wide build | build interrupted after k rebuilds, via build_trees / autocorrelate, "
        "force, binning), measured through build_trees(force) / autocorrelate / crosscorrelate, history of the unbinned catalog, where the "
        "work is done), one evaluation per catalog; non-trivial when, before the measured build, the patches of the catalog do not all "
        "hold trees for the requested binning (another binning, different binnings, or no trees in some patch); "
        "large cases = (closed side, weight column, lo, segments (step, count) of the edge array, custom / generated edges, per-patch "
        "(redshift, weight) lists, consumers observed, where the work is done); non-trivial when a redshift lies on a bin edge or outside "
        "the binning, or an object lies in a bin whose index is >= 127; "
        "near cases = history cases whose binnings are near-equal variants (construction routes) of the requested one, non-trivial as history "
        "cases; near-eq cases = (object type, closed sides, the two edge arrays), non-trivial when the two binnings are not the same")

HEADER = "From Verif Require Import Prelude Binning.\nOpen Scope Q_scope.\n"

SIG_F11 = "c10-hist-right-inner-edge"
SIG_F17 = "c10-empty-patch-unboundlocal"


# ---------------------------------------------------------------- generator helpers
def gen_member(closed, edges, b, z):
    lo, hi = edges[b], edges[b + 1]
    return (lo < z <= hi) if closed == "right" else (lo <= z < hi)


def gen_inside(closed, edges, z):
    return any(gen_member(closed, edges, b, z) for b in range(len(edges) - 1))


def critical_values(edges):
    """edges U midpoints U {below zmin, above zmax}: 2*nbins + 3 values"""
    mids = [(a + b) / 2.0 for a, b in zip(edges[:-1], edges[1:])]
    return [edges[0] - 0.125] + sorted(list(edges) + mids) + [edges[-1] + 0.25]


def outside_values(closed, edges):
    out = [edges[0] - 0.125, edges[-1] + 0.25, edges[-1] + 1.0]
    out.append(edges[0] if closed == "right" else edges[-1])   # the open outer edge
    return out


def random_edges(rng):
    nb = rng.choice([1, 2, 2, 3, 3, 3, 4, 4])
    e = [rng.choice([0.25, 0.5, 1.0])]
    for _ in range(nb):
        e.append(e[-1] + rng.choice([0.125, 0.25, 0.5, 0.375]))
    return e


def random_spec(rng):
    edges = random_edges(rng)
    nb = len(edges) - 1
    closed = rng.choice(["left", "right"])
    hasw = rng.random() < 0.5
    crit = critical_values(edges)
    P = rng.choice([1, 2, 2, 3, 3, 4])
    mode = rng.choice(["plain"] * 7 + ["emptypatch"] * 2 + ["emptybin"] * 2)
    patches = []
    for p in range(P):
        n = rng.randrange(1, 7)
        zs = []
        for _ in range(n):
            if rng.random() < 0.8:
                zs.append(rng.choice(crit))
            else:
                zs.append(rng.randrange(int(edges[0] * 64) - 12, int(edges[-1] * 64) + 20) / 64.0)
        patches.append(zs)
    if mode == "emptybin" and nb >= 2:
        b = rng.randrange(nb)
        other = [k for k in range(nb) if k != b]
        for zs in patches:
            for j, z in enumerate(zs):
                if gen_member(closed, edges, b, z):
                    k = rng.choice(other)
                    zs[j] = rng.choice([(edges[k] + edges[k + 1]) / 2.0,
                                        edges[k + 1] if closed == "right" else edges[k]])
    if mode == "emptypatch":
        p = rng.randrange(P)
        outs = outside_values(closed, edges)
        patches[p] = [rng.choice(outs) for _ in patches[p]]
    else:
        # every patch holds at least one object inside the binning
        for zs in patches:
            if not any(gen_inside(closed, edges, z) for z in zs):
                k = rng.randrange(nb)
                zs.append((edges[k] + edges[k + 1]) / 2.0)
    patches = [[(z, rng.randrange(1, 41) / 8.0 if hasw else 1.0) for z in zs] for zs in patches]
    # earlier (unforced) tree builds on the same cache: the rule must also hold when trees for another
    # closed side / other edges of the same length are already cached
    prior = None
    if rng.random() < 0.3:
        other = "left" if closed == "right" else "right"
        shifted = [edges[0]] + [(a + b) / 2.0 for a, b in zip(edges[1:-1], edges[2:])] + [edges[-1]] if nb >= 2 else edges
        prior = rng.choice([[(edges, other)], [(shifted, closed)], [(edges, other), (shifted, other)], [(None, closed), (edges, other)]])
    return dict(tag="random:" + mode + (":prior" if prior else ""), closed=closed, hasw=hasw, edges=edges, patches=patches,
                meas=rng.choice([None, None, "auto", "auto", "cross"]),
                cfg=rng.choice(["binning", "configuration"]), prior=prior)


def exhaustive_specs(max_objs_by_nb):
    """all assignments of <= k objects to the 2*nbins+3 critical values, both closed sides,
    bare and with an anchor object inside the last bin (so that build_trees does not stop at
    the patch-without-inside-object defect and the placement itself is observed)"""
    out = []
    fixed = {1: [0.5, 1.0], 2: [0.25, 0.5, 1.0]}
    serial = 0
    for nb, kmax in sorted(max_objs_by_nb.items()):
        edges = fixed[nb]
        crit = critical_values(edges)
        for k in range(1, kmax + 1):
            for zs in itertools.product(crit, repeat=k):
                for closed in ("left", "right"):
                    for anchor in (False, True):
                        serial += 1
                        hasw = serial % 3 != 0
                        # weights = distinct powers of two: the sum identifies the subset counted
                        objs = [(z, (2.0 ** j) / 8.0 if hasw else 1.0) for j, z in enumerate(zs)]
                        if anchor:
                            objs.append(((edges[-2] + edges[-1]) / 2.0, 8.0 if hasw else 1.0))
                        out.append(dict(tag="exhaustive:nb%d:k%d:%s" % (nb, k, "anchor" if anchor else "bare"),
                                        closed=closed, hasw=hasw, edges=edges, patches=[objs],
                                        meas="auto" if serial % 4 == 0 else None,
                                        cfg="binning" if serial % 2 else "configuration"))
    return out


def probe_specs():
    """deterministic targeted probes for the defects of the pinned commit (DESIGN §7)"""
    return [
        # F11: closed = right, one redshift exactly on the inner edge 0.5
        dict(tag="probe:F11", closed="right", hasw=False, edges=[0.25, 0.5, 1.0],
             patches=[[(0.5, 1.0)]], meas="auto", cfg="binning"),
        # F17: the only object of the patch lies above the binning
        dict(tag="probe:F17", closed="left", hasw=True, edges=[0.25, 0.5, 1.0],
             patches=[[(2.0, 1.0)]], meas=None, cfg="binning"),
        # F17 with a healthy neighbour patch (and the open outer edge as the outside value)
        dict(tag="probe:F17b", closed="right", hasw=False, edges=[0.25, 0.5, 1.0],
             patches=[[(0.375, 1.0), (0.75, 1.0)], [(0.25, 1.0)]], meas=None, cfg="configuration"),
        # trees for the other closed side are already cached when the observed build happens
        dict(tag="probe:prior-other-closed", closed="left", hasw=True, edges=[0.25, 0.5, 1.0],
             patches=[[(0.25, 0.5), (0.5, 1.0), (1.0, 2.0), (0.375, 4.0)], [(0.5, 0.25), (0.75, 8.0)]],
             meas="auto", cfg="binning", prior=[([0.25, 0.5, 1.0], "right")]),
        dict(tag="probe:prior-other-edges", closed="right", hasw=False, edges=[0.25, 0.5, 1.0],
             patches=[[(0.25, 1.0), (0.5, 1.0), (0.625, 1.0), (1.0, 1.0)], [(0.5, 1.0), (0.75, 1.0)]],
             meas="cross", cfg="configuration", prior=[([0.25, 0.625, 1.0], "right"), (None, "right")]),
        # control: the same redshifts are fine for closed = left in all three consumers
        dict(tag="probe:left-control", closed="left", hasw=True, edges=[0.25, 0.5, 1.0],
             patches=[[(0.25, 0.5), (0.5, 1.0), (1.0, 2.0), (0.375, 4.0)], [(0.5, 0.25), (0.125, 8.0)]],
             meas="cross", cfg="configuration"),
    ]


# ---------------------------------------------------------------- process boundary: transports and pools
def _ship(obj):
    """what multiprocessing does to every task and result of a pool"""
    return pickle.loads(bytes(ForkingPickler.dumps(obj)))


def _first(x):
    return x


def _via_parallel_job(obj, kwargs=False):
    """the object as bound argument of the ParallelJob that yaw pickles with each task"""
    from yaw.utils.parallel import ParallelJob
    job = ParallelJob(_first, (), dict(x=obj)) if kwargs else ParallelJob(_first, (obj,), {}, unpack=True)
    job = _ship(job)
    return job.func_kwargs["x"] if kwargs else job.func_args[0]


TRANSPORTS = dict(
    [("pickle-p%d" % k, (lambda o, k=k: pickle.loads(pickle.dumps(o, protocol=k)))) for k in range(pickle.HIGHEST_PROTOCOL + 1)]
    + [("forking-pickler", _ship),
       ("copy", copy.copy),
       ("deepcopy", copy.deepcopy),
       ("parallel-job-args", _via_parallel_job),
       ("parallel-job-kwargs", lambda o: _via_parallel_job(o, kwargs=True))])
USE_TRANSPORTS = ["pickle-p2", "pickle-p%d" % pickle.HIGHEST_PROTOCOL, "forking-pickler", "copy", "deepcopy",
                  "parallel-job-args", "parallel-job-kwargs", "binning-copy"]


def transport(kind, obj):
    from yaw.binning import Binning
    if kind == "binning-copy":      # Binning.copy(): what HistData / the count containers store
        return obj.copy() if isinstance(obj, Binning) else obj
    return TRANSPORTS[kind](obj)


def transport_class(kind):
    return "pickle" if kind.startswith("pickle-p") else kind


def binning_of(obj):
    """the Binning a Binning / BinningConfig / Configuration / result container carries"""
    from yaw.binning import Binning
    b = obj
    for _ in range(3):
        if isinstance(b, Binning):
            return b
        b = b.binning
    raise TypeError("no Binning inside %r" % type(obj).__name__)


def describe(obj):
    """(closed side as reported, edges as reported)"""
    b = binning_of(obj)
    return (str(b.closed), [float(x) for x in np.asarray(b.edges, dtype="f8")])


def describe_safe(obj):
    try:
        return describe(obj)
    except Exception as e:  # noqa: BLE001 - an object that no longer reports a binning is an observation
        return ("<%s: %s>" % (type(e).__name__, e), [])


def _echo(obj):
    """runs in a worker process: what the worker sees, and the object itself for the way back"""
    return (describe(obj), obj)


class PicklingPool(simpool.FakePool):
    """FakePool + the one thing a real pool does to data: every task (function with its bound
    arguments, item) and every result goes through ForkingPickler; the tasks run in this process"""

    def map(self, func, items):
        items = list(items)
        order = self.mp.schedule.perm(len(items))
        out = [None] * len(items)
        for i in order:
            f, a = _ship((func, items[i]))
            out[i] = _ship(f(a))
        return out

    def imap_unordered(self, func, iterable):
        items = list(iterable)
        results = []
        for x in items:
            f, a = _ship((func, x))
            results.append(_ship(f(a)))
        order = self.mp.schedule.perm(len(items))
        self.mp.imap_orders.append(order)
        for i in order:
            yield results[i]


class PicklingMP(simpool.FakeMP):
    def Pool(self, n=None):
        return PicklingPool(self, n)


class pool_flavour:
    """context: where the parallel entry points of yaw do their work for one case"""

    def __init__(self, spec):
        self.flavour = spec.get("pool")
        self.workers = int(spec.get("workers") or 1)
        self.seed = int(spec.get("order_seed") or 0)
        self.px = None

    def __enter__(self):
        impl.set_threads(self.workers)          # the ./check wrapper exports YAW_NUM_THREADS=1
        if self.flavour == "pickling":
            self.px = simpool.patched(catalog=False, parallel=True)
            self.px.mp = PicklingMP(simpool.Schedule("random", seed=self.seed))
            self.px.__enter__()
        return self

    def __exit__(self, *a):
        if self.px is not None:
            self.px.__exit__(*a)
        impl.set_threads(1)
        return False


def flavour_of(spec):
    if spec.get("transport"):
        return "transported-binning"
    if spec.get("pool") == "real":
        return "worker-processes"
    if spec.get("pool") == "pickling":
        return "pickling-pool"
    return ""


def boundary_probe_specs():
    """deterministic: redshifts on every edge, midpoints, below and above, both closed sides, through every way
    the binning can reach the code that bins"""
    out = []
    for closed in ("left", "right"):
        base = dict(closed=closed, hasw=True, edges=[0.25, 0.5, 1.0],
                    patches=[[(0.25, 0.5), (0.5, 1.0), (1.0, 2.0), (0.375, 4.0)], [(0.5, 0.25), (0.75, 8.0), (0.125, 0.125), (1.5, 16.0)]])
        flavours = [dict(pool="real", workers=2), dict(pool="real", workers=3), dict(pool="pickling", workers=2)]
        flavours += [dict(transport=t) for t in USE_TRANSPORTS]
        for k, fl in enumerate(flavours):
            name = fl.get("transport") or "%s%d" % (fl["pool"], fl["workers"])
            out.append(dict(base, tag="probe:boundary:%s:%s" % (name, closed), meas=["auto", "cross", "auto"][k % 3],
                            cfg=["binning", "configuration"][k % 2], **fl))
        # an unweighted single patch whose only inside object sits on the closed outer edge
        z_closed, z_open = (1.0, 0.25) if closed == "right" else (0.25, 1.0)
        for fl in (dict(pool="real", workers=2), dict(pool="pickling", workers=2), dict(transport="forking-pickler")):
            name = fl.get("transport") or fl["pool"]
            out.append(dict(tag="probe:boundary-outer:%s:%s" % (name, closed), closed=closed, hasw=False, edges=[0.25, 0.5, 1.0],
                            patches=[[(z_closed, 1.0), (z_open, 1.0)]], meas="auto", cfg="configuration", **fl))
    return out


def boundary_specs(ctx):
    rng = ctx.rng
    out = boundary_probe_specs()
    # the exhaustive placements once more, every task and result pickled
    for spec in exhaustive_specs({1: 2, 2: 1} if ctx.quick() else {1: 3, 2: 2}):
        out.append(dict(spec, tag=spec["tag"] + ":pickling", pool="pickling", workers=2, order_seed=len(out)))
    for _ in range(ctx.n(40, 200)):
        spec = random_spec(rng)
        out.append(dict(spec, tag=spec["tag"] + ":real", pool="real", workers=rng.choice([2, 2, 3, 4])))
    for _ in range(ctx.n(40, 200)):
        spec = random_spec(rng)
        out.append(dict(spec, tag=spec["tag"] + ":pickling", pool="pickling", workers=rng.choice([2, 3, 5]),
                        order_seed=rng.randrange(10 ** 6)))
    for _ in range(ctx.n(48, 240)):
        spec = random_spec(rng)
        out.append(dict(spec, tag=spec["tag"] + ":transport", transport=rng.choice(USE_TRANSPORTS)))
    return out


# ---------------------------------------------------------------- running the implementation
def make_frames(spec):
    ra, dec, z, w, pid = [], [], [], [], []
    for p, objs in enumerate(spec["patches"]):
        for j, (zz, ww) in enumerate(objs):
            ra.append(20.0 + 30.0 * p + (j % 8) / 16.0)
            dec.append(-10.0 + 5.0 * p + (j // 8) / 16.0)
            z.append(zz)
            w.append(ww)
            pid.append(p)
    cols = dict(ra=np.asarray(ra, dtype="f8"), dec=np.asarray(dec, dtype="f8"),
                z=np.asarray(z, dtype="f8"), pid=np.asarray(pid, dtype="i8"))
    if spec["hasw"]:
        cols["w"] = np.asarray(w, dtype="f8")
    return cols


def observe(ctx, spec, idx):
    """returns dict(trees=[per patch list of (n, w) or None], hist=list or None, meas=matrix or None,
    errors={where: 'Type: message'}, reported={where: (closed, edges)})
    spec['pool'] / spec['workers']: the parallel entry points run on worker processes ('real') or on the pickling
    pool; spec['transport']: the binning / configuration went through that transport before it is used"""
    import yaw
    from yaw.binning import Binning
    from yaw.catalog.trees import BinnedTrees
    from yaw.config import BinningConfig
    from yaw.redshifts import HistData

    impl.set_threads(1)
    edges, closed, hasw = spec["edges"], spec["closed"], spec["hasw"]
    tkind = spec.get("transport")
    W = int(spec.get("workers") or 1)
    sent = (lambda o: transport(tkind, o)) if tkind else (lambda o: o)
    P = len(spec["patches"])
    cols = make_frames(spec)
    kw = dict(ra_name="ra", dec_name="dec", patch_name="pid", max_workers=1)
    if hasw:
        kw["weight_name"] = "w"
    cache = impl.fresh_dir(ctx, "cat_%d" % idx)
    cache_u = None
    errors = {}
    reported = {}
    try:
        cat = impl.Catalog.from_dataframe(cache, impl.make_df(cols), redshift_name="z", **kw)
        assert sorted(int(k) for k in cat.keys()) == list(range(P)), "patch ids"
        with pool_flavour(spec):
            for (pe, pc) in (spec.get("prior") or []):
                try:
                    cat.build_trees(None if pe is None else np.asarray(pe, dtype="f8"), closed=pc, max_workers=W)
                except Exception:  # noqa: BLE001 - an earlier build that fails is part of the history, not the observation
                    pass
            # ---- consumer 1: the trees
            whole = None
            try:
                if tkind:   # the Binning object itself arrives through the transport (as it does in a worker)
                    for p in range(P):
                        BinnedTrees.build(cat[p], sent(Binning(edges, closed=closed)), force=True)
                else:
                    cat.build_trees(np.asarray(edges, dtype="f8"), closed=closed, max_workers=W)
            except Exception as e:  # noqa: BLE001 - the class is part of the observation
                whole = e
                errors["build_trees"] = "%s: %s" % (type(e).__name__, e)
        trees = []
        for p in range(P):
            patch = cat[p]
            if whole is not None:  # find out which patches cannot be built
                try:
                    BinnedTrees.build(patch, Binning(edges, closed=closed), force=True)
                except Exception as e:  # noqa: BLE001
                    errors["build_trees[patch %d]" % p] = "%s: %s" % (type(e).__name__, e)
                    trees.append(None)
                    continue
            bt = BinnedTrees(patch)
            trees.append([(int(t.num_records), float(t.sum_weights)) for t in bt])
            if whole is None and p == 0:
                reported["tree-cache"] = describe_safe(bt.binning)
        with pool_flavour(spec):
            # ---- consumer 2: the histogram
            hist = None
            try:
                if spec["cfg"] == "binning":
                    conf = BinningConfig.create(edges=edges, closed=closed)
                else:
                    conf = impl.Configuration.create(rmin=100.0, rmax=1000.0, edges=edges, closed=closed, max_workers=W)
                hd = HistData.from_catalog(cat, sent(conf), max_workers=W)
                hist = [float(x) for x in hd.data]
                reported["HistData"] = describe_safe(hd)
            except Exception as e:  # noqa: BLE001
                errors["hist"] = "%s: %s" % (type(e).__name__, e)
            # ---- consumer 3: per-bin sum_weights of a measurement
            meas = None
            if spec["meas"] and whole is None:
                old = np.seterr(invalid="ignore")  # single-object patches have radius 0 (0/0 in the patch-centre check)
                try:
                    conf = sent(impl.Configuration.create(rmin=100.0, rmax=1000.0, edges=edges, closed=closed, max_workers=W))
                    if spec["meas"] == "auto":
                        cf = yaw.autocorrelate(conf, cat, cat, count_rr=False, max_workers=W)[0]
                        sw = cf.dd.sum_weights
                        if not np.array_equal(sw.sum_weights1, sw.sum_weights2):
                            errors["meas"] = "autocorrelation: sum_weights1 != sum_weights2"
                    else:
                        cache_u = impl.fresh_dir(ctx, "catu_%d" % idx)
                        cat_u = impl.Catalog.from_dataframe(cache_u, impl.make_df(cols), **kw)
                        cf = yaw.crosscorrelate(conf, cat, cat_u, unk_rand=cat_u, max_workers=W)[0]
                        sw = cf.dd.sum_weights
                    meas = [[float(x) for x in row] for row in np.asarray(sw.sum_weights1)]
                    reported["CorrFunc"] = describe_safe(cf)
                except Exception as e:  # noqa: BLE001
                    errors["meas"] = "%s: %s" % (type(e).__name__, e)
                finally:
                    np.seterr(**old)
        return dict(trees=trees, hist=hist, meas=meas, errors=errors, reported=reported)
    finally:
        impl.set_threads(1)
        shutil.rmtree(cache, ignore_errors=True)
        if cache_u:
            shutil.rmtree(cache_u, ignore_errors=True)


def term_of(spec, obs):
    patches = fq.lst([fq.lst([fq.pair(fq.q(z), fq.q(w)) for z, w in objs]) for objs in spec["patches"]])
    trees = fq.lst([fq.opt(t, lambda t_: fq.lst([fq.pair(fq.nat(n), fq.q(w)) for n, w in t_])) for t in obs["trees"]])
    return "c10_case %s %s %s %s %s %s %s" % (
        fq.b(spec["closed"] == "right"), fq.b(spec["hasw"]), fq.qlist(spec["edges"]), patches, trees,
        fq.opt(obs["hist"], fq.qlist), fq.opt(obs["meas"], fq.qmat))


def label(ctx, spec):
    edges, closed = spec["edges"], spec["closed"]
    zs = [z for objs in spec["patches"] for z, _ in objs]
    inner = any(z in edges[1:-1] for z in zs)
    outer = any(z in (edges[0], edges[-1]) for z in zs)
    outside = any(not gen_inside(closed, edges, z) for z in zs)
    empty_patch = any(not any(gen_inside(closed, edges, z) for z, _ in objs) for objs in spec["patches"])
    empty_bin = any(not any(gen_member(closed, edges, b, z) for z in zs) for b in range(len(edges) - 1))
    for name, flag in (("z_on_inner_edge", inner), ("z_on_outer_edge", outer), ("z_outside_binning", outside),
                       ("patch_without_inside_object", empty_patch), ("bin_without_object", empty_bin)):
        if flag:
            ctx.bump(name)
    if spec["meas"]:
        ctx.bump("measurement:" + spec["meas"])
    key = (closed, spec["hasw"], tuple(edges), tuple(tuple(o) for objs in spec["patches"] for o in objs + [("|", 0)]),
           spec["meas"], spec["cfg"])
    how = flavour_of(spec)
    if how:
        key += (how, spec.get("workers"), spec.get("transport"))
        ctx.bump("boundary:%s" % how + (":%s" % transport_class(spec["transport"]) if spec.get("transport") else ":w%d" % spec["workers"]))
        if inner or outer:
            ctx.bump("boundary:%s:z_on_edge" % how)
    ctx.count(key=key, nontrivial=inner or outer or outside,
              kind="%s/%s/%s%s" % (closed, "weighted" if spec["hasw"] else "unweighted", spec["tag"].split(":")[0],
                                   "/" + how if how else ""))
    ctx.bump("patches:%d" % len(spec["patches"]))
    ctx.bump("nbins:%d" % (len(edges) - 1))
    return dict(inner=inner, outer=outer, outside=outside, empty_patch=empty_patch, empty_bin=empty_bin)


def where_text(spec):
    if spec.get("transport"):
        return " when the binning / configuration went through '%s' first" % spec["transport"]
    if spec.get("pool") == "real":
        return " when the work is done by %d worker processes" % spec["workers"]
    if spec.get("pool") == "pickling":
        return " when every task and result of the pool is pickled (%d workers)" % spec["workers"]
    return ""


def interpret(ctx, idx, spec, obs, info, c):
    """bits (set = flag false): 1 model=impl trees, 2 trees=spec, 4 hist=spec, 8 consistent,
    16 trees=current-code model, 32 hist=current-code model, 64 measurement=spec, 128 hypotheses"""
    replay = dict(spec=spec, observed=obs, labels=info, code=c)
    how = flavour_of(spec)
    how = ":" + how if how else ""      # where the binning was applied; the serial signatures are unchanged
    if c is None:
        return
    if c & 128:
        ctx.obligation("generator:case %d satisfies the theorems' hypotheses" % idx, False, repr(spec))
        return
    if c & 1:
        ctx.disagree("Cases_C10", idx, dict(code=c, spec=spec, observed=obs))
    if c & 2 or c & 1:
        tree_errs = {v.split(":")[0] for k, v in obs["errors"].items() if k.startswith("build_trees")}
        if not (c & 16) and any(t is None for t in obs["trees"]) and tree_errs == {"UnboundLocalError"}:
            ctx.fail(SIG_F17, "build_trees raises UnboundLocalError for a patch without an object inside the binning "
                     "(all other patches/bins as specified): %s" % obs["errors"], replay, case=idx)
        elif tree_errs - {"UnboundLocalError"} or (tree_errs and c & 16):
            ctx.fail("c10-build-trees-raises:" + "+".join(sorted(tree_errs)) + how,
                     "building trees raised where zeros are required: %s" % obs["errors"], replay, case=idx)
        else:
            ctx.fail("c10-trees-membership" + how, "BinnedTrees per-bin num_records/sum_weights differ from the closed-%s rule%s: "
                     "edges %s, objects %s, trees %s" % (spec["closed"], where_text(spec), spec["edges"], spec["patches"], obs["trees"]),
                     replay, case=idx)
    if c & 4:
        if obs["hist"] is None:
            ctx.fail("c10-hist-raises:" + obs["errors"].get("hist", "?").split(":")[0] + how,
                     "HistData.from_catalog raised: %s" % obs["errors"].get("hist"), replay, case=idx)
        elif not (c & 32) and spec["closed"] == "right":
            ctx.fail(SIG_F11, "HistData.from_catalog with closed=right counts a redshift on an inner bin edge in the upper bin "
                     "(mask + np.histogram): edges %s, objects %s, histogram %s" % (spec["edges"], spec["patches"], obs["hist"]),
                     replay, case=idx)
        else:
            ctx.fail("c10-hist-membership" + how, "HistData.from_catalog(...).data differs from the closed-%s rule%s: edges %s, "
                     "objects %s, histogram %s" % (spec["closed"], where_text(spec), spec["edges"], spec["patches"], obs["hist"]),
                     replay, case=idx)
    if c & 64 or "meas" in obs["errors"]:
        ctx.fail("c10-measurement-sum-weights" + how, "per-bin sum_weights stored in the measurement differ from the closed-%s rule%s "
                 "or could not be obtained: %s %s" % (spec["closed"], where_text(spec), obs["meas"], obs["errors"].get("meas")), replay, case=idx)
    elif c & 8 and not (c & (1 | 2 | 4)):
        ctx.fail("c10-consumers-inconsistent" + how, "trees, histogram and measurement sum_weights are mutually inconsistent: %s" % obs,
                 replay, case=idx)


# ---------------------------------------------------------------- measurements over several linked patches
PATCH_D = 0.03125                       # half extent of a patch in degrees (objects 0 / 1 sit at centre +- PATCH_D)
GAPS = [0.03125, 0.0625, 0.0625, 0.0625, 0.125, 32.0]
CELL_MODES = ["full", "onebin", "diag", "deadbin", "random", "random"]
CONTAINERS = {
    "auto": [("dd", "data", "data", True), ("dr", "data", "rand", False), ("rr", "rand", "rand", True)],
    "cross": [("dd", "ref", "unk", False), ("dr", "ref", "unk_rand", False), ("rd", "ref_rand", "unk", False),
              ("rr", "ref_rand", "unk_rand", False)],
}


def gen_cells(rng, mode, nb, P, base=None):
    """which bins each patch populates (never none: see ASSUMPTIONS)"""
    bins = list(range(nb))
    if mode == "complement" and base is not None:
        return [sorted(set(bins) - set(base[p])) or [rng.randrange(nb)] for p in range(P)]
    if mode == "full":
        return [list(bins) for _ in range(P)]
    if mode == "onebin":
        return [[rng.randrange(nb)] for _ in range(P)]
    if mode == "diag":
        k = rng.randrange(nb)
        return [[(p + k) % nb] for p in range(P)]
    if mode == "deadbin" and nb >= 2:
        dead = set(rng.sample(bins, rng.randrange(1, nb)))
        live = [b for b in bins if b not in dead]
        return [sorted(rng.sample(live, rng.randrange(1, len(live) + 1))) for _ in range(P)]
    out = []
    for _ in range(P):
        occ = [b for b in bins if rng.random() < 0.5]
        out.append(occ or [rng.randrange(nb)])
    return out


def balanced(patches):
    """objects 0 and 1 of a patch sit at centre +- PATCH_D, all others at the centre: with equal weights on these two the
    (weighted) patch centre is the same point in every sample of a measurement"""
    return [[objs[0], (objs[1][0], objs[0][1])] + list(objs[2:]) for objs in patches]


def gen_sample(rng, closed, edges, cells, hasw, binned=True):
    """per patch >= 2 objects; a binned sample puts at least one object into each populated cell (as far as the
    number of objects allows), the others into populated cells or outside the binning; values: midpoints,
    the closed edge of the bin, a generic inner value"""
    outs = outside_values(closed, edges)
    patches = []
    for occ in cells:
        n = rng.randrange(2, 7)
        zs = []
        order = list(occ)
        rng.shuffle(order)
        for j in range(n):
            if not binned:
                zs.append(0.0)
                continue
            if j < len(order):
                b = order[j]
            elif rng.random() < 0.3:
                zs.append(rng.choice(outs))
                continue
            else:
                b = rng.choice(occ)
            lo, hi = edges[b], edges[b + 1]
            zs.append(rng.choice([(lo + hi) / 2.0, (lo + hi) / 2.0, hi if closed == "right" else lo,
                                  hi if closed == "right" else lo, lo + (hi - lo) * 0.75]))
        rng.shuffle(zs)
        patches.append([(z, rng.randrange(1, 41) / 8.0 if hasw else 1.0) for z in zs])
    return dict(binned=binned, hasw=hasw, patches=balanced(patches))


def random_linked_spec(rng):
    edges = random_edges(rng)
    nb = len(edges) - 1
    closed = rng.choice(["left", "right"])
    P = rng.choice([2, 2, 3, 3, 3, 4])
    kind = rng.choice(["auto", "auto", "cross"])
    gaps = [rng.choice(GAPS) for _ in range(P - 1)]
    mode1 = rng.choice(CELL_MODES)
    cells1 = gen_cells(rng, mode1, nb, P)
    mode2 = rng.choice(["complement", "complement"] + CELL_MODES)
    cells2 = gen_cells(rng, mode2, nb, P, base=cells1)
    hw = lambda: rng.random() < 0.5  # noqa: E731
    samples = {}
    if kind == "auto":
        samples["data"] = gen_sample(rng, closed, edges, cells1, hw())
        samples["rand"] = gen_sample(rng, closed, edges, cells2, hw())
    else:
        samples["ref"] = gen_sample(rng, closed, edges, cells1, hw())
        samples["unk"] = gen_sample(rng, closed, edges, [[0]] * P, hw(), binned=False)
        which = rng.choice(["ref_rand", "unk_rand", "both", "both"])
        if which in ("ref_rand", "both"):
            samples["ref_rand"] = gen_sample(rng, closed, edges, cells2, hw())
        if which in ("unk_rand", "both"):
            samples["unk_rand"] = gen_sample(rng, closed, edges, [[0]] * P, hw(), binned=False)
    return dict(tag="linked:%s:%s+%s" % (kind, mode1, mode2), family="linked", closed=closed, edges=edges, kind=kind,
                gaps=gaps, samples=samples)


def linked_probe_specs():
    """deterministic: three patches 1/16 deg apart (all pairs counted), three bins; patch 0 of the data populates every bin
    (with objects on every edge and outside), patch 1 only the first bin, patch 2 only the last bin; the randoms populate
    the complementary cells; bin 1 is empty in every patch of the second probe; both closed sides, weighted and
    unweighted, auto and cross"""
    out = []
    edges = [0.25, 0.5, 0.75, 1.0]
    for closed in ("left", "right"):
        c = (lambda b: edges[b + 1]) if closed == "right" else (lambda b: edges[b])      # the closed edge of bin b
        for hasw in (False, True):
            w = (lambda k: (2.0 ** k) / 8.0) if hasw else (lambda k: 1.0)
            data = [[(0.125, w(0)), (0.25, w(1)), (0.375, w(2)), (0.5, w(3)), (0.625, w(4)), (0.75, w(5)), (1.0, w(6)), (1.25, w(7))],
                    [(0.375, w(0)), (c(0), w(1))],
                    [(c(2), w(0)), (0.875, w(1)), (2.0, w(2))]]
            rand = [[(0.875, w(0)), (0.125, w(1))],
                    [(0.625, w(0)), (c(1), w(1)), (0.875, w(2))],
                    [(0.375, w(0)), (c(0), w(1)), (0.625, w(2))]]
            dead = [[(0.375, w(0)), (0.875, w(1)), (c(0), w(2))],
                    [(c(2), w(0)), (0.875, w(1))],
                    [(0.375, w(0)), (0.375, w(1))]]
            unk = [[(0.0, w(k)) for k in range(n)] for n in (3, 2, 4)]
            sm = lambda patches, binned=True, hw=hasw: dict(binned=binned, hasw=hw, patches=balanced(patches))  # noqa: E731
            base = dict(family="linked", closed=closed, edges=edges, gaps=[0.0625, 0.0625])
            name = "%s:%s" % (closed, "w" if hasw else "u")
            out.append(dict(base, tag="linked:probe:auto:complement:" + name, kind="auto",
                            samples=dict(data=sm(data), rand=sm(rand, hw=not hasw))))
            out.append(dict(base, tag="linked:probe:auto:deadbin:" + name, kind="auto",
                            samples=dict(data=sm(dead), rand=sm(data))))
            out.append(dict(base, tag="linked:probe:cross:complement:" + name, kind="cross",
                            samples=dict(ref=sm(data), unk=sm(unk, binned=False), ref_rand=sm(rand), unk_rand=sm(unk[::-1], binned=False, hw=not hasw))))
            out.append(dict(base, tag="linked:probe:cross:deadbin:" + name, kind="cross",
                            samples=dict(ref=sm(dead), unk=sm(unk, binned=False), unk_rand=sm(unk, binned=False))))
        # the smallest instance: two patches, two bins, one populated cell each, on the closed edge
        e2 = [0.25, 0.5, 1.0]
        z0, z1 = (0.5, 1.0) if closed == "right" else (0.25, 0.5)
        two = [[(z0, 1.0), (z0, 1.0)], [(z1, 1.0), (z1, 1.0)]]
        out.append(dict(tag="linked:probe:auto:two-patches:" + closed, family="linked", closed=closed, edges=e2, kind="auto",
                        gaps=[0.03125], samples=dict(data=dict(binned=True, hasw=False, patches=two),
                                                     rand=dict(binned=True, hasw=False, patches=two[::-1]))))
    return out


def linked_specs(ctx):
    rng = ctx.rng
    out = linked_probe_specs()
    flavoured = []
    for k, spec in enumerate(out):          # the probes once more with permuted arrival of the pair results
        if k % 3 == 0:
            flavoured.append(dict(spec, tag=spec["tag"] + ":pickling", pool="pickling", workers=3, order_seed=k))
        elif k % 9 == 1:
            flavoured.append(dict(spec, tag=spec["tag"] + ":real", pool="real", workers=2))
    out += flavoured
    for _ in range(ctx.n(90, 600)):
        out.append(random_linked_spec(rng))
    for _ in range(ctx.n(24, 150)):
        spec = random_linked_spec(rng)
        out.append(dict(spec, tag=spec["tag"] + ":pickling", pool="pickling", workers=rng.choice([2, 3, 5]),
                        order_seed=rng.randrange(10 ** 6)))
    for _ in range(ctx.n(8, 60)):
        spec = random_linked_spec(rng)
        out.append(dict(spec, tag=spec["tag"] + ":real", pool="real", workers=rng.choice([2, 3])))
    return out


def linked_frame(spec, sample):
    ra, dec, z, w, pid = [], [], [], [], []
    centre = 20.0
    for p, objs in enumerate(sample["patches"]):
        if p:
            centre += spec["gaps"][p - 1]
        for j, (zz, ww) in enumerate(objs):
            ra.append(centre + (PATCH_D, -PATCH_D)[j] if j < 2 else centre)
            dec.append(0.0)
            z.append(zz)
            w.append(ww)
            pid.append(p)
    cols = dict(ra=np.asarray(ra, dtype="f8"), dec=np.asarray(dec, dtype="f8"), pid=np.asarray(pid, dtype="i8"))
    if sample["binned"]:
        cols["z"] = np.asarray(z, dtype="f8")
    if sample["hasw"]:
        cols["w"] = np.asarray(w, dtype="f8")
    return cols


def observe_linked(ctx, spec, idx):
    """returns dict(containers={name: dict(s1, s2, auto, pairs, sw1, sw2)}, errors={...}, refused=str or None)"""
    import yaw
    from yaw.catalog.catalog import InconsistentPatchesError

    impl.set_threads(1)
    edges, closed = spec["edges"], spec["closed"]
    W = int(spec.get("workers") or 1)
    dirs, cats = [], {}
    errors, containers, refused = {}, {}, None
    try:
        for name, sample in sorted(spec["samples"].items()):
            d = impl.fresh_dir(ctx, "lcat_%d_%s" % (idx, name))
            dirs.append(d)
            kw = dict(ra_name="ra", dec_name="dec", patch_name="pid", max_workers=1)
            if sample["binned"]:
                kw["redshift_name"] = "z"
            if sample["hasw"]:
                kw["weight_name"] = "w"
            cats[name] = impl.Catalog.from_dataframe(d, impl.make_df(linked_frame(spec, sample)), **kw)
            assert sorted(int(k) for k in cats[name].keys()) == list(range(len(sample["patches"]))), "patch ids"
        conf = impl.Configuration.create(rmin=100.0, rmax=1000.0, edges=edges, closed=closed, max_workers=W)
        old = np.seterr(invalid="ignore", divide="ignore")
        try:
            with pool_flavour(spec):
                if spec["kind"] == "auto":
                    cf = yaw.autocorrelate(conf, cats["data"], cats["rand"], count_rr=True, max_workers=W)[0]
                else:
                    cf = yaw.crosscorrelate(conf, cats["ref"], cats["unk"], ref_rand=cats.get("ref_rand"),
                                            unk_rand=cats.get("unk_rand"), max_workers=W)[0]
        except InconsistentPatchesError as e:
            refused = "%s: %s" % (type(e).__name__, e)
            return dict(containers={}, errors=errors, refused=refused)
        except Exception as e:  # noqa: BLE001 - every sample is valid: zeros are required, not an error
            errors["measurement"] = "%s: %s" % (type(e).__name__, e)
            return dict(containers={}, errors=errors, refused=None)
        finally:
            np.seterr(**old)
        # the pair sequences of the linkage the implementation uses for these catalogs (input of the model only)
        seqs = {}
        try:
            from yaw.correlation.measurements import PatchLinkage
            order = ["data", "rand"] if spec["kind"] == "auto" else ["ref", "unk", "ref_rand", "unk_rand"]
            links = PatchLinkage.from_catalogs(conf, *[cats[n] for n in order if n in cats])
            for auto in (True, False):
                seqs[auto] = [(int(i), int(j)) for i, j in links.iter_patch_id_pairs(auto=auto)]
        except Exception:  # noqa: BLE001 - not an observable of the property; the model then gets the complete sequence
            P = len(next(iter(spec["samples"].values()))["patches"])
            seqs = {True: [(i, j) for i in range(P) for j in range(i, P)], False: [(i, j) for i in range(P) for j in range(P)]}
            ctx.bump("linked:pair-sequence-not-available")
        for cname, s1, s2, auto in CONTAINERS[spec["kind"]]:
            if s1 not in cats or s2 not in cats:
                continue
            cont = getattr(cf, cname, None)
            if cont is None:
                errors[cname] = "container missing from the result"
                continue
            sw = cont.sum_weights
            containers[cname] = dict(
                s1=s1, s2=s2, auto=auto, pairs=seqs[auto],
                sw1=[[float(x) for x in row] for row in np.asarray(sw.sum_weights1)],
                sw2=[[float(x) for x in row] for row in np.asarray(sw.sum_weights2)])
        return dict(containers=containers, errors=errors, refused=None)
    finally:
        impl.set_threads(1)
        for d in dirs:
            shutil.rmtree(d, ignore_errors=True)


def sample_term(sample):
    return "%s %s %s" % (fq.b(sample["binned"]), fq.b(sample["hasw"]),
                         fq.lst([fq.lst([fq.pair(fq.q(z), fq.q(w)) for z, w in objs]) for objs in sample["patches"]]))


def linked_term(spec, cont):
    return "c10_count_case %s %s %s %s %s %s %s" % (
        fq.b(spec["closed"] == "right"), fq.qlist(spec["edges"]), sample_term(spec["samples"][cont["s1"]]),
        sample_term(spec["samples"][cont["s2"]]), fq.lst([fq.pair(fq.nat(i), fq.nat(j)) for i, j in cont["pairs"]]),
        fq.qmat(cont["sw1"]), fq.qmat(cont["sw2"]))


def gen_cell_sums(spec, sample):
    """(bins x patches) sums by the python-side rule: labels and the text of a report only, never a verdict"""
    edges, closed = spec["edges"], spec["closed"]
    nb = len(edges) - 1
    if not sample["binned"]:
        return [[sum(w if sample["hasw"] else 1.0 for _, w in objs) for objs in sample["patches"]] for _ in range(nb)]
    return [[sum((w if sample["hasw"] else 1.0) for z, w in objs if gen_member(closed, edges, b, z)) for objs in sample["patches"]]
            for b in range(nb)]


def gen_cell_counts(spec, sample):
    edges, closed = spec["edges"], spec["closed"]
    nb = len(edges) - 1
    if not sample["binned"]:
        return [[len(objs) for objs in sample["patches"]] for _ in range(nb)]
    return [[sum(1 for z, _ in objs if gen_member(closed, edges, b, z)) for objs in sample["patches"]] for b in range(nb)]


def label_linked(ctx, spec, cname, cont):
    edges, closed = spec["edges"], spec["closed"]
    s1, s2 = spec["samples"][cont["s1"]], spec["samples"][cont["s2"]]
    n1, n2 = gen_cell_counts(spec, s1), gen_cell_counts(spec, s2)
    nb = len(edges) - 1
    cross_pairs = [(i, j) for i, j in cont["pairs"] if not (cont["auto"] and i == j)]
    partner_empty = any((n1[b][i] == 0) != (n2[b][j] == 0) for i, j in cross_pairs for b in range(nb))
    other_patch = any(i != j for i, j in cont["pairs"])
    zs = [z for s in (s1, s2) if s["binned"] for objs in s["patches"] for z, _ in objs]
    on_edge = any(z in edges for z in zs)
    outside = any(not gen_inside(closed, edges, z) for z in zs)
    dead_bin = any(s["binned"] and any(all(v == 0 for v in row) for row in n) for s, n in ((s1, n1), (s2, n2)))
    one_bin_patch = any(s["binned"] and nb >= 2 and any(sum(1 for b in range(nb) if n[b][p] > 0) == 1 for p in range(len(s["patches"])))
                        for s, n in ((s1, n1), (s2, n2)))
    for name, flag in (("partner_empty_cell", partner_empty), ("pairs_of_different_patches", other_patch), ("z_on_edge", on_edge),
                       ("z_outside_binning", outside), ("bin_empty_in_every_patch", dead_bin), ("patch_populated_in_one_bin_only", one_bin_patch),
                       ("unbinned_side", not (s1["binned"] and s2["binned"])), ("mixed_weight_columns", s1["hasw"] != s2["hasw"])):
        if flag:
            ctx.bump("linked:" + name)
    how = flavour_of(spec)
    key = ("linked", closed, tuple(edges), tuple(spec["gaps"]), spec["kind"], cname,
           tuple((n, s["binned"], s["hasw"], tuple(tuple(tuple(o) for o in objs) for objs in s["patches"]))
                 for n, s in ((cont["s1"], s1), (cont["s2"], s2))), how, spec.get("workers"))
    ctx.count(key=key, nontrivial=partner_empty,
              kind="linked/%s/%s/%s%s" % (spec["kind"], cname, closed, "/" + how if how else ""))
    return dict(partner_empty=partner_empty, pairs_of_different_patches=other_patch, z_on_edge=on_edge, z_outside=outside,
                bin_empty_in_every_patch=dead_bin, patch_populated_in_one_bin_only=one_bin_patch)


def interpret_linked(ctx, idx, spec, cname, cont, info, c):
    """bits (set = flag false): 1 / 2 model of count_pairs = sum_weights1 / sum_weights2, 4 / 8 sum_weights1 / sum_weights2 = spec,
    16 hypotheses, 32 / 64 side 1: a populated cell reported as 0 / an empty cell reported non-zero, 128 / 256 the same for side 2"""
    if c is None:
        return
    case = ("linked", idx)
    if c & 16:
        ctx.obligation("generator:linked case %d container %s satisfies the theorems' hypotheses" % (idx, cname), False, repr((spec, cont)))
        return
    if c & 3:
        ctx.disagree("Linked_C10", case, dict(code=c, container=cname, spec=spec, observed=cont))
    how = flavour_of(spec)
    how = ":" + how if how else ""
    for side, bit, zero_bit, nonzero_bit in ((1, 4, 32, 64), (2, 8, 128, 256)):
        if not (c & bit):
            continue
        sname = cont["s%d" % side]
        sample = spec["samples"][sname]
        kind = "populated-cell-reported-zero" if c & zero_bit else "empty-cell-reported-nonzero" if c & nonzero_bit else "wrong-sum"
        rule = ("the closed-%s rule applied to the objects of each patch" % spec["closed"]) if sample["binned"] else \
            "the total weight of each patch in every bin (sample without binning: every object counts in every bin)"
        ctx.fail("c10-measurement-sum-weights:linked-patches:%s-sample:%s%s" % ("binned" if sample["binned"] else "unbinned", kind, how),
                 "%s over %d patches: %s.sum_weights.sum_weights%d (bins x patches, sample '%s') = %s, but %s gives %s; "
                 "edges %s, objects per patch %s, patch pairs counted %s%s" % (
                     "autocorrelate" if spec["kind"] == "auto" else "crosscorrelate", len(sample["patches"]), cname, side, sname,
                     cont["sw%d" % side], rule, gen_cell_sums(spec, sample), spec["edges"], sample["patches"], cont["pairs"], where_text(spec)),
                 dict(spec=spec, container=cname, side=side, observed=cont, labels=info, code=c), case=case)


def run_linked(ctx, specs, name="Linked_C10"):
    terms, kept = [], []
    refused = 0
    for idx, spec in enumerate(specs):
        ctx.bump("measurement-linked:" + spec["kind"])
        ctx.bump("linked:patches:%d" % len(next(iter(spec["samples"].values()))["patches"]))
        try:
            obs = observe_linked(ctx, spec, idx)
        except Exception as e:  # creating a catalog from valid rows must not raise
            ctx.fail("c10-harness-or-creation-raises:%s" % type(e).__name__,
                     "creating / observing the catalogs of a measurement over linked patches raised %s: %s" % (type(e).__name__, e),
                     dict(spec=spec, traceback=traceback.format_exc()[-1500:]), case=("linked", idx))
            continue
        if obs["refused"]:
            refused += 1
            ctx.bump("linked:refused:" + obs["refused"].split(":")[0])
            continue
        for where, err in sorted(obs["errors"].items()):
            ctx.fail("c10-measurement-raises:linked-patches:%s%s" % (err.split(":")[0], (":" + flavour_of(spec)) if flavour_of(spec) else ""),
                     "a measurement over several patches whose samples each hold objects inside the binning in every patch failed "
                     "(%s) where zeros are required for bins / patches without objects: %s" % (where, err),
                     dict(spec=spec, errors=obs["errors"]), case=("linked", idx))
        ctx.sample(dict(spec=spec, observed=obs), limit=5)
        for cname, cont in sorted(obs["containers"].items()):
            info = label_linked(ctx, spec, cname, cont)
            terms.append(linked_term(spec, cont))
            kept.append((idx, spec, cname, cont, info))
    ctx.obligation("generator:linked measurements accepted by the implementation (%d of %d refused)" % (refused, len(specs)),
                   refused * 5 <= len(specs), "refused: %d" % refused)
    ctx.log("%d pair-count containers of %d measurements over linked patches observed, evaluating in Coq" % (len(terms), len(specs)))
    if not terms:
        return []
    codes = ctx.shards(name, HEADER, terms, shard=150)
    for (idx, spec, cname, cont, info), c in zip(kept, codes):
        interpret_linked(ctx, idx, spec, cname, cont, info, c)
    return codes


# ---------------------------------------------------------------- histories of the tree cache
class _Interrupted(BaseException):
    """raised by the fault injection below inside BinnedTrees.build (not an Exception: nothing in yaw handles it, like a kill)"""


class interrupted_after:
    """fault injection for an interrupted catalog-wide build: `fuel` tree (re)builds complete, the next one is hit after
    BinnedTrees.build has invalidated the patch's cache (binning file removed) and before new trees are written.
    yaw.catalog.trees.build_trees is the module-level function BinnedTrees.build calls for the actual work."""

    def __init__(self, fuel):
        self.fuel = int(fuel)

    def __enter__(self):
        import yaw.catalog.trees as T
        self.mod, self.orig = T, T.build_trees
        left = [self.fuel]

        def build_trees(*a, **k):
            if left[0] <= 0:
                raise _Interrupted()
            left[0] -= 1
            return self.orig(*a, **k)

        T.build_trees = build_trees
        return self

    def __exit__(self, *a):
        self.mod.build_trees = self.orig
        return False


def flip(closed):
    return "left" if closed == "right" else "right"


def alt_binnings(edges, closed):
    """binnings other than the requested one that a cache may still hold: other closed side, moved inner edges,
    one bin fewer / more, a wider / narrower redshift range, no binning; (name, edges or None, closed)"""
    other = flip(closed)
    nb = len(edges) - 1
    alts = [("flip", list(edges), other)] * 3
    if nb >= 2:
        moved = [edges[0]] + [(a + b) / 2.0 for a, b in zip(edges[1:-1], edges[2:])] + [edges[-1]]
        alts += [("moved", moved, closed)] * 2 + [("moved+flip", moved, other)]
        alts += [("merged", edges[:1] + edges[2:], closed)]
    split = edges[:1] + [(edges[0] + edges[1]) / 2.0] + edges[1:]
    alts += [("split", split, closed), ("split+flip", split, other)]
    wider = [edges[0] - 0.0625] + edges[1:-1] + [edges[-1] + 0.0625]
    narrower = [edges[0] + 0.03125] + edges[1:-1] + [edges[-1] - 0.03125]
    alts += [("wider", wider, closed), ("wider+flip", wider, other), ("narrower", narrower, closed), ("narrower+flip", narrower, other)]
    alts += [("unbinned", None, closed)]
    return alts


def patch_subset(rng, P, pattern=None):
    """(name, ids): which patches a partial (re)build reached"""
    pats = {"first": [0], "last": [P - 1], "all-but-first": list(range(1, P)), "all-but-last": list(range(P - 1)),
            "even": list(range(0, P, 2)), "odd": list(range(1, P, 2)), "prefix": list(range(rng.randrange(1, P))),
            "random": sorted(rng.sample(range(P), rng.randrange(1, P))), "all-reversed": list(range(P))[::-1]}
    name = pattern or rng.choice(["first", "first", "last", "all-but-first", "all-but-last", "even", "odd", "prefix", "random", "random",
                                  "all-reversed"])
    return name, pats[name]


def hstep(op, key, ids=None, fuel=None, force=False, via="build"):
    """one step of a cache history; key = (name, edges or None, closed)"""
    return dict(op=op, via=via, ids=ids, fuel=fuel, force=bool(force), name=key[0], edges=key[1], closed=key[2])


def step_keys(steps):
    return [(st["edges"], st["closed"]) for st in steps if st["edges"] is not None]


def history_objects(rng, P, edges, closed, hasw, keys):
    """per patch 2-7 objects on the edges / midpoints / outside values of the requested binning AND of the binnings of the
    history (where two binnings of a history disagree), and one object inside every binning involved"""
    crit = sorted(set(v for e, _ in [(edges, closed)] + keys for v in critical_values(e)))
    patches = []
    for _ in range(P):
        zs = []
        for _ in range(rng.randrange(2, 8)):
            if rng.random() < 0.85:
                zs.append(rng.choice(crit))
            else:
                zs.append(rng.randrange(int(edges[0] * 64) - 12, int(edges[-1] * 64) + 20) / 64.0)
        if not all(any(gen_inside(c, e, z) for z in zs) for e, c in [(edges, closed)] + keys):
            k = rng.randrange(len(edges) - 1)
            zs.insert(rng.randrange(len(zs) + 1), (edges[k] + edges[k + 1]) / 2.0)   # strictly inside every binning of alt_binnings
        patches.append([(z, rng.randrange(1, 41) / 8.0 if hasw else 1.0) for z in zs])
    return patches


HISTORY_TEMPLATES = ["partial-rebuild", "partial-rebuild", "interrupted-rebuild", "interrupted-rebuild", "interrupted-measurement",
                     "subset-only", "stale-subset", "stale-subset", "three-binnings", "interrupted-twice", "random", "random"]
UNK_TEMPLATES = ["fresh", "was-reference:partial", "was-reference:interrupted", "unbinned:stale-subset", "interrupted-only"]


def gen_history(rng, template, P, B, alts):
    binned = [a for a in alts if a[1] is not None]
    A, C = rng.choice(alts), rng.choice(alts)
    if template == "partial-rebuild":          # everything built with A, the rebuild with B reached a subset (per-patch builds)
        return [hstep("catalog", A), hstep("patches", B, ids=patch_subset(rng, P)[1], force=rng.random() < 0.2)]
    if template == "interrupted-rebuild":      # ... the rebuild with B was interrupted
        return [hstep("catalog", A), hstep("interrupted", B, fuel=rng.randrange(0, P))]
    if template == "interrupted-measurement":  # the same through the measurement's own build
        A = rng.choice(binned)
        return [hstep("catalog", A, via="auto"), hstep("interrupted", B, fuel=rng.randrange(1, P), via="auto")]
    if template == "subset-only":              # only some patches hold trees at all
        return [hstep("patches", B, ids=patch_subset(rng, P)[1])]
    if template == "stale-subset":             # everything built with B, then some patches with A
        return [hstep("catalog", B), hstep("patches", A, ids=patch_subset(rng, P)[1])]
    if template == "three-binnings":
        return [hstep("catalog", A), hstep("patches", B, ids=patch_subset(rng, P)[1]), hstep("patches", C, ids=patch_subset(rng, P)[1])]
    if template == "interrupted-twice":
        return [hstep("interrupted", A, fuel=rng.randrange(1, P + 1)), hstep("interrupted", B, fuel=rng.randrange(0, P))]
    steps = []
    for _ in range(rng.randrange(1, 5)):
        key = rng.choice(alts + [B, B, B])
        op = rng.choice(["patches", "patches", "catalog", "interrupted"])
        steps.append(hstep(op, key, ids=patch_subset(rng, P)[1] if op == "patches" else None,
                           fuel=rng.randrange(0, P + 1) if op == "interrupted" else None, force=rng.random() < 0.25))
    return steps


def gen_unk_history(rng, template, P, B, alts):
    """history of the catalog used as the sample WITHOUT binning (unknown sample of a cross-correlation)"""
    binned = [a for a in alts if a[1] is not None] + [B, B]
    X, U = rng.choice(binned), ("unbinned", None, B[2])
    if template == "was-reference:partial":     # served as reference sample before; the unbinned rebuild reached a subset
        return [hstep("catalog", X), hstep("patches", U, ids=patch_subset(rng, P)[1])]
    if template == "was-reference:interrupted":
        return [hstep("catalog", X), hstep("interrupted", U, fuel=rng.randrange(0, P))]
    if template == "unbinned:stale-subset":
        return [hstep("catalog", U), hstep("patches", X, ids=patch_subset(rng, P)[1])]
    if template == "interrupted-only":
        return [hstep("interrupted", X, fuel=rng.randrange(1, P + 1))]
    return []


def random_history_spec(rng):
    edges = random_edges(rng)
    closed = rng.choice(["left", "right"])
    hasw = rng.random() < 0.5
    P = rng.choice([2, 3, 3, 4, 4, 5])
    B = ("requested", list(edges), closed)
    alts = alt_binnings(edges, closed)
    template = rng.choice(HISTORY_TEMPLATES)
    history = gen_history(rng, template, P, B, alts)
    meas = rng.choice([None, "auto", "auto", "cross", "cross"])
    final = rng.choice(["build_trees", "build_trees", "measure"]) if meas else "build_trees"
    force = final == "build_trees" and rng.random() < 0.15
    unk_template, unk_history = None, None
    if meas == "cross":
        unk_template = rng.choice(UNK_TEMPLATES)
        unk_history = gen_unk_history(rng, unk_template, P, B, alts)
    patches = history_objects(rng, P, edges, closed, hasw, step_keys(history) + step_keys(unk_history or []))
    spec = dict(tag="history:%s%s" % (template, ":unk:" + unk_template if unk_template else ""), family="history", closed=closed, hasw=hasw,
                edges=list(edges), patches=patches, history=history, final=final, force=force, meas=meas,
                cfg=rng.choice(["binning", "configuration"]), unk_history=unk_history)
    r = rng.random()
    if r < 0.15:
        spec.update(tag=spec["tag"] + ":pickling", pool="pickling", workers=rng.choice([2, 3, 5]), order_seed=rng.randrange(10 ** 6))
    elif r < 0.19:
        spec.update(tag=spec["tag"] + ":real", pool="real", workers=rng.choice([2, 3]))
    return spec


def history_probe_specs():
    """deterministic: four patches with redshifts on every edge of the requested binning, trees for another closed side /
    other inner edges cached everywhere, then a rebuild with the requested binning that reached only the first patch, all but
    the first, the last, every second patch, or was interrupted; measured through build_trees, autocorrelate, crosscorrelate"""
    out = []
    edges = [0.25, 0.5, 0.75, 1.0]
    zs = [0.125, 0.25, 0.375, 0.5, 0.625, 0.75, 0.875, 1.0, 1.25]
    for closed in ("left", "right"):
        B = ("requested", edges, closed)
        flipk = ("flip", edges, flip(closed))
        moved = ("moved", [0.25, 0.625, 0.875, 1.0], closed)
        unb = ("unbinned", None, closed)
        patches = [[(zs[(3 * p + j) % len(zs)], (2.0 ** j) / 8.0) for j in range(5)] + [(0.5, 4.0), (0.6875, 8.0)] for p in range(4)]
        base = dict(family="history", closed=closed, hasw=True, edges=edges, patches=patches, force=False, unk_history=None)
        cases = [
            ("first-only:auto", [hstep("catalog", flipk, via="auto"), hstep("patches", B, ids=[0])], "measure", "auto", None),
            ("first-only:build", [hstep("catalog", moved), hstep("patches", B, ids=[0])], "build_trees", None, None),
            ("all-but-first:cross", [hstep("catalog", flipk), hstep("patches", B, ids=[1, 2, 3])], "measure", "cross",
             [hstep("catalog", B), hstep("patches", unb, ids=[0])]),
            ("last-only:build", [hstep("catalog", flipk), hstep("patches", B, ids=[3])], "build_trees", "auto", None),
            ("alternating:auto", [hstep("catalog", moved), hstep("patches", B, ids=[0, 2])], "measure", "auto", None),
            ("interrupted:cross", [hstep("catalog", flipk, via="auto"), hstep("interrupted", B, fuel=2, via="auto")], "build_trees", "cross",
             [hstep("catalog", flipk), hstep("interrupted", unb, fuel=1)]),
            ("stale-tail:auto", [hstep("catalog", B), hstep("patches", flipk, ids=[2, 3])], "measure", "auto", None),
            ("subset-only:auto", [hstep("patches", B, ids=[0, 1])], "measure", "auto", None),
            ("unbinned-first:build", [hstep("catalog", unb), hstep("patches", B, ids=[0, 3])], "build_trees", "auto", None),
        ]
        for name, hist, final, meas, unk in cases:
            out.append(dict(base, tag="history:probe:%s:%s" % (name, closed), history=hist, final=final, meas=meas, unk_history=unk,
                            cfg="configuration" if len(out) % 2 else "binning"))
        out.append(dict(base, tag="history:probe:first-only:forced:%s" % closed, history=[hstep("catalog", flipk), hstep("patches", B, ids=[0])],
                        final="build_trees", force=True, meas="auto", cfg="binning"))
        out.append(dict(base, tag="history:probe:first-only:pickling:%s" % closed, history=[hstep("catalog", flipk), hstep("patches", B, ids=[0])],
                        final="measure", meas="auto", cfg="binning", pool="pickling", workers=3, order_seed=7))
        out.append(dict(base, tag="history:probe:first-only:real:%s" % closed, history=[hstep("catalog", moved), hstep("interrupted", B, fuel=1)],
                        final="build_trees", meas="auto", cfg="configuration", pool="real", workers=2))
    return out


def history_specs(ctx):
    return history_probe_specs() + [random_history_spec(ctx.rng) for _ in range(ctx.n(100, 800))]


def run_history_steps(cat, steps, errors, where):
    """serial; an _Interrupted is the injected fault itself, any other exception is recorded (it is part of the history)"""
    import yaw
    from yaw.binning import Binning
    from yaw.catalog.trees import BinnedTrees
    for n, st in enumerate(steps or []):
        e, c = st["edges"], st["closed"]
        binning = None if e is None else Binning(np.asarray(e, dtype="f8"), closed=c)

        def catalog_wide():
            if st["via"] == "auto":
                conf = impl.Configuration.create(rmin=100.0, rmax=1000.0, edges=e, closed=c, max_workers=1)
                yaw.autocorrelate(conf, cat, cat, count_rr=False, max_workers=1)
            else:
                cat.build_trees(None if e is None else np.asarray(e, dtype="f8"), closed=c, force=st["force"], max_workers=1)
        try:
            if st["op"] == "patches":
                for p in st["ids"]:
                    BinnedTrees.build(cat[p], binning, force=st["force"])
            elif st["op"] == "catalog":
                catalog_wide()
            else:
                try:
                    with interrupted_after(st["fuel"]):
                        catalog_wide()
                except _Interrupted:
                    pass
        except Exception as ex:  # noqa: BLE001
            errors["%s[%d]" % (where, n)] = "%s: %s" % (type(ex).__name__, ex)


def cache_snapshot(cat, P, errors=None, where=""):
    """per patch None (no valid trees) or (key, [(num_records, sum_weights) per tree]); key = None (no binning) or (edges, closed)"""
    from yaw.catalog.trees import BinnedTrees
    out = []
    for p in range(P):
        try:
            bt = BinnedTrees(cat[p])
            key = None if bt.binning is None else ([float(x) for x in np.asarray(bt.binning.edges, dtype="f8")], str(bt.binning.closed))
            tr = bt.trees
            tr = [tr] if bt.binning is None else list(tr)
            out.append((key, [(int(t.num_records), float(t.sum_weights)) for t in tr]))
        except FileNotFoundError:
            out.append(None)
        except Exception as ex:  # noqa: BLE001 - a cache that cannot be read holds no valid trees
            out.append(None)
            if errors is not None:
                errors["%s[patch %d]" % (where, p)] = "%s: %s" % (type(ex).__name__, ex)
    return out


def observe_history(ctx, spec, idx):
    """returns dict(pre, post, hist, meas, unk_pre, unk_post, unk_meas, errors)"""
    import yaw
    from yaw.config import BinningConfig
    from yaw.redshifts import HistData

    impl.set_threads(1)
    edges, closed, hasw = spec["edges"], spec["closed"], spec["hasw"]
    W = int(spec.get("workers") or 1)
    P = len(spec["patches"])
    cols = make_frames(spec)
    kw = dict(ra_name="ra", dec_name="dec", patch_name="pid", redshift_name="z", max_workers=1)
    if hasw:
        kw["weight_name"] = "w"
    cache = impl.fresh_dir(ctx, "hcat_%d" % idx)
    cache_u = impl.fresh_dir(ctx, "hcatu_%d" % idx) if spec["meas"] == "cross" else None
    errors = {}
    obs = dict(pre=None, post=None, hist=None, meas=None, unk_pre=None, unk_post=None, unk_meas=None, errors=errors)
    old = np.seterr(invalid="ignore", divide="ignore")
    try:
        cat = impl.Catalog.from_dataframe(cache, impl.make_df(cols), **kw)
        assert sorted(int(k) for k in cat.keys()) == list(range(P)), "patch ids"
        cat_u = None
        if cache_u:     # the same rows; the redshift column is kept so that this catalog can have served as a binned sample before
            cat_u = impl.Catalog.from_dataframe(cache_u, impl.make_df(cols), **kw)
        run_history_steps(cat, spec["history"], errors, "history")
        if cat_u is not None:
            run_history_steps(cat_u, spec["unk_history"], errors, "unk_history")
            obs["unk_pre"] = cache_snapshot(cat_u, P)
        obs["pre"] = cache_snapshot(cat, P)
        with pool_flavour(spec):
            built = True
            if spec["final"] == "build_trees":
                try:
                    cat.build_trees(np.asarray(edges, dtype="f8"), closed=closed, force=spec["force"], max_workers=W)
                except Exception as e:  # noqa: BLE001
                    built = False
                    errors["build_trees"] = "%s: %s" % (type(e).__name__, e)
            try:
                if spec["cfg"] == "binning":
                    conf = BinningConfig.create(edges=edges, closed=closed)
                else:
                    conf = impl.Configuration.create(rmin=100.0, rmax=1000.0, edges=edges, closed=closed, max_workers=W)
                obs["hist"] = [float(x) for x in HistData.from_catalog(cat, conf, max_workers=W).data]
            except Exception as e:  # noqa: BLE001
                errors["hist"] = "%s: %s" % (type(e).__name__, e)
            if spec["meas"] and built:
                try:
                    conf = impl.Configuration.create(rmin=100.0, rmax=1000.0, edges=edges, closed=closed, max_workers=W)
                    if spec["meas"] == "auto":
                        sw = yaw.autocorrelate(conf, cat, cat, count_rr=False, max_workers=W)[0].dd.sum_weights
                        if not np.array_equal(sw.sum_weights1, sw.sum_weights2):
                            errors["meas_sides"] = "autocorrelate(cat, cat): dd.sum_weights.sum_weights1 != sum_weights2"
                    else:
                        sw = yaw.crosscorrelate(conf, cat, cat_u, unk_rand=cat_u, max_workers=W)[0].dd.sum_weights
                        obs["unk_meas"] = [[float(x) for x in row] for row in np.asarray(sw.sum_weights2)]
                    obs["meas"] = [[float(x) for x in row] for row in np.asarray(sw.sum_weights1)]
                except Exception as e:  # noqa: BLE001
                    errors["meas"] = "%s: %s" % (type(e).__name__, e)
        obs["post"] = cache_snapshot(cat, P, errors, "cache")
        if cat_u is not None:
            obs["unk_post"] = cache_snapshot(cat_u, P, errors, "unk_cache")
        return obs
    finally:
        np.seterr(**old)
        impl.set_threads(1)
        shutil.rmtree(cache, ignore_errors=True)
        if cache_u:
            shutil.rmtree(cache_u, ignore_errors=True)


def key_term(key):
    """key = None or (edges, closed)"""
    return fq.opt(key, lambda k: fq.pair(fq.b(k[1] == "right"), fq.qlist(k[0])))


def hstep_term(st):
    key = key_term(None if st["edges"] is None else (st["edges"], st["closed"]))
    if st["op"] == "patches":
        return "(HPatches %s %s %s)" % (fq.nlist(st["ids"]), fq.b(st["force"]), key)
    if st["op"] == "catalog":
        return "(HCatalog %s %s)" % (fq.b(st["force"]), key)
    return "(HInterrupted %s %s %s)" % (fq.nat(st["fuel"]), fq.b(st["force"]), key)


def cache_term(snap):
    return fq.lst([fq.opt(e, lambda e_: fq.pair(key_term(e_[0]), fq.lst([fq.pair(fq.nat(n), fq.q(w)) for n, w in e_[1]]))) for e in snap])


def history_terms(spec, obs):
    """the catalog measured with the configured binning, and (cross) the catalog measured without binning"""
    patches = fq.lst([fq.lst([fq.pair(fq.q(z), fq.q(w)) for z, w in objs]) for objs in spec["patches"]])
    head = "c10_cache_case %s %s" % (fq.b(spec["hasw"]), patches)
    main = "%s %s %s %s %s %s %s %s %s" % (
        head, fq.lst([hstep_term(st) for st in spec["history"]]), fq.b(spec["force"]), key_term((spec["edges"], spec["closed"])),
        fq.qlist(spec["edges"]), cache_term(obs["pre"]), cache_term(obs["post"]), fq.opt(obs["hist"], fq.qlist), fq.opt(obs["meas"], fq.qmat))
    unk = None
    if obs["unk_post"] is not None:
        unk = "%s %s false None %s %s %s None %s" % (
            head, fq.lst([hstep_term(st) for st in spec["unk_history"]]), fq.qlist(spec["edges"]), cache_term(obs["unk_pre"]),
            cache_term(obs["unk_post"]), fq.opt(obs["unk_meas"], fq.qmat))
    return main, unk


def label_history(ctx, spec, obs):
    edges, closed = spec["edges"], spec["closed"]
    want = (list(edges), closed)
    zs = [z for objs in spec["patches"] for z, _ in objs]
    on_edge = any(z in edges for z in zs)
    info = dict(z_on_edge=on_edge)
    for side, pre, req in (("", obs["pre"], want), ("unk:", obs["unk_pre"], None)):
        if pre is None:
            continue
        keys = [("missing",) if e is None else ("key", repr(e[0])) for e in pre]
        cur = [e is not None and e[0] == req for e in pre]
        flags = dict(mixed=len(set(keys)) > 1, stale=any(e is not None and e[0] != req for e in pre), missing=any(e is None for e in pre),
                     first_current_others_not=cur[0] and not all(cur), first_not_current_others_are=not cur[0] and any(cur),
                     all_current=all(cur))
        # a patch whose cached binning puts one of its objects into another bin than the requested one (labels only)
        moved = False
        if req is not None:
            for e, objs in zip(pre, spec["patches"]):
                if e is not None and e[0] is not None and e[0] != req:
                    moved = moved or any([gen_member(e[0][1], e[0][0], b, z) for b in range(len(e[0][0]) - 1)] !=
                                         [gen_member(closed, edges, b, z) for b in range(len(edges) - 1)] for z, _ in objs)
            flags["stale_binning_moves_an_object"] = moved
        for name, flag in flags.items():
            if flag:
                ctx.bump("history:%spre:%s" % (side, name))
            info[side + name] = flag
    ctx.bump("history:template:" + spec["tag"].split(":")[1])
    ctx.bump("history:final:%s%s" % (spec["final"], ":forced" if spec["force"] else ""))
    ctx.bump("history:patches:%d" % len(spec["patches"]))
    if spec["meas"]:
        ctx.bump("history:measurement:" + spec["meas"])
    for st in (spec["history"] or []) + (spec["unk_history"] or []):
        ctx.bump("history:step:%s:%s" % (st["op"], st["name"]))
    how = flavour_of(spec)
    steps = lambda h: tuple((st["op"], st["via"], tuple(st["ids"] or ()), st["fuel"], st["force"], tuple(st["edges"] or ()), st["closed"])  # noqa: E731
                            for st in (h or []))
    key = ("history", closed, spec["hasw"], tuple(edges), tuple(tuple(o) for objs in spec["patches"] for o in objs + [("|", 0)]),
           steps(spec["history"]), spec["final"], spec["force"], spec["meas"], spec["cfg"], steps(spec["unk_history"]), how, spec.get("workers"))
    nontrivial = bool(info.get("mixed") or info.get("stale") or info.get("missing") or info.get("unk:mixed") or info.get("unk:stale"))
    ctx.count(key=key, nontrivial=nontrivial, kind="history/%s/%s/%s%s" % (closed, spec["final"], spec["meas"] or "trees-only", "/" + how if how else ""))
    return info


def interpret_history(ctx, idx, spec, obs, info, c, cu):
    """bits (set = flag false): 1 model of the cache = observed cache after the measured build, 2 observed trees = spec, 4 every patch reports
    the requested binning, 8 hist = spec, 16 consistent, 32 model of the history = observed cache before the measured build, 64 hist = model of
    the current histogram, 128 measurement = spec, 256 hypotheses, 512 every patch with wrong trees still holds its earlier entry"""
    case = ("history", idx)
    how = flavour_of(spec)
    how = ":" + how if how else ""
    if spec.get("near"):        # the binnings of the history are near-equal variants of the requested one ('near' family)
        how = ":near-equal-binnings" + how
    via = "Catalog.build_trees(force=%s)" % spec["force"] if spec["final"] == "build_trees" else "%scorrelate" % spec["meas"]
    def steps_text(steps):
        return "; ".join("%s%s with %s" % (
            {"patches": "BinnedTrees.build on patches %s" % st["ids"], "catalog": "catalog-wide build",
             "interrupted": "catalog-wide build interrupted after %s rebuilds" % st["fuel"]}[st["op"]],
            " (via autocorrelate)" if st["via"] == "auto" else ", force=True" if st["force"] else "",
            "no binning" if st["edges"] is None else "edges %s closed=%s" % (st["edges"], st["closed"])) for st in steps or [])
    for which, code, pre, post, meas in (("", c, obs["pre"], obs["post"], obs["meas"]), ("unbinned-sample:", cu, obs["unk_pre"], obs["unk_post"], obs["unk_meas"])):
        if code is None:
            continue
        replay = dict(spec=spec, observed=obs, labels=info, code=code, sample=which or "binned-sample")
        if code & 256:
            ctx.obligation("generator:history case %d %ssatisfies the theorems' hypotheses" % (idx, which), False, repr(spec))
            continue
        if code & (1 | 32):
            ctx.disagree("History_C10", case, dict(code=code, sample=which, spec=spec, observed=obs))
        stale = ":stale-trees-kept" if (code & 2) and not (code & 512) else ""
        hist_text = steps_text(spec["unk_history"] if which else spec["history"])
        req = None if which else (list(spec["edges"]), spec["closed"])
        wrong = [p for p, (a, b) in enumerate(zip(pre or [], post or [])) if a is not None and a == b and a[0] != req]
        if not which:
            if code & 2:
                if "build_trees" in obs["errors"]:
                    ctx.fail("c10-build-trees-raises:%s:after-cache-history%s" % (obs["errors"]["build_trees"].split(":")[0], how),
                             "Catalog.build_trees raised on a catalog whose patches all hold objects inside the binning, after the cache history [%s]: %s"
                             % (hist_text, obs["errors"]["build_trees"]), replay, case=case)
                else:
                    ctx.fail("c10-trees-membership:after-cache-history%s%s" % (stale, how),
                             "after %s with edges %s closed=%s the cached trees of some patches do not follow that rule%s: cache history [%s]; "
                             "cache before %s; cache after %s; objects %s%s" % (
                                 via, spec["edges"], spec["closed"], " (patches %s kept the trees they held before)" % wrong if stale else "",
                                 hist_text, pre, post, spec["patches"], where_text(spec)), replay, case=case)
            if code & 8:
                if obs["hist"] is None:
                    ctx.fail("c10-hist-raises:" + obs["errors"].get("hist", "?").split(":")[0] + how,
                             "HistData.from_catalog raised: %s" % obs["errors"].get("hist"), replay, case=case)
                elif not (code & 64) and spec["closed"] == "right":
                    ctx.fail(SIG_F11, "HistData.from_catalog with closed=right counts a redshift on an inner bin edge in the upper bin "
                             "(mask + np.histogram): edges %s, objects %s, histogram %s" % (spec["edges"], spec["patches"], obs["hist"]),
                             replay, case=case)
                else:
                    ctx.fail("c10-hist-membership" + how, "HistData.from_catalog(...).data differs from the closed-%s rule%s: edges %s, "
                             "objects %s, histogram %s" % (spec["closed"], where_text(spec), spec["edges"], spec["patches"], obs["hist"]),
                             replay, case=case)
        if "meas" in obs["errors"] and spec["meas"] and not which:
            ctx.fail("c10-measurement-raises:%s:after-cache-history%s" % (obs["errors"]["meas"].split(":")[0], how),
                     "%scorrelate failed on catalogs whose patches all hold objects inside the binning, after the cache history [%s] "
                     "(cache before: %s): %s" % (spec["meas"], hist_text, pre, obs["errors"]["meas"]), replay, case=case)
        elif code & 128:
            ctx.fail("c10-measurement-sum-weights:%safter-cache-history%s%s" % (which, stale, how),
                     "%scorrelate with edges %s closed=%s: dd.sum_weights.sum_weights%d (bins x patches) = %s does not follow %s; history of that "
                     "catalog's cache [%s]; cache before the measurement %s, after %s%s; objects %s%s" % (
                         spec["meas"], spec["edges"], spec["closed"], 2 if which else 1, meas,
                         "the patch total in every bin (sample without binning)" if which else "the closed-side rule", hist_text,
                         pre, post, " (patches %s kept trees of another binning)" % wrong if stale else "", spec["patches"], where_text(spec)),
                     replay, case=case)
        elif (code & 16 or "meas_sides" in obs["errors"]) and not (code & (2 | 8)) and not which:
            ctx.fail("c10-consumers-inconsistent:after-cache-history" + how,
                     "trees, histogram and measurement sum_weights are mutually inconsistent: %s" % obs, replay, case=case)


def run_history_family(ctx, specs, name="History_C10", shard=100):
    terms, kept = [], []
    for idx, spec in enumerate(specs):
        try:
            obs = observe_history(ctx, spec, idx)
        except Exception as e:  # catalog creation of a valid input must not raise
            ctx.fail("c10-harness-or-creation-raises:%s" % type(e).__name__,
                     "creating / observing the catalog of a cache history raised %s: %s" % (type(e).__name__, e),
                     dict(spec=spec, traceback=traceback.format_exc()[-1500:]), case=("history", idx))
            continue
        for where, err in sorted(obs["errors"].items()):
            if where.startswith(("history", "unk_history")):
                ctx.bump("history:step-raised:" + err.split(":")[0])
        info = label_history(ctx, spec, obs)
        ctx.sample(dict(spec=spec, observed=obs), limit=4)
        main, unk = history_terms(spec, obs)
        kept.append((idx, spec, obs, info, len(terms), None if unk is None else len(terms) + 1))
        terms.append(main)
        if unk is not None:
            terms.append(unk)
    ctx.log("%d cache histories observed (%d evaluations), evaluating in Coq" % (len(kept), len(terms)))
    if not terms:
        return []
    codes = ctx.shards(name, HEADER, terms, shard=shard)
    hyp_ok = sum(1 for c in codes if c is not None and not (c & 256))
    ctx.extra["hypotheses_checked_history"] = {
        "every binning of the history and the requested one valid, an object of every patch inside each, patch ids exist "
        "(flag 8 of c10_cache_case, evaluated in Coq)": "%d/%d" % (hyp_ok, len(codes))}
    for idx, spec, obs, info, i, j in kept:
        interpret_history(ctx, idx, spec, obs, info, codes[i], None if j is None else codes[j])
    return codes


# ---------------------------------------------------------------- extreme sizes of the binning ('large' family)
UNIT_BITS = 20                           # every edge of the family is an integer multiple of 2^-20 (midpoints: 2^-21, exact in float64)
POW2 = [7, 8, 15, 16]                    # bin counts / bin indices around 2^k: the widths of the integer types an index fits into
STEPS_NARROW = [2.0 ** -20, 2.0 ** -16, 2.0 ** -12, 2.0 ** -10]
STEPS_WIDE = [0.5, 1.0, 4.0, 8.0]


def _units(x):
    v = x * 2.0 ** UNIT_BITS
    assert v == int(v) and abs(v) < 2 ** 62, "not a multiple of 2^-%d: %r" % (UNIT_BITS, x)
    return int(v)


def seg_edges_np(lo, segs):
    """the float64 edge array lo, lo + step, ... (per segment `count` further edges), computed exactly"""
    parts = [np.asarray([_units(lo)], dtype=np.int64)]
    start = _units(lo)
    for step, n in segs:
        st = _units(step)
        assert st > 0 and n > 0
        parts.append(start + st * np.arange(1, n + 1, dtype=np.int64))
        start += st * n
    ints = np.concatenate(parts)
    assert int(ints[-1]) < 2 ** 52 and int(ints[0]) > -2 ** 52
    edges = ints.astype(np.float64) / 2.0 ** UNIT_BITS
    assert np.all(np.diff(edges) > 0)
    return edges


def interesting_bins(rng, nb, segs):
    """first / last bins, bins around index 2^k - 1 and 2^k, the bins next to a change of width, some others"""
    out = {0, 1, nb // 2, nb - 2, nb - 1}
    for k in POW2:
        out.update(range(2 ** k - 3, 2 ** k + 2))
    pos = 0
    for _, n in segs[:-1]:
        pos += n
        out.update((pos - 1, pos, pos + 1))
    out.update(rng.randrange(nb) for _ in range(3))
    return sorted(b for b in out if 0 <= b < nb)


def large_objects(rng, closed, edges, segs, hasw, P, emptypatch=None, nmax=10):
    nb = len(edges) - 1
    ib = interesting_bins(rng, nb, segs)
    high = [b for b in ib if b >= 126] or ib
    last = [b for b in ib if b >= nb - 2]
    outs = [float(edges[0]) - 0.125, float(edges[-1]) + 0.25, float(edges[-1]) + 1.0,
            float(edges[0] if closed == "right" else edges[-1])]
    patches = []
    for p in range(P):
        zs = []
        for _ in range(rng.randrange(3, nmax + 1)):
            r = rng.random()
            if p == emptypatch or r < 0.15:
                zs.append(rng.choice(outs))
                continue
            b = rng.choice(last) if r < 0.4 else rng.choice(high) if r < 0.7 else rng.choice(ib) if r < 0.9 else rng.randrange(nb)
            lo, hi = float(edges[b]), float(edges[b + 1])
            zs.append(rng.choice([lo, hi, hi if closed == "right" else lo, (lo + hi) / 2.0]))
        if p != emptypatch and not any(edges[0] < z < edges[-1] for z in zs):
            zs.append(float(edges[-2] + edges[-1]) / 2.0)
        patches.append([(z, rng.randrange(1, 41) / 8.0 if hasw else 1.0) for z in zs])
    return patches


def random_layout(rng, nb):
    """(lo, segments): one linear segment, or 2-4 segments whose widths differ by factors of 2^9 .. 2^23"""
    lo = rng.choice([0.0, 0.25, 0.5, 1.0])
    if nb == 1 or rng.random() < 0.45:
        return lo, [(rng.choice(STEPS_NARROW + [2.0 ** -6, 0.25]), nb)]
    k = min(nb, rng.choice([2, 2, 3, 4]))
    cuts = sorted(rng.sample(range(1, nb), k - 1)) if nb > 2 else [1]
    wide_first = rng.random() < 0.5
    if rng.random() < 0.5 and nb > 3:       # a single very wide bin somewhere, also as the last or the first but one
        c = rng.choice([1, nb - 2, rng.randrange(1, nb - 1)])
        cuts = sorted({c, c + 1})
        wide_first = False
    counts = [b - a for a, b in zip([0] + cuts, cuts + [nb])]
    segs = []
    for j, n in enumerate(counts):
        wide = (j % 2 == 0) == wide_first and n <= 64
        segs.append((rng.choice(STEPS_WIDE) if wide else rng.choice(STEPS_NARROW), n))
    return lo, segs


def random_nbins(rng, quick):
    r = rng.random()
    if r < 0.15:
        return rng.choice([1, 1, 2, 2, 3])
    if r < 0.35:
        return 2 ** rng.choice([7, 8]) + rng.randrange(-2, 4)
    if r < 0.55:
        return rng.randrange(1000, 5001)
    if r < 0.75:
        return 2 ** 15 + rng.randrange(-2, 4)
    if r < 0.85:
        return 2 ** 16 + rng.randrange(-2, 4)
    return rng.choice([40000, 50000, 100000]) if quick else rng.randrange(33000, 100001)


def random_large_spec(rng, quick=True, meas_limit=5000):
    nb = random_nbins(rng, quick)
    lo, segs = random_layout(rng, nb)
    closed = rng.choice(["left", "right"])
    hasw = rng.random() < 0.5
    P = rng.choice([1, 1, 2, 2, 3])
    edges = seg_edges_np(lo, segs)
    emptypatch = rng.randrange(P) if rng.random() < 0.1 else None
    generated = len(segs) == 1 and rng.random() < 0.5
    cfg = "generated" if generated else rng.choice(["binning", "configuration"])
    meas = rng.choice([None, "auto", "auto", "cross"]) if nb <= meas_limit and (nb <= 5000 or rng.random() < 0.15) else None
    spec = dict(tag="large:%s:%s" % ("linear" if len(segs) == 1 else "narrow-wide", cfg), family="large", closed=closed, hasw=hasw,
                lo=lo, segs=[(st, n) for st, n in segs], patches=large_objects(rng, closed, edges, segs, hasw, P, emptypatch),
                meas=meas, cfg=cfg)
    r = rng.random()
    if r < 0.12:
        spec.update(tag=spec["tag"] + ":pickling", pool="pickling", workers=rng.choice([2, 3]), order_seed=rng.randrange(10 ** 6))
    elif r < 0.2:
        spec.update(tag=spec["tag"] + ":real", pool="real", workers=2)
    return spec


def large_probe_specs(quick=True):
    """deterministic: for each closed side 1 bin; 2 bins (2^-20 next to 8); 2^7 + 3 and 2^8 + 3 bins with a measurement; 2^15 + 3 bins
    with a measurement over one patch; 2^16 + 3 generated bins; 10^5 bins, a bin of width 4 in the middle and one as the last bin but
    one; every probe holds objects on both edges and the midpoint of the last two bins, of the bins around index 2^k - 1 / 2^k, of the
    first bin, on the open outer edge and outside"""
    out = []
    for closed in ("left", "right"):
        def objs(lo, segs, P, hasw, bins=None):
            edges = seg_edges_np(lo, segs)
            nb = len(edges) - 1
            bins = [b for b in (bins or interesting_bins(_NoRandom(), nb, segs)) if 0 <= b < nb]
            vals = []
            for b in bins:
                vals += [float(edges[b]), float(edges[b + 1]), float(edges[b] + edges[b + 1]) / 2.0]
            vals += [float(edges[0]) - 0.125, float(edges[-1]) + 0.25]
            vals = sorted(set(vals))
            patches = [[] for _ in range(P)]
            for j, z in enumerate(vals):
                patches[j % P].append((z, (2.0 ** (j % 7)) / 8.0 if hasw else 1.0))
            return patches
        probes = [
            ("1bin", 0.5, [(0.5, 1)], 1, True, "auto", "binning", {}),
            ("2bins-narrow-wide", 0.25, [(2.0 ** -20, 1), (8.0, 1)], 2, False, "cross", "configuration", {}),
            ("2^7+3", 0.0, [(2.0 ** -10, 2 ** 7 + 3)], 2, True, "auto", "generated", dict(pool="pickling", workers=2, order_seed=3)),
            ("2^8+3", 0.25, [(2.0 ** -12, 200), (4.0, 1), (2.0 ** -12, 2 ** 8 + 2 - 200)], 3, True, "auto", "binning", {}),
            ("2^15+3", 0.0, [(2.0 ** -10, 2 ** 15 + 3)], 1, True, "auto", "configuration", {}),
            ("2^16+3-generated", 0.25, [(2.0 ** -12, 2 ** 16 + 3)], 2, False, None, "generated", dict(pool="real", workers=2)),
            ("10^5-narrow-wide", 0.5, [(2.0 ** -16, 50000), (4.0, 1), (2.0 ** -16, 49997), (4.0, 1), (2.0 ** -20, 1)], 2, True, None,
             "binning", {}),
        ]
        for name, lo, segs, P, hasw, meas, cfg, fl in probes:
            nb = sum(n for _, n in segs)
            if meas and nb > 2 ** 15 + 3 and quick:
                meas = None
            out.append(dict(tag="large:probe:%s:%s" % (name, closed), family="large", closed=closed, hasw=hasw, lo=lo, segs=segs,
                            patches=objs(lo, segs, P, hasw), meas=meas, cfg=cfg, **fl))
    return out


class _NoRandom:
    """interesting_bins without its random extras"""

    @staticmethod
    def randrange(n):
        return 0


def large_specs(ctx):
    quick = ctx.quick()
    out = large_probe_specs(quick)
    for _ in range(ctx.n(22, 160)):
        out.append(random_large_spec(ctx.rng, quick, meas_limit=5000 if quick else 40000))
    return out


def sparse_of(values, empty):
    """(number of entries, [(index, value) for the entries that differ from `empty`])"""
    return [len(values), [(i, v) for i, v in enumerate(values) if v != empty]]


def sparse_np(arr):
    arr = np.asarray(arr, dtype="f8")
    if not np.all(np.isfinite(arr)):
        raise ValueError("non-finite per-bin value")
    nz = np.flatnonzero(arr != 0.0)
    return [int(len(arr)), [(int(i), float(arr[i])) for i in nz]]


def observe_large(ctx, spec, idx):
    """returns dict(nbins, trees=[per patch sparse (n, w) or None], hist=sparse or None, meas=[per patch sparse column] or None,
    errors, skipped=reason or None)"""
    import yaw
    from yaw.catalog.trees import BinnedTrees
    from yaw.config import BinningConfig
    from yaw.redshifts import HistData

    impl.set_threads(1)
    closed, hasw = spec["closed"], spec["hasw"]
    edges = seg_edges_np(spec["lo"], spec["segs"])
    nb = len(edges) - 1
    W = int(spec.get("workers") or 1)
    P = len(spec["patches"])
    cols = make_frames(spec)
    kw = dict(ra_name="ra", dec_name="dec", patch_name="pid", max_workers=1)
    if hasw:
        kw["weight_name"] = "w"
    cache = impl.fresh_dir(ctx, "bcat_%d" % idx)
    cache_u = None
    errors = {}
    obs = dict(nbins=nb, trees=None, hist=None, meas=None, errors=errors, skipped=None)
    scales = dict(rmin=1.0, rmax=10.0, unit="arcmin")
    old = np.seterr(invalid="ignore", divide="ignore")
    try:
        if spec["cfg"] == "generated":      # zmin / zmax / num_bins: the implementation generates the (linear) edges
            gen = dict(zmin=float(edges[0]), zmax=float(edges[-1]), num_bins=nb, method="linear", closed=closed)
            bconf = BinningConfig.create(**gen)
            conf = impl.Configuration.create(max_workers=W, **scales, **gen)
            for c in (bconf, conf):
                got = np.asarray(binning_of(c).edges, dtype="f8")
                if got.shape != edges.shape or not np.array_equal(got, edges):
                    obs["skipped"] = "generated edges differ from lo + k * step"
                    return obs
            use_edges = np.asarray(bconf.edges, dtype="f8")
            hconf = bconf if idx % 2 else conf
        else:
            use_edges = edges
            bconf = BinningConfig.create(edges=edges, closed=closed)
            conf = impl.Configuration.create(max_workers=W, edges=edges, closed=closed, **scales)
            hconf = bconf if spec["cfg"] == "binning" else conf
        cat = impl.Catalog.from_dataframe(cache, impl.make_df(cols), redshift_name="z", **kw)
        assert sorted(int(k) for k in cat.keys()) == list(range(P)), "patch ids"
        whole = None
        with pool_flavour(spec):
            try:
                cat.build_trees(use_edges, closed=closed, max_workers=W)
            except Exception as e:  # noqa: BLE001 - zeros are required, not an error
                whole = e
                errors["build_trees"] = "%s: %s" % (type(e).__name__, e)
        trees = []
        for p in range(P):
            if whole is not None:
                try:
                    BinnedTrees.build(cat[p], binning_of(bconf), force=True)
                except Exception as e:  # noqa: BLE001
                    errors["build_trees[patch %d]" % p] = "%s: %s" % (type(e).__name__, e)
                    trees.append(None)
                    continue
            try:
                trees.append(sparse_of([(int(t.num_records), float(t.sum_weights)) for t in BinnedTrees(cat[p])], (0, 0.0)))
            except Exception as e:  # noqa: BLE001
                errors["read_trees[patch %d]" % p] = "%s: %s" % (type(e).__name__, e)
                trees.append(None)
        obs["trees"] = trees
        with pool_flavour(spec):
            try:
                obs["hist"] = sparse_np(HistData.from_catalog(cat, hconf, max_workers=W).data)
            except Exception as e:  # noqa: BLE001
                errors["hist"] = "%s: %s" % (type(e).__name__, e)
            if spec["meas"] and whole is None:
                try:
                    if spec["meas"] == "auto":
                        sw = yaw.autocorrelate(conf, cat, cat, count_rr=False, max_workers=W)[0].dd.sum_weights
                        if not np.array_equal(sw.sum_weights1, sw.sum_weights2):
                            errors["meas"] = "autocorrelation: sum_weights1 != sum_weights2"
                    else:
                        cache_u = impl.fresh_dir(ctx, "bcatu_%d" % idx)
                        cat_u = impl.Catalog.from_dataframe(cache_u, impl.make_df(cols), **kw)
                        sw = yaw.crosscorrelate(conf, cat, cat_u, unk_rand=cat_u, max_workers=W)[0].dd.sum_weights
                    mat = np.asarray(sw.sum_weights1, dtype="f8")
                    if mat.shape != (nb, P):
                        errors["meas"] = "sum_weights1 has shape %s, expected (%d, %d)" % (mat.shape, nb, P)
                    else:
                        obs["meas"] = [sparse_np(mat[:, p]) for p in range(P)]
                except Exception as e:  # noqa: BLE001
                    errors["meas"] = "%s: %s" % (type(e).__name__, e)
        return obs
    finally:
        np.seterr(**old)
        impl.set_threads(1)
        shutil.rmtree(cache, ignore_errors=True)
        if cache_u:
            shutil.rmtree(cache_u, ignore_errors=True)


def zlit(n):
    return "(%d)%%Z" % int(n)


def large_term(spec, obs):
    segs = fq.lst(["(%s, N.to_nat %d)" % (fq.q(st), n) for st, n in spec["segs"]])
    patches = fq.lst([fq.lst([fq.pair(fq.q(z), fq.q(w)) for z, w in objs]) for objs in spec["patches"]])
    stree = lambda o: fq.pair(zlit(o[0]), fq.lst([fq.pair(zlit(b), fq.pair(fq.nat(v[0]), fq.q(v[1]))) for b, v in o[1]]))  # noqa: E731
    swsum = lambda o: fq.pair(zlit(o[0]), fq.lst([fq.pair(zlit(b), fq.q(v)) for b, v in o[1]]))  # noqa: E731
    return "c10_big_case %s %s %s %s %s %s %s %s %s" % (
        fq.b(spec["closed"] == "right"), fq.b(spec["hasw"]), fq.q(spec["lo"]), segs, zlit(obs["nbins"]), patches,
        fq.lst([fq.opt(t, stree) for t in obs["trees"]]), fq.opt(obs["hist"], swsum),
        fq.opt(obs["meas"], lambda m: fq.lst([swsum(o) for o in m])))


def expected_sparse(spec, objs):
    """bin -> [count, weight sum] by the python-side rule (np.searchsorted on the exact float edges): wording of reports and
    labels only, never a verdict"""
    edges = seg_edges_np(spec["lo"], spec["segs"])
    nb = len(edges) - 1
    out = {}
    for z, w in objs:
        b = int(np.searchsorted(edges, z, side="left" if spec["closed"] == "right" else "right")) - 1
        if 0 <= b < nb:
            e = out.setdefault(b, [0, 0.0])
            e[0] += 1
            e[1] += w if spec["hasw"] else 1.0
    return out


def index_class(b):
    """the range between two powers of two (minus one: the digitize index is bin + 1) the bin lies in"""
    bounds = [0] + [2 ** k - 1 for k in POW2]
    for lo, hi in zip(bounds, bounds[1:]):
        if b < hi:
            return "bin-in-[%d,%d)" % (lo, hi)
    return "bin-from-%d" % bounds[-1]


def sparse_diff(want, got, weights_only=False):
    """(kind, first wrong bin) between the python-side expectation {bin: [n, w]} and a sparse observation"""
    if got is None:
        return "not-reported", None
    have = {b: v for b, v in got[1]}
    pick = (lambda e: e[1]) if weights_only else (lambda e: (e[0], e[1]))
    lost = sorted(b for b in want if b not in have)
    extra = sorted(b for b in have if b not in want)
    wrong = sorted(b for b in want if b in have and pick(want[b]) != (have[b] if weights_only else tuple(have[b])))
    if lost:
        return "populated-bin-reported-empty", lost[0]
    if extra:
        return "empty-bin-reported-populated", extra[0]
    if wrong:
        return "wrong-count-or-sum", wrong[0]
    return "number-of-bins", None


def label_large(ctx, spec, obs):
    edges = seg_edges_np(spec["lo"], spec["segs"])
    nb = len(edges) - 1
    zs = np.asarray([z for objs in spec["patches"] for z, _ in objs], dtype="f8")
    on_edge = bool(np.any(np.isin(zs, edges)))
    exp = expected_sparse(spec, [o for objs in spec["patches"] for o in objs])
    outside = sum(e[0] for e in exp.values()) < len(zs)
    top = max(exp) if exp else -1
    widths = [st for st, _ in spec["segs"]]
    info = dict(nbins=nb, z_on_edge=on_edge, z_outside=outside, highest_populated_bin=top, last_bin_populated=(nb - 1) in exp,
                width_ratio=max(widths) / min(widths))
    ctx.bump("large:nbins:%s" % ("1-3" if nb <= 3 else "around-2^7/2^8" if nb < 1000 else "thousands" if nb < 2 ** 15 - 2 else
                                 "around-2^15" if nb <= 2 ** 15 + 3 else "around-2^16" if 2 ** 16 - 2 <= nb <= 2 ** 16 + 3 else "4*10^4..10^5"))
    ctx.bump("large:edges:%s" % ("generated" if spec["cfg"] == "generated" else "custom"))
    if len(spec["segs"]) > 1:
        ctx.bump("large:narrow-next-to-wide:ratio>=2^%d" % int(np.log2(info["width_ratio"])))
    for k in POW2:
        if any(b >= 2 ** k - 1 for b in exp):
            ctx.bump("large:populated-bin-index>=2^%d-1" % k)
    for name, flag in (("last_bin_populated", info["last_bin_populated"]), ("z_on_edge", on_edge), ("z_outside_binning", outside),
                       ("patch_without_inside_object", any(not expected_sparse(spec, objs) for objs in spec["patches"]))):
        if flag:
            ctx.bump("large:" + name)
    if spec["meas"]:
        ctx.bump("large:measurement:" + spec["meas"])
    how = flavour_of(spec)
    key = ("large", spec["closed"], spec["hasw"], spec["lo"], tuple(tuple(x) for x in spec["segs"]), spec["cfg"],
           tuple(tuple(o) for objs in spec["patches"] for o in objs + [("|", 0)]), spec["meas"], how, spec.get("workers"))
    ctx.count(key=key, nontrivial=on_edge or outside or top >= 127,
              kind="large/%s/%s/%s%s" % (spec["closed"], "weighted" if spec["hasw"] else "unweighted",
                                         "generated" if spec["cfg"] == "generated" else "custom", "/" + how if how else ""))
    return info


def interpret_large(ctx, idx, spec, obs, info, c):
    """bits (set = flag false): 1 trees = model, 2 trees = rule evaluated directly, 4 hist = model, 8 hist = rule, 16 measurement = model,
    32 measurement = rule, 64 hypotheses"""
    if c is None:
        return
    case = ("large", idx)
    if c & 64:
        ctx.obligation("generator:large case %d satisfies the theorems' hypotheses" % idx, False, repr(spec)[:2000])
        return
    how = flavour_of(spec)
    how = ":" + how if how else ""
    nb = obs["nbins"]
    layout = "%d bins, lo %s, segments (step, count) %s, %s edges" % (nb, spec["lo"], spec["segs"], "generated" if spec["cfg"] == "generated" else "custom")
    replay = dict(spec=spec, observed=obs, labels=info, code=c)
    per_patch = [expected_sparse(spec, objs) for objs in spec["patches"]]
    for pair, what in (((1, 2), "trees"), ((4, 8), "histogram"), ((16, 32), "measurement")):
        if bool(c & pair[0]) != bool(c & pair[1]):
            ctx.obligation("large case %d: the proved model and the directly evaluated rule give the same verdict on the %s" % (idx, what),
                           False, "code %d; %s" % (c, repr(spec)[:1500]))
    if c & 1:
        ctx.disagree("Large_C10", case, dict(code=c, spec=spec, observed=obs))
        tree_errs = {v.split(":")[0] for k, v in obs["errors"].items() if k.startswith(("build_trees", "read_trees"))}
        if tree_errs:
            ctx.fail("c10-build-trees-raises:%s:large-binning%s" % ("+".join(sorted(tree_errs)), how),
                     "building / reading the trees raised with %s (closed=%s) where per-bin trees, empty ones for bins without objects, "
                     "are required: %s" % (layout, spec["closed"], obs["errors"]), replay, case=case)
        else:
            kind, p, b = "number-of-bins", 0, None
            for q_, (want, got) in enumerate(zip(per_patch, obs["trees"])):
                k_, b_ = sparse_diff(want, got)
                if b_ is not None or (got is not None and got[0] != nb):
                    kind, p, b = k_, q_, b_
                    break
            ctx.fail("c10-trees-membership:large-binning:%s%s%s" % (kind, ":" + index_class(b) if b is not None else "", how),
                     "BinnedTrees per-bin num_records / sum_weights differ from the closed-%s rule%s with %s: patch %d, first deviating bin %s "
                     "(edges %s); by the rule the populated bins are {bin: [count, sum]} %s, reported (number of trees, [(bin, (count, sum))]) %s; "
                     "objects %s" % (spec["closed"], where_text(spec), layout, p, b,
                                     None if b is None else [float(x) for x in seg_edges_np(spec["lo"], spec["segs"])[b:b + 2]],
                                     per_patch[p], obs["trees"][p], spec["patches"][p]), replay, case=case)
    if c & 4:
        if obs["hist"] is None:
            ctx.fail("c10-hist-raises:%s:large-binning%s" % (obs["errors"].get("hist", "?").split(":")[0], how),
                     "HistData.from_catalog raised with %s: %s" % (layout, obs["errors"].get("hist")), replay, case=case)
        else:
            want = expected_sparse(spec, [o for objs in spec["patches"] for o in objs])
            kind, b = sparse_diff(want, obs["hist"], weights_only=True)
            ctx.fail("c10-hist-membership:large-binning:%s%s%s" % (kind, ":" + index_class(b) if b is not None else "", how),
                     "HistData.from_catalog(...).data differs from the closed-%s rule%s with %s: first deviating bin %s; by the rule "
                     "{bin: [count, sum]} %s, reported (number of bins, [(bin, sum)]) %s; objects %s" % (
                         spec["closed"], where_text(spec), layout, b, want, obs["hist"], spec["patches"]), replay, case=case)
    if c & 16 or "meas" in obs["errors"]:
        kind, p, b = "not-obtained", 0, None
        for q_, (want, got) in enumerate(zip(per_patch, obs["meas"] or [])):
            k_, b_ = sparse_diff(want, got, weights_only=True)
            if b_ is not None or got[0] != nb:
                kind, p, b = k_, q_, b_
                break
        ctx.fail("c10-measurement-sum-weights:large-binning:%s%s%s" % (kind, ":" + index_class(b) if b is not None else "", how),
                 "%scorrelate with %s (closed=%s)%s: dd.sum_weights.sum_weights1 differs from the closed-side rule or could not be obtained (%s): "
                 "patch %d, first deviating bin %s; by the rule {bin: [count, sum]} %s, reported column (number of bins, [(bin, sum)]) %s; objects %s" % (
                     spec["meas"], layout, spec["closed"], where_text(spec), obs["errors"].get("meas"), p, b, per_patch[p],
                     (obs["meas"] or [None] * (p + 1))[p], spec["patches"][p]), replay, case=case)


def run_large(ctx, specs, name="Large_C10"):
    terms, kept = [], []
    skipped = generated = 0
    for idx, spec in enumerate(specs):
        generated += spec["cfg"] == "generated"
        try:
            obs = observe_large(ctx, spec, idx)
        except Exception as e:  # creating the configuration / the catalog of a valid input must not raise
            ctx.fail("c10-harness-or-creation-raises:%s:large-binning" % type(e).__name__,
                     "creating the configuration or the catalog for a binning with %d bins raised %s: %s" % (
                         sum(n for _, n in spec["segs"]), type(e).__name__, e),
                     dict(spec=spec, traceback=traceback.format_exc()[-1500:]), case=("large", idx))
            continue
        if obs["skipped"]:
            skipped += 1
            ctx.bump("large:skipped:" + obs["skipped"])
            continue
        info = label_large(ctx, spec, obs)
        ctx.sample(dict(spec=spec, observed=obs), limit=3)
        terms.append(large_term(spec, obs))
        kept.append((idx, spec, obs, info))
    ctx.obligation("generator:large generated (linear) edges equal lo + k * step (%d of %d differ)" % (skipped, generated),
                   skipped * 5 <= max(generated, 1), "skipped: %d" % skipped)
    ctx.log("%d cases with extreme binnings observed, evaluating in Coq" % len(terms))
    if not terms:
        return []
    codes = ctx.shards(name, HEADER, terms, shard=4)
    hyp_ok = sum(1 for c in codes if c is not None and not (c & 64))
    ctx.extra["hypotheses_checked_large"] = {
        "segments with positive steps and counts, as many bins as configured (flag 6 of c10_big_case; C10_seg_edges_valid: such edges are "
        "strictly increasing)": "%d/%d" % (hyp_ok, len(codes))}
    for (idx, spec, obs, info), c in zip(kept, codes):
        interpret_large(ctx, idx, spec, obs, info, c)
    return codes


# ---------------------------------------------------------------- near-equal binnings ('near' family)
HEADER_EQ = "From Verif Require Import Prelude Binning BinningEq.\nOpen Scope Q_scope.\n"
NEAR_ROUTES = ["linear", "linear", "linear", "nextafter", "nextafter", "comoving", "logspace", "float32", "text", "text"]
NEAR_TEMPLATES = ["near-then-requested"] * 4 + ["near-via-measurement"] * 2 + [
    "near-chain", "near-back-and-forth", "partial-rebuild", "stale-subset", "three-binnings", "interrupted-rebuild",
    "interrupted-measurement", "random"]


def ulp_shift(x, k):
    """the float64 |k| units in the last place above (k > 0) / below (k < 0) x"""
    x = float(x)
    for _ in range(abs(int(k))):
        x = float(np.nextafter(x, np.inf if k > 0 else -np.inf))
    return x


def ulp_distance(a, b):
    """number of float64 values between two positive finite floats (labels / report texts only)"""
    ia, ib = np.asarray([a, b], dtype="f8").view("i8")
    return abs(int(ia) - int(ib))


def valid_edges(e):
    return len(e) >= 2 and all(np.isfinite(x) for x in e) and all(a < b for a, b in zip(e, e[1:]))


def generated_edges(zmin, zmax, nb, method, closed):
    """the edges the implementation generates itself from zmin / zmax / num_bins (an INPUT of the cases below: what a user who
    configures an automatic binning gets), None when it refuses"""
    from yaw.config import BinningConfig
    try:
        b = BinningConfig.create(zmin=zmin, zmax=zmax, num_bins=nb, method=method, closed=closed).binning
        return [float(x) for x in np.asarray(b.edges, dtype="f8")]
    except Exception:  # noqa: BLE001 - not the subject here (C15)
        return None


def decimal_edges(rng, nbmax=9):
    """edges that are decimal literals with two digits: (zmin_n + k * step_n) / 100, correctly rounded = what one types by hand"""
    step_n = rng.choice([1, 2, 5, 10, 10, 15, 20, 25, 30])
    zmin_n = rng.choice([1, 5, 7, 10, 10, 15, 20, 30, 35])
    nb = rng.randrange(2, nbmax + 1)
    return zmin_n, step_n, nb, [(zmin_n + k * step_n) / 100.0 for k in range(nb + 1)]


def shifted_variant(rng, base, kmax=3):
    while True:
        ks = [rng.choice([0, 0] + [k for k in range(-kmax, kmax + 1) if k]) for _ in base]
        if any(ks):
            return [ulp_shift(x, k) for x, k in zip(base, ks)]


def near_variants(rng, closed, route=None):
    """(route, [(name, edges)]) with at least two DIFFERENT edge arrays of one length, all valid binnings, which agree to at least
    about six digits: the same binning obtained on different construction routes"""
    route = route or rng.choice(NEAR_ROUTES)
    cand = []
    if route == "linear":
        zmin_n, step_n, nb, typed = decimal_edges(rng)
        zmin, zmax, step = zmin_n / 100.0, typed[-1], step_n / 100.0
        cand.append(("typed", typed))
        cand.append(("np.linspace", [float(x) for x in np.linspace(zmin, zmax, nb + 1)]))
        cand.append(("generated:linear", generated_edges(zmin, zmax, nb, "linear", closed)))
        cand.append(("zmin+k*step", [zmin + k * step for k in range(nb + 1)]))
        acc, cum = zmin, [zmin]
        for _ in range(nb):
            acc += step
            cum.append(acc)
        cand.append(("cumulative", cum))
        ar = [float(x) for x in np.arange(zmin, zmax + step / 2.0, step)]
        cand.append(("np.arange", ar if len(ar) == nb + 1 else None))
        cand.append(("k*step+zmin:float32-step", [zmin + k * float(np.float32(step)) for k in range(nb + 1)]))
    elif route == "nextafter":
        kind = rng.choice(["decimal", "dyadic", "uniform"])
        if kind == "decimal":
            base = decimal_edges(rng)[3]
        elif kind == "dyadic":
            base = random_edges(rng)
        else:
            nb = rng.randrange(1, 8)
            base, x = [], rng.uniform(0.01, 0.5)
            for _ in range(nb + 1):
                base.append(x)
                x += rng.uniform(0.03, 0.4)
        cand.append(("base:" + kind, base))
        for j in range(rng.choice([1, 1, 2, 3])):
            cand.append(("nextafter:%d" % j, shifted_variant(rng, base, kmax=rng.choice([1, 1, 1, 2, 3, 8]))))
    elif route in ("comoving", "logspace"):
        zmin = rng.choice([0.05, 0.1, 0.2, 0.3, 0.5])
        zmax = round(zmin + rng.choice([0.3, 0.5, 0.7, 1.0, 1.5]), 2)
        gen = generated_edges(zmin, zmax, rng.randrange(2, 8), route, closed)
        if gen is not None and valid_edges(gen):
            cand.append(("generated:" + route, gen))
            for fmt in ("%.16g", "%.15g", "%.12g", "%.6f"):
                cand.append(("text:" + fmt, [float(fmt % x) for x in gen]))
            cand.append(("float32", [float(np.float32(x)) for x in gen]))
            cand.append(("nextafter", shifted_variant(rng, gen, kmax=2)))
    elif route == "float32":
        base = decimal_edges(rng)[3]
        cand.append(("typed", base))
        cand.append(("float32", [float(np.float32(x)) for x in base]))
        cand.append(("float32:nextafter", shifted_variant(rng, [float(np.float32(x)) for x in base], kmax=1)))
    else:   # text: full-precision values written with fewer digits and read back
        nb = rng.randrange(1, 8)
        base, x = [], rng.uniform(0.01, 0.5)
        for _ in range(nb + 1):
            base.append(x)
            x += rng.uniform(0.03, 0.4)
        cand.append(("full-precision", base))
        for fmt in ("%.16g", "%.15g", "%.12g", "%.9g", "%.6f"):
            cand.append(("text:" + fmt, [float(fmt % v) for v in base]))
    out, seen = [], set()
    for name, e in cand:
        if e is None or not valid_edges(e) or tuple(e) in seen or (out and len(e) != len(out[0][1])):
            continue
        seen.add(tuple(e))
        out.append((name, [float(v) for v in e]))
    if len(out) < 2:
        return near_variants(rng, closed, route="nextafter")
    if len(out) > 4:        # the first (the reference construction) and three others
        out = [out[0]] + rng.sample(out[1:], 3)
    return route, out


def contested_values(variants):
    """per edge index on which the variants disagree: every variant of the edge, the floats next below / above them and a value
    between two variants - the redshifts whose bin depends on WHICH of the near-equal binnings is applied"""
    out = []
    for i in range(len(variants[0][1])):
        vals = sorted({e[i] for _, e in variants})
        if len(vals) < 2:
            continue
        c = set(vals) | {ulp_shift(vals[0], -1), ulp_shift(vals[-1], 1)}
        for a, b in zip(vals, vals[1:]):
            m = (a + b) / 2.0
            if a < m < b:
                c.add(m)
        out.append(sorted(c))
    return out


def near_objects(rng, P, variants, hasw):
    """per patch 3-8 objects: mostly on the contested values, some on the other edges / midpoints / outside, some two-decimal
    catalog values; one bin midpoint (strictly inside every variant: the variants agree to ~6 digits, the bins are >= 0.01 wide)"""
    base = variants[0][1]
    nb = len(base) - 1
    flat = [v for c in contested_values(variants) for v in c]
    crit = critical_values(base)
    patches = []
    for _ in range(P):
        zs = []
        for _ in range(rng.randrange(2, 8)):
            r = rng.random()
            if r < 0.7:
                zs.append(rng.choice(flat))
            elif r < 0.88:
                zs.append(rng.choice(crit))
            else:
                zs.append(round(rng.uniform(base[0] - 0.1, base[-1] + 0.1), 2))
        k = rng.randrange(nb)
        zs.insert(rng.randrange(len(zs) + 1), (base[k] + base[k + 1]) / 2.0)
        patches.append([(float(z), rng.randrange(1, 41) / 8.0 if hasw else 1.0) for z in zs])
    return patches


def random_near_spec(rng, route=None, template=None, meas=None, final=None):
    closed = rng.choice(["left", "right"])
    hasw = rng.random() < 0.5
    route, variants = near_variants(rng, closed, route)
    P = rng.choice([2, 2, 3, 3, 4])
    keys = [("near:" + name, list(e), closed) for name, e in variants]
    req = rng.randrange(len(keys))
    B = ("requested:" + variants[req][0], list(variants[req][1]), closed)
    alts = [k for j, k in enumerate(keys) if j != req]
    template = template or rng.choice(NEAR_TEMPLATES)
    A, C = rng.choice(alts), rng.choice(alts)
    if template == "near-then-requested":       # trees for a near-equal binning everywhere, then the request
        history = [hstep("catalog", A)]
    elif template == "near-via-measurement":    # ... built implicitly by a measurement
        history = [hstep("catalog", A, via="auto")]
    elif template == "near-chain":
        history = [hstep("catalog", A), hstep("catalog", C, via=rng.choice(["build", "auto"]))]
    elif template == "near-back-and-forth":
        history = [hstep("catalog", B), hstep("catalog", A)]
    else:
        history = gen_history(rng, template, P, B, alts * 3 + [("unbinned", None, closed)])
    meas = meas if meas is not None else rng.choice([None, "auto", "auto", "cross", "cross"])
    meas = meas or None
    final = final or (rng.choice(["build_trees", "build_trees", "measure"]) if meas else "build_trees")
    unk_template, unk_history = None, None
    if meas == "cross":
        unk_template = rng.choice(UNK_TEMPLATES)
        unk_history = gen_unk_history(rng, unk_template, P, B, alts)
    spec = dict(tag="history:near:%s:%s%s" % (route, template, ":unk:" + unk_template if unk_template else ""), family="history",
                near=dict(route=route, variants=[name for name, _ in variants], requested=variants[req][0],
                          edges=[list(e) for _, e in variants]),
                closed=closed, hasw=hasw, edges=list(B[1]), patches=near_objects(rng, P, variants, hasw), history=history,
                final=final, force=False, meas=meas, cfg=rng.choice(["binning", "configuration"]), unk_history=unk_history)
    r = rng.random()
    if r < 0.12:
        spec.update(tag=spec["tag"] + ":pickling", pool="pickling", workers=rng.choice([2, 3]), order_seed=rng.randrange(10 ** 6))
    elif r < 0.16:
        spec.update(tag=spec["tag"] + ":real", pool="real", workers=2)
    return spec


def near_probe_specs():
    """the same generator with a fixed seed and forced (route, history, consumer) combinations: every run holds a case of each route that
    produces differences in the last place, observed through the explicit build, the implicit build of autocorrelate and of crosscorrelate"""
    import random
    rng = random.Random(0xC10)
    combos = [("linear", "near-then-requested", "", "build_trees"), ("linear", "near-via-measurement", "auto", "measure"),
              ("nextafter", "near-then-requested", "cross", "measure"), ("nextafter", "near-chain", "auto", "build_trees"),
              ("comoving", "near-then-requested", "auto", "measure"), ("logspace", "near-back-and-forth", "", "build_trees"),
              ("text", "near-then-requested", "auto", "measure"), ("float32", "near-then-requested", "cross", "build_trees")]
    out = []
    for route, template, meas, final in combos:
        spec = random_near_spec(rng, route=route, template=template, meas=meas, final=final)
        for k in ("pool", "workers", "order_seed"):
            spec.pop(k, None)
        spec["tag"] = "history:near:probe:%s:%s" % (route, template)
        out.append(spec)
    return out


def near_specs(ctx):
    return near_probe_specs() + [random_near_spec(ctx.rng) for _ in range(ctx.n(24, 500))]


def rel_class(a, b):
    d = max(abs(x - y) / max(abs(y), 1e-300) for x, y in zip(a, b))
    u = max(ulp_distance(x, y) for x, y in zip(a, b))
    if d == 0.0:
        return "identical"
    if u <= 1:
        return "1ulp"
    if u <= 8:
        return "2-8ulp"
    for k in (12, 9, 6):
        if d <= 10.0 ** -k:
            return "rel<=1e-%d" % k
    return "rel>1e-6"


def run_near(ctx, specs):
    """histories whose binnings are near-equal variants of the requested one: the history machinery and its Coq checker
    (c10_cache_case, whose cache model compares binnings exactly) as they are; the labels of the family on top"""
    for spec in specs:
        nr = spec["near"]
        ctx.bump("near:route:" + nr["route"])
        req = spec["edges"]
        for name, e in zip(nr["variants"], nr["edges"]):
            if e != req:
                ctx.bump("near:distance-to-requested:" + rel_class(e, req))
        zs = {z for objs in spec["patches"] for z, _ in objs}
        if any(z in e for e in nr["edges"] for z in zs):
            ctx.bump("near:z_exactly_on_a_variant_of_an_edge")
    before = ctx.hist.get("history:pre:stale_binning_moves_an_object", 0)
    codes = run_history_family(ctx, specs, name="Near_C10", shard=8)      # 53-bit numerators: smaller shards, evaluated in parallel
    moved = ctx.hist.get("history:pre:stale_binning_moves_an_object", 0) - before
    ctx.bump("near:cached_near_equal_binning_puts_an_object_into_another_bin", moved)
    ctx.obligation("generator:near-equal binnings: in at least a quarter of the histories the trees cached before the measured build "
                   "belong to a near-equal binning that puts an object of the patch into ANOTHER bin than the requested one (%d of %d)"
                   % (moved, len(specs)), len(specs) < 8 or moved * 4 >= len(specs), "moved: %d of %d" % (moved, len(specs)))
    return codes


# ---- the comparison itself: Binning / BinningConfig / Configuration ==, !=, BinnedTrees.binning_equal
def near_eq_records(ctx, draws):
    from yaw.binning import Binning
    from yaw.catalog.trees import BinnedTrees
    rng = ctx.rng
    recs = []
    for d in range(draws):
        closed = rng.choice(["left", "right"])
        route, variants = near_variants(rng, closed)
        sides = [(name, e, closed) for name, e in variants] + [(variants[0][0] + ":other-closed-side", variants[0][1], flip(closed))]
        # trees cached for every variant in turn: what does the cache's own comparison answer for the others
        cache_eq = {}
        cdir = impl.fresh_dir(ctx, "eqcat_%d" % d)
        try:
            base = variants[0][1]
            cols = dict(ra=np.asarray([20.0, 20.0625]), dec=np.asarray([0.0, 0.0]), pid=np.asarray([0, 0], dtype="i8"),
                        z=np.asarray([(base[0] + base[1]) / 2.0] * 2))
            cat = impl.Catalog.from_dataframe(cdir, impl.make_df(cols), ra_name="ra", dec_name="dec", patch_name="pid",
                                              redshift_name="z", max_workers=1)
            for i, (_, ea, ca) in enumerate(sides):
                BinnedTrees.build(cat[0], Binning(np.asarray(ea, dtype="f8"), closed=ca), force=True)
                bt = BinnedTrees(cat[0])
                for j, (_, eb, cb) in enumerate(sides):
                    cache_eq[(i, j)] = bool(bt.binning_equal(Binning(np.asarray(list(eb), dtype="f8"), closed=cb)))
        except Exception as e:  # noqa: BLE001 - counted; the comparison of the objects below does not need a catalog
            ctx.bump("near:eq:cache-comparison-not-observed:%s" % type(e).__name__)
        finally:
            shutil.rmtree(cdir, ignore_errors=True)
        for objtype in OBJTYPES:
            for i, (na, ea, ca) in enumerate(sides):
                for j, (nb_, eb, cb) in enumerate(sides):
                    if objtype != "Binning" and (i + j + d) % 3:      # the wrappers delegate to Binning: a third of the pairs each
                        continue
                    rec = dict(obj=objtype, route=route, a=list(ea), b=list(eb), closed_a=ca, closed_b=cb, names=[na, nb_])
                    try:
                        x, y = make_obj(objtype, ca, list(ea)), make_obj(objtype, cb, list(eb))     # two objects, also for i == j
                        rec["eq"], rec["ne"] = bool(x == y), bool(x != y)
                    except Exception as e:  # noqa: BLE001
                        rec["raised"] = "%s: %s" % (type(e).__name__, e)
                    rec["cache"] = cache_eq.get((i, j)) if objtype == "Binning" else None
                    recs.append(rec)
    return recs


def eval_near_eq(ctx, recs, name="NearEq_C10"):
    terms, kept = [], []
    for n, t in enumerate(recs):
        tid = ("near-eq", name, n)
        same = t["a"] == t["b"] and t["closed_a"] == t["closed_b"]
        dist = "other-closed-side" if t["closed_a"] != t["closed_b"] else rel_class(t["a"], t["b"])
        t["distance"] = dist
        ctx.count(key=("near-eq", t["obj"], t["closed_a"], t["closed_b"], tuple(t["a"]), tuple(t["b"])), nontrivial=not same,
                  kind="near-eq/%s/%s" % (t["obj"], dist))
        if "raised" in t:
            ctx.fail("c10-binning-equality-raises:%s:%s" % (t["obj"], t["raised"].split(":")[0]),
                     "comparing two %s objects (edges %s closed=%s; edges %s closed=%s) raised %s" % (
                         t["obj"], t["a"], t["closed_a"], t["b"], t["closed_b"], t["raised"]), dict(eq=t), case=tid)
            continue
        terms.append("c10_eq_case %s %s %s %s %s %s %s" % (
            fq.b(t["closed_a"] == "right"), fq.qlist(t["a"]), fq.b(t["closed_b"] == "right"), fq.qlist(t["b"]),
            fq.b(t["eq"]), fq.b(t["ne"]), fq.opt(t["cache"], fq.b)))
        kept.append((tid, t))
    if not terms:
        return []
    ctx.log("%d comparisons of near-equal binnings observed, evaluating in Coq" % len(terms))
    codes = ctx.shards(name, HEADER_EQ, terms, shard=40)
    for (tid, t), c in zip(kept, codes):
        # bits (set = flag false): 1 == is the exact comparison, 2 != is its negation, 4 the cache's comparison is the exact one,
        # 8 binnings called equal keep every probe value in its bin, 16 hypotheses
        if c is None:
            continue
        if c & 16:
            ctx.obligation("generator:near-eq record %s satisfies the theorems' hypotheses" % (tid,), False, repr(t))
            continue
        pair = "edges %s closed=%s (%s) and edges %s closed=%s (%s), distance: %s" % (
            t["a"], t["closed_a"], t["names"][0], t["b"], t["closed_b"], t["names"][1], t["distance"])
        moved = " and redshifts on the edges change their bin between the two (C10_cache_comparison_exact_only)" if c & 8 else ""
        if c & 1:
            kind = "unequal-binnings-compare-equal" if t["eq"] else "equal-binnings-compare-unequal"
            ctx.fail("c10-binning-equality:%s:%s" % (kind, t["obj"]),
                     "%s == %s answers %s for %s%s" % (t["obj"], t["obj"], t["eq"], pair, moved), dict(eq=t, code=c), case=tid)
        elif c & 2:
            ctx.fail("c10-binning-equality:ne-is-not-the-negation-of-eq:%s" % t["obj"],
                     "%s: == answers %s and != answers %s for %s" % (t["obj"], t["eq"], t["ne"], pair), dict(eq=t, code=c), case=tid)
        if c & 4:
            kind = "trees-of-an-unequal-binning-accepted" if t["cache"] else "trees-of-the-equal-binning-rejected"
            ctx.fail("c10-cache-comparison:%s" % kind,
                     "BinnedTrees(patch).binning_equal answers %s: trees cached for the first, asked for the second of %s%s" % (
                         t["cache"], pair, moved), dict(eq=t, code=c), case=tid)
    return codes


# ---------------------------------------------------------------- transports: what arrives is what was sent
def make_obj(objtype, closed, edges):
    from yaw.binning import Binning
    from yaw.config import BinningConfig
    if objtype == "Binning":
        return Binning(edges, closed=closed)
    if objtype == "BinningConfig":
        return BinningConfig.create(edges=edges, closed=closed)
    return impl.Configuration.create(rmin=100.0, rmax=1000.0, edges=edges, closed=closed, max_workers=1)


OBJTYPES = ["Binning", "BinningConfig", "Configuration"]


def transport_records(ctx):
    """(object type x transport x closed side x edges): the object is created with the configured closed side and
    edges, transported, and what it then reports is recorded; plus one real worker process per object (what
    the worker sees, and what comes back)"""
    rng = ctx.rng
    edge_sets = [[0.25, 0.5, 1.0], [0.5, 1.0], [0.1, 0.3, 0.5, 0.7, 0.9]] + [random_edges(rng) for _ in range(ctx.n(5, 30))]
    recs, objs = [], []
    for edges in edge_sets:
        for closed in ("left", "right"):
            for objtype in OBJTYPES:
                kinds = sorted(TRANSPORTS) + (["binning-copy"] if objtype == "Binning" else [])
                for kind in kinds:
                    rec = dict(obj=objtype, kind=kind, closed=closed, edges=list(edges))
                    try:
                        rec["got"] = list(describe_safe(transport(kind, make_obj(objtype, closed, edges))))
                    except Exception as e:  # noqa: BLE001 - a refusal to be transported is not a wrong bin
                        rec["refused"] = "%s: %s" % (type(e).__name__, e)
                    recs.append(rec)
                objs.append((objtype, closed, list(edges)))
    try:
        with multiprocessing.Pool(2) as pool:
            back = pool.map(_echo, [make_obj(*o) for o in objs])
    except Exception as e:  # noqa: BLE001
        back = None
        ctx.bump("transport_refused:worker-process:%s" % type(e).__name__, len(objs))
    for (objtype, closed, edges), res in zip(objs, back or []):
        seen, obj = res
        recs.append(dict(obj=objtype, kind="worker-process-view", closed=closed, edges=edges, got=list(seen)))
        recs.append(dict(obj=objtype, kind="worker-process-return", closed=closed, edges=edges, got=list(describe_safe(obj))))
    return recs


def eval_transports(ctx, recs, name="Transports_C10"):
    terms, kept = [], []
    for n, t in enumerate(recs):
        tid = ("transport", name, n)
        reported = t["obj"].startswith("reported:")
        cls = transport_class(t["kind"])
        if not reported:
            ctx.count(key=(t["obj"], t["kind"], t["closed"], tuple(t["edges"])), nontrivial=True, kind="transport/%s/%s" % (t["obj"], cls))
        if "refused" in t:
            ctx.bump("transport_refused:%s:%s" % (t["obj"], cls))
            continue
        prefix = "c10-reported-binning" if reported else "c10-transport"
        obj = t["obj"].split(":", 1)[1] if reported else t["obj"]
        text = ("the binning reported by %s after the work was done (%s)" % (obj, t["kind"])) if reported else \
            ("a %s after '%s'" % (obj, t["kind"]))
        gc, ge = t["got"]
        try:
            assert gc in ("left", "right")
            term = "c10_transport_case %s %s %s %s" % (fq.b(t["closed"] == "right"), fq.qlist(t["edges"]), fq.b(gc == "right"), fq.qlist(ge))
        except Exception:  # noqa: BLE001 - not a closed side / not finite edges
            ctx.fail("%s-not-a-binning:%s:%s" % (prefix, obj, cls), "%s no longer reports a closed side and finite edges: sent closed=%s edges=%s, "
                     "got %r" % (text, t["closed"], t["edges"], t["got"]), dict(transport=t), case=tid)
            continue
        terms.append(term)
        kept.append((tid, t, prefix, obj, cls, text))
    if not terms:
        return
    codes = ctx.shards(name, HEADER, terms, shard=250)
    for (tid, t, prefix, obj, cls, text), c in zip(kept, codes):
        # bits (set = flag false): 1 closed side unchanged, 2 edges unchanged, 4 same bins on all edges/midpoints/outside values, 8 hypotheses
        if c is None:
            continue
        if c & 8:
            ctx.obligation("generator:transport %s satisfies the theorems' hypotheses" % (tid,), False, repr(t))
            continue
        if c & 7:
            changed = "+".join(nm for bit, nm in ((1, "closed-side"), (2, "edges")) if c & bit) or "membership"
            ctx.fail("%s-changes-%s:%s:%s" % (prefix, changed, obj, cls),
                     "%s reports closed=%s edges=%s, configured was closed=%s edges=%s: redshifts on the bin edges change their bin "
                     "(C10_closed_flip_on_edges / C10_member_determines_binning)" % (text, t["got"][0], t["got"][1], t["closed"], t["edges"]),
                     dict(transport=t, code=c), case=tid)


def reported_records(kept):
    recs = []
    for idx, spec, obs, _ in kept:
        for where, got in sorted((obs.get("reported") or {}).items()):
            recs.append(dict(obj="reported:" + where, kind=flavour_of(spec) or "serial", closed=spec["closed"], edges=list(spec["edges"]),
                             got=list(got), spec=spec, case=idx))
    return recs


def run_specs(ctx, specs, name="Cases_C10"):
    terms, kept = [], []
    for idx, spec in enumerate(specs):
        info = label(ctx, spec)
        try:
            obs = observe(ctx, spec, idx)
        except Exception as e:  # catalog creation of a valid input must not raise
            ctx.fail("c10-harness-or-creation-raises:%s" % type(e).__name__,
                     "creating / observing the catalog raised %s: %s" % (type(e).__name__, e),
                     dict(spec=spec, traceback=traceback.format_exc()[-1500:]), case=idx)
            continue
        ctx.sample(dict(spec=spec, observed=obs), limit=3)
        terms.append(term_of(spec, obs))
        kept.append((idx, spec, obs, info))
    ctx.log("%d cases observed, evaluating in Coq" % len(terms))
    codes = ctx.shards(name, HEADER, terms, shard=200)
    hyp_ok = 0
    for (idx, spec, obs, info), c in zip(kept, codes):
        if c is not None and not (c & 128):
            hyp_ok += 1
        interpret(ctx, idx, spec, obs, info, c)
    ctx.extra["hypotheses_checked"] = {
        "edges strictly increasing and at least two (flag 7 of c10_case, evaluated in Coq)": "%d/%d" % (hyp_ok, len(kept))}
    rep_recs = reported_records(kept)
    for t in rep_recs:
        ctx.bump("%s:%s" % (t["obj"], t["kind"]))
    eval_transports(ctx, rep_recs, name=name + "_Reported")
    return codes


def big_patch_hist(ctx):
    """Patches of millions of rows (on both sides of 2^20 .. 2^22; thorough: 2^23): the redshift histogram of a catalog with
    redshifts exactly on the edges must follow the closed-side rule whatever the size of a patch is - the rule is evaluated here by
    plain comparisons on the input column."""
    import yaw
    from yaw.redshifts import HistData
    rng = ctx.rng
    sizes = [2 ** 20 + 17, 2 ** 22 + 1000] if ctx.quick() else [2 ** 20 + 17, 2 ** 21 + 5, 2 ** 22 + 1000, 2 ** 23 + 3]
    edges = [0.1, 0.3, 0.5, 0.7, 0.9]
    values = np.array([0.1, 0.2, 0.3, 0.30000000000000004, 0.5, 0.6, 0.7, 0.8, 0.9, 0.95, 0.05])
    for n in sizes:
        for closed in ("right", "left"):
            g = np.random.default_rng(rng.randrange(2 ** 32))
            z = values[g.integers(0, len(values), n)]
            cols = {"ra": g.uniform(10.0, 12.0, n), "dec": g.uniform(-1.0, 1.0, n), "z": z, "pid": (np.arange(n) >= n - 5).astype("i8")}
            cache = impl.fresh_dir(ctx, "bigz_%d_%s" % (n, closed))
            cat = impl.Catalog.from_dataframe(cache, impl.make_df(cols), ra_name="ra", dec_name="dec", redshift_name="z", patch_name="pid",
                                              max_workers=1)
            cfg = yaw.Configuration.create(rmin=1.0, rmax=2.0, unit="arcmin", edges=edges, closed=closed, max_workers=1)
            for workers in (1, 2):
                got = np.asarray(HistData.from_catalog(cat, cfg, max_workers=workers).data, dtype=float)
                lo, hi = np.asarray(edges[:-1]), np.asarray(edges[1:])
                want = np.array([np.count_nonzero((z > a) & (z <= b)) if closed == "right" else np.count_nonzero((z >= a) & (z < b))
                                 for a, b in zip(lo, hi)], dtype=float)
                ctx.count(key=("big-hist", n, closed, workers), nontrivial=True, kind="big-patch-hist/2^%d-rows/%s" % (int(np.log2(n)), closed))
                if not np.array_equal(got, want):
                    ctx.fail("c10-hist-membership:patch-of-millions-of-rows", "HistData.from_catalog over a patch of %d rows (closed=%s, %d workers) counts %s, "
                             "the closed-side rule on the input column gives %s" % (n, closed, workers, got.tolist(), want.tolist()),
                             dict(rows=n, closed=closed, workers=workers, got=got.tolist(), want=want.tolist(), edges=edges), case=("big-hist", n, closed, workers))
            del cat
            shutil.rmtree(cache, ignore_errors=True)


def run(ctx):
    big_patch_hist(ctx)
    specs = probe_specs()
    if ctx.quick():
        specs += exhaustive_specs({1: 2, 2: 1})
        nrand = 140
    else:
        specs += exhaustive_specs({1: 3, 2: 3})
        nrand = 700
    specs += [random_spec(ctx.rng) for _ in range(nrand)]
    nserial = len(specs)
    specs += boundary_specs(ctx)
    ctx.log("%d serial cases, %d cases across a process boundary" % (nserial, len(specs) - nserial))
    run_specs(ctx, specs)
    run_linked(ctx, linked_specs(ctx))
    run_history_family(ctx, history_specs(ctx))
    run_large(ctx, large_specs(ctx))
    run_near(ctx, near_specs(ctx))
    eval_near_eq(ctx, near_eq_records(ctx, ctx.n(6, 120)))
    eval_transports(ctx, transport_records(ctx))
    from props import c10_looks
    c10_looks.run_looks(ctx, c10_looks.look_specs(ctx))


def replay(ctx, body):
    rp = body["replay"] if "replay" in body else body
    if "spec" not in rp and "eq" in rp:          # a comparison of two binnings: observed again
        t = rp["eq"]
        rec = dict(obj=t["obj"], route=t.get("route"), a=[float(x) for x in t["a"]], b=[float(x) for x in t["b"]],
                   closed_a=t["closed_a"], closed_b=t["closed_b"], names=list(t["names"]), cache=None)
        try:
            x, y = make_obj(rec["obj"], rec["closed_a"], rec["a"]), make_obj(rec["obj"], rec["closed_b"], rec["b"])
            rec["eq"], rec["ne"] = bool(x == y), bool(x != y)
        except Exception as e:  # noqa: BLE001
            rec["raised"] = "%s: %s" % (type(e).__name__, e)
        if t.get("cache") is not None:
            from yaw.binning import Binning
            from yaw.catalog.trees import BinnedTrees
            cdir = impl.fresh_dir(ctx, "eqcat_replay")
            cols = dict(ra=np.asarray([20.0, 20.0625]), dec=np.asarray([0.0, 0.0]), pid=np.asarray([0, 0], dtype="i8"),
                        z=np.asarray([(rec["a"][0] + rec["a"][1]) / 2.0] * 2))
            cat = impl.Catalog.from_dataframe(cdir, impl.make_df(cols), ra_name="ra", dec_name="dec", patch_name="pid",
                                              redshift_name="z", max_workers=1)
            BinnedTrees.build(cat[0], Binning(np.asarray(rec["a"], dtype="f8"), closed=rec["closed_a"]), force=True)
            rec["cache"] = bool(BinnedTrees(cat[0]).binning_equal(Binning(np.asarray(rec["b"], dtype="f8"), closed=rec["closed_b"])))
            shutil.rmtree(cdir, ignore_errors=True)
        eval_near_eq(ctx, [rec], name="ReplayNearEq_C10")
        return
    if "spec" not in rp and "transport" in rp:
        t = rp["transport"]
        if "spec" in t:          # a binning reported by a result: replay the case it came from
            rp = dict(spec=t["spec"])
        else:
            rec = dict(obj=t["obj"], kind=t["kind"], closed=t["closed"], edges=list(t["edges"]))
            obj = make_obj(rec["obj"], rec["closed"], rec["edges"])
            if rec["kind"].startswith("worker-process"):
                with multiprocessing.Pool(2) as pool:
                    seen, back = pool.map(_echo, [obj])[0]
                rec["got"] = list(seen) if rec["kind"].endswith("view") else list(describe_safe(back))
            else:
                rec["got"] = list(describe_safe(transport(rec["kind"], obj)))
            eval_transports(ctx, [rec], name="ReplayTransport_C10")
            return
    spec = rp["spec"]
    if spec.get("family") == "look":
        from props import c10_looks
        spec["patches"] = [[tuple(o) for o in objs] for objs in spec["patches"]]
        c10_looks.run_looks(ctx, [spec], name="ReplayLooks_C10")
        return
    if spec.get("family") == "history":
        spec["patches"] = [[tuple(o) for o in objs] for objs in spec["patches"]]
        run_history_family(ctx, [spec], name="ReplayHistory_C10")
        return
    if spec.get("family") == "large":
        spec["patches"] = [[tuple(o) for o in objs] for objs in spec["patches"]]
        spec["segs"] = [(float(st), int(n)) for st, n in spec["segs"]]
        run_large(ctx, [spec], name="ReplayLarge_C10")
        return
    if spec.get("family") == "linked":
        for sample in spec["samples"].values():
            sample["patches"] = [[tuple(o) for o in objs] for objs in sample["patches"]]
        run_linked(ctx, [spec], name="ReplayLinked_C10")
        return
    spec["patches"] = [[tuple(o) for o in objs] for objs in spec["patches"]]
    if spec.get("prior"):
        spec["prior"] = [tuple(x) for x in spec["prior"]]
    run_specs(ctx, [spec], name="Replay_C10")
