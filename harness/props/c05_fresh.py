"""C05, process history: the measurement helpers shared by the long-lived harness process and by a process WITHOUT
history, and the server that provides the latter.

Run as a script (by props/c05_history.py, in its own interpreter, the same source tree on PYTHONPATH) it imports the
library once and then never creates a configuration, a catalog or a linkage itself: every request (one JSON line on
stdin) is answered by a child forked for that request alone, which builds the configuration by the given recipe, opens
the given cache directories, measures with one worker and dies.  So every answer comes from a process in which this is
the first configuration, the first catalog and the first measurement ever - the reference the property statement names
("the result is a function of the configuration value and the catalogs only").

Nothing here looks at how the library computes; the helpers only call public entry points and take bit patterns."""
import copy
import hashlib
import json
import os
import pickle
import sys

import numpy as np

ENTRIES = ("auto", "cross", "hist")
SCALE_KEYS = ("rmin", "rmax", "unit", "rweight", "resolution")


def bits(a):
    return np.ascontiguousarray(np.asarray(a, dtype="f8")).view("u8").tolist()


def cf_bits(cfs):
    out = []
    for cf in cfs:
        for kind in ("dd", "dr", "rd", "rr"):
            nc = getattr(cf, kind)
            if nc is None:
                out.append(None)
            else:
                out.append((bits(nc.counts.counts), bits(nc.sum_weights.sum_weights1), bits(nc.sum_weights.sum_weights2)))
    return out


def digest(obj):
    return hashlib.sha1(json.dumps(obj, sort_keys=True, default=str).encode()).hexdigest()[:20]


def make_config(recipe):
    """recipe = dict(maker, value[, base]): every maker yields a configuration of the VALUE `value` (keywords of
    Configuration.create); they differ in which objects are created and dropped on the way."""
    from yaw import Configuration
    maker, v = recipe["maker"], recipe["value"]
    if maker == "create":
        return Configuration.create(**v)
    if maker == "from_dict":
        return Configuration.from_dict(Configuration.create(**v).to_dict())
    if maker == "pickle":
        return pickle.loads(pickle.dumps(Configuration.create(**v)))
    if maker == "deepcopy":
        return copy.deepcopy(Configuration.create(**v))
    if maker == "modify-copy":
        return Configuration.create(**v).modify()
    if maker == "modify-scales":      # from a configuration with OTHER scales and the same binning / cosmology
        base = Configuration.create(**dict(v, **recipe["base"]))        # values always spell all five scale keywords out
        return base.modify(**{k: v[k] for k in SCALE_KEYS})
    raise ValueError(maker)


def measure(entry, cfg, cats, workers):
    """one public measurement -> (bit patterns, a number for messages)"""
    import yaw
    from yaw.redshifts import HistData
    ref, unk, rand = cats
    if entry == "auto":
        res = yaw.autocorrelate(cfg, ref, rand, max_workers=workers)
        return cf_bits(res), float(sum(cf.dd.counts.counts.sum() for cf in res))
    if entry == "cross":
        res = yaw.crosscorrelate(cfg, ref, unk, ref_rand=rand, max_workers=workers)
        return cf_bits(res), float(sum(cf.dd.counts.counts.sum() for cf in res))
    if entry == "hist":
        h = HistData.from_catalog(ref, cfg, max_workers=workers)
        return (bits(h.data), bits(h.samples)), float(np.sum(h.data))
    raise ValueError(entry)


def outcome(entry, cfg, cats, workers):
    """measure(), with an exception of the library as an outcome like any other (compared by its type)"""
    try:
        return measure(entry, cfg, cats, workers)
    except Exception as e:
        return ["raised", type(e).__name__], float("nan")


def answer(req):
    from yaw import Catalog
    cfg = make_config(req["recipe"])
    cats = tuple(Catalog(p, max_workers=1) for p in req["cats"])
    out = {}
    for entry in req["entries"]:
        b, total = outcome(entry, cfg, cats, 1)
        out[entry] = dict(digest=digest(b), total=total, raised=b[1] if b and b[0] == "raised" else None)
    return out


def serve():
    os.environ["YAW_NUM_THREADS"] = "1"
    real = sys.stdout
    sys.stdout = sys.stderr
    import logging
    import yaw  # noqa: F401
    import yaw.redshifts  # noqa: F401
    logging.getLogger("yaw").setLevel(logging.CRITICAL)
    src = os.environ.get("VERIF_REPO_SRC", "/repo/src")
    assert os.path.realpath(yaw.__file__).startswith(os.path.realpath(src) + "/"), yaw.__file__
    real.write("C05FRESH ready\n")
    real.flush()
    for line in sys.stdin:
        line = line.strip()
        if not line:
            continue
        req = json.loads(line)
        r, w = os.pipe()
        pid = os.fork()
        if pid == 0:        # the process without history
            code = 0
            try:
                os.close(r)
                try:
                    res = dict(id=req["id"], ok=True, result=answer(req), pid=os.getpid())
                except BaseException as e:
                    import traceback
                    res = dict(id=req["id"], ok=False, error=type(e).__name__ + ": " + str(e)[:300], traceback=traceback.format_exc()[-1500:])
                with os.fdopen(w, "w") as fh:
                    fh.write(json.dumps(res))
            except BaseException:
                code = 1
            finally:
                os._exit(code)
        os.close(w)
        with os.fdopen(r, "r") as fh:
            data = fh.read()
        os.waitpid(pid, 0)
        real.write("C05FRESH " + (data or json.dumps(dict(id=req["id"], ok=False, error="no answer from the child"))) + "\n")
        real.flush()


if __name__ == "__main__":
    serve()
