"""C08, large markers: a creation / overwrite that dies while the marker file of the cache is being written.

The marker (patch_ids.bin) of a catalog with N patches has M = 2 N bytes (int16 ids; the factor is taken from
the complete run, not assumed).  ndarray.tofile hands it to C stdio, which passes it to the kernel in more than
one write() as soon as M > 4096 and M is not a multiple of 4096 (observed with strace per case: one call with
floor(M / 4096) * 4096 bytes, one with the rest).  A process that dies between these calls leaves a shorter
file; the question is whether Catalog(cache) then opens with only some of the patches.

Mechanism: the creation runs in a child interpreter (props/c08_marker_child.py) which lowers its soft
RLIMIT_FSIZE to the boundary b (a multiple of 4096 below M) right before CatalogWriter.finalize and gives
SIGXFSZ its default action back: the kernel lets the file grow to exactly b bytes and kills the child at the
write() that would make it longer.  Two sorts of boundary:
  "between-write-calls"  b is the end of one of the library's own write() calls (seen in the strace of the
                          complete run): the child dies between two of its write calls;
  "inside-a-write-call"  b cuts one of its write() calls: the kernel writes the part up to b (a short write,
                          as on a full disk / quota), stdio retries with the rest and the child dies there.
Both are deaths of the writing process at a system call boundary; the sort is part of every report and replay.

Afterwards a fresh child opens the directory as the next user would (yaw.Catalog(cache)):
  error   fine      new (all N patches, every record)   fine      old (overwrite: the complete old catalog)  fine
  subset of the patches of the new catalog               VIOLATION
"""
import json
import os
import shutil
import signal
import subprocess
import threading
import time
from concurrent.futures import ThreadPoolExecutor

CHILD = os.path.join(os.path.dirname(os.path.abspath(__file__)), "c08_marker_child.py")
PY = "/venv/bin/python"
BLOCK = 4096
MARKER = "patch_ids.bin"
TIMEOUT = 900
_SLOTS = threading.BoundedSemaphore(max(2, min(12, (os.cpu_count() or 2) - 2)))   # children alive at a time

SIG_SUBSET = "c08-%s-large-marker-torn:opens-with-a-subset-of-the-patches"
SIG_OTHER = "c08-%s-large-marker-torn:opens-as-neither-old-nor-new"


def _env():
    e = dict(os.environ)
    e["PYTHONPATH"] = os.environ.get("VERIF_REPO_SRC", "/repo/src")
    e["PYTHONHASHSEED"] = "0"
    e["PYTHONDONTWRITEBYTECODE"] = "1"
    e["YAW_NUM_THREADS"] = "1"
    for k in ("OMP_NUM_THREADS", "OPENBLAS_NUM_THREADS", "MKL_NUM_THREADS"):
        e[k] = "1"
    return e


def _child(mode, spec, spec_path, strace_to=None):
    """-> (returncode, parsed last stdout line or None, stderr tail)"""
    with open(spec_path, "w") as f:
        json.dump(spec, f)
    cmd = [PY, "-u", CHILD, mode, spec_path]
    if strace_to is not None:
        cmd = ["strace", "-f", "-y", "-s", "0", "-e", "trace=write", "-o", strace_to] + _SECCOMP + cmd
    with _SLOTS:
        p = subprocess.Popen(cmd, env=_env(), stdout=subprocess.PIPE, stderr=subprocess.PIPE, start_new_session=True)
        try:
            out, err = p.communicate(timeout=TIMEOUT)
        except subprocess.TimeoutExpired:
            try:
                os.killpg(p.pid, signal.SIGKILL)
            except ProcessLookupError:
                pass
            out, err = p.communicate()
    res = None
    for line in reversed(out.decode("utf-8", "replace").splitlines()):
        line = line.strip()
        if line.startswith("{"):
            try:
                res = json.loads(line)
                break
            except ValueError:
                pass
    return p.returncode, res, err.decode("utf-8", "replace")[-1500:]


def _marker_pieces(trace_path, cache):
    """sizes of the successful write() calls on cache/patch_ids.* in the strace of the complete run"""
    import re
    pat = re.compile(r"write\(\d+<(" + re.escape(os.path.realpath(cache)) + r"/patch_ids\.[a-z]+)>.*=\s*(\d+)\s*$")
    pieces = []
    try:
        with open(trace_path, errors="replace") as f:
            for line in f:
                m = pat.search(line)
                if m:
                    pieces.append(int(m.group(2)))
    except OSError:
        return None
    return pieces or None


def _have_strace():
    return shutil.which("strace") is not None


_SECCOMP = []


def _probe_seccomp():
    """strace --seccomp-bpf (only the traced calls stop the child) when this strace knows it"""
    try:
        ok = subprocess.run(["strace", "-f", "--seccomp-bpf", "-e", "trace=write", "-o", os.devnull, "true"],
                            stdout=subprocess.DEVNULL, stderr=subprocess.DEVNULL, timeout=30).returncode == 0
    except Exception:
        ok = False
    _SECCOMP[:] = ["--seccomp-bpf"] if ok else []


def _sizes(rng, quick):
    """[(N, kind)]: sizes on both sides of every 4096-byte boundary of the marker, and controls below"""
    kinds = ["create", "overwrite"]
    if quick:
        ns = [rng.randint(2040, 2048), 2049, rng.randint(2050, 2100), 4096, 4097, rng.randint(2101, 4094),
              rng.randint(4098, 5000)]
        start = rng.randrange(2)
        return [(n, kinds[(start + i) % 2]) for i, n in enumerate(ns)]
    ns = [2048, rng.randint(2040, 2047), rng.randint(2040, 2047), 2049, 2050]
    ns += [rng.randint(2051, 2100) for _ in range(3)]
    ns += [4095, 4096, 4097, rng.randint(4098, 4110)]
    ns += [rng.randint(2101, 4094) for _ in range(4)]
    ns += [rng.randint(4098, 5000) for _ in range(4)]
    start = rng.randrange(2)
    cases = [(n, kinds[(start + i) % 2]) for i, n in enumerate(ns)]
    # the sizes around the boundaries in both kinds
    cases += [(2049, "overwrite" if (2049, "create") in cases else "create"),
              (4097, "overwrite" if (4097, "create") in cases else "create")]
    return cases


def _classify(opened, n, expected, old):
    """-> (outcome, number of patches opened)"""
    if not opened or not opened.get("opened"):
        return "error", 0
    ids, nrec = opened["ids"], opened["num_records"]
    have = dict(zip(ids, nrec))
    if len(ids) != len(set(ids)) or len(nrec) != len(ids):
        return "other", len(ids)
    if sorted(ids) == list(range(n)) and [have[i] for i in range(n)] == expected:
        return "new", len(ids)
    if old is not None and sorted(ids) == sorted(old["ids"]) and have == dict(zip(old["ids"], old["num_records"])):
        return "old", len(ids)
    if len(ids) < n and all(0 <= i < n and have[i] == expected[i] for i in ids):
        return "subset", len(ids)
    return "other", len(ids)


def run_large_marker(ctx):
    t0 = time.time()
    quick = ctx.quick()
    root = os.path.join(ctx.workdir, "large_marker")
    os.makedirs(root, exist_ok=True)
    cases = _sizes(ctx.rng, quick)
    strace = _have_strace()
    if strace:
        _probe_seccomp()
    if not strace:
        ctx.bump("large-marker:no-strace-pieces-by-rule")
    plans = []
    for ci, (n, kind) in enumerate(cases):
        plan = dict(ci=ci, n=n, kind=kind, rpp=ctx.rng.choice([1, 2]), seed=ctx.rng.randrange(1, 2 ** 31))
        if kind == "overwrite":
            big_old = (not quick) and ctx.rng.random() < 0.25
            plan["old_n"] = ctx.rng.randint(2049, 2200) if big_old else ctx.rng.randint(3, 60)
            plan["old_rpp"] = ctx.rng.choice([1, 2])
            plan["old_seed"] = ctx.rng.randrange(1, 2 ** 31)
        plans.append(plan)

    # one thread per case (outer) and per interrupted run (inner); _SLOTS bounds the children alive at a time
    outer = ThreadPoolExecutor(max_workers=len(plans))
    inner = ThreadPoolExecutor(max_workers=32)

    # ---- phase 1 (per case, in parallel): the old catalog (overwrite) and the complete, uninterrupted run
    def prepare(plan):
        d = os.path.join(root, "case%02d" % plan["ci"])
        os.makedirs(d, exist_ok=True)
        plan["dir"] = d
        info = {"premise": None}
        old = None
        if plan["kind"] == "overwrite":
            oldc = os.path.join(d, "old_template")
            rc, res, err = _child("create", dict(dir=oldc, n_patches=plan["old_n"], rpp=plan["old_rpp"],
                                                 seed=plan["old_seed"], overwrite=False, limit=None),
                                  os.path.join(d, "old.create.json"))
            if rc != 0 or not res:
                info["premise"] = "the old catalog could not be created (rc %s): %s" % (rc, err[-300:])
                return info
            rc, old, err = _child("open", dict(dir=oldc, n_patches=plan["old_n"], rpp=plan["old_rpp"],
                                               seed=plan["old_seed"]), os.path.join(d, "old.open.json"))
            if not old or not old.get("opened") or _classify(old, plan["old_n"], old.get("expected"), None)[0] != "new":
                info["premise"] = "the old catalog does not open completely: %r" % (str(old)[:300],)
                return info
            info["old_template"] = oldc
        info["old"] = old
        full = os.path.join(d, "complete")
        if plan["kind"] == "overwrite":
            shutil.copytree(info["old_template"], full)
        trace = os.path.join(d, "complete.strace") if strace else None
        rc, res, err = _child("create", dict(dir=full, n_patches=plan["n"], rpp=plan["rpp"], seed=plan["seed"],
                                             overwrite=plan["kind"] == "overwrite", limit=None),
                              os.path.join(d, "complete.create.json"), strace_to=trace)
        if rc != 0 or not res or res.get("finalize_called") != 1:
            info["premise"] = "the uninterrupted run did not complete (rc %s, %r): %s" % (rc, res, err[-300:])
            return info
        try:
            msize = os.path.getsize(os.path.join(full, MARKER))
        except OSError:
            info["premise"] = "the complete run left no marker"
            return info
        if msize % plan["n"]:
            info["premise"] = "marker of %d bytes for %d patches" % (msize, plan["n"])
            return info
        pieces = _marker_pieces(trace, full) if strace else None
        observed = pieces is not None and sum(pieces) == msize
        if not observed:   # stdio rule: whole blocks in one call, the rest at close
            whole = msize - msize % BLOCK
            pieces = [p for p in (whole, msize - whole) if p]
        info.update(marker_bytes=msize, id_bytes=msize // plan["n"], pieces=pieces, pieces_observed=observed,
                    complete=full)
        return info

    def premise_open(plan, info):
        """the oracle for "all": the complete catalog opens, in a fresh interpreter, with every patch and record"""
        full, d = info["complete"], plan["dir"]
        rc, opened, err = _child("open", dict(dir=full, n_patches=plan["n"], rpp=plan["rpp"], seed=plan["seed"]),
                                 os.path.join(d, "complete.open.json"))
        expected = (opened or {}).get("expected")
        if expected is None or _classify(opened, plan["n"], expected, None)[0] != "new":
            info["premise"] = "the complete catalog does not open with all %d patches: %r" % (plan["n"], str(opened)[:300])
        info["expected"] = expected
        shutil.rmtree(full, ignore_errors=True)

    # ---- phase 2: one interrupted run per boundary
    def boundaries(plan, info):
        jobs = []
        m = info["marker_bytes"]
        ends, s = set(), 0
        for p in info["pieces"][:-1]:
            s += p
            ends.add(s)
        bounds = [b for b in range(BLOCK, m, BLOCK)]
        if not bounds:
            jobs.append((plan, info, BLOCK, "control-marker-in-one-piece"))
        for b in bounds:
            jobs.append((plan, info, b, "between-write-calls" if b in ends else "inside-a-write-call"))
        return jobs

    def interrupted(job):
        plan, info, b, bkind = job
        d = plan["dir"]
        cache = os.path.join(d, "torn_%d" % b)
        if plan["kind"] == "overwrite":
            shutil.copytree(info["old_template"], cache)
        rc, res, err = _child("create", dict(dir=cache, n_patches=plan["n"], rpp=plan["rpp"], seed=plan["seed"],
                                             overwrite=plan["kind"] == "overwrite", limit=b),
                              os.path.join(d, "torn_%d.create.json" % b))
        left = {}
        for name in (os.listdir(cache) if os.path.isdir(cache) else []):
            if not name.startswith("patch_") or name.startswith("patch_ids"):
                try:
                    left[name] = os.path.getsize(os.path.join(cache, name))
                except OSError:
                    pass
        rc2, opened, err2 = _child("open", dict(dir=cache), os.path.join(d, "torn_%d.open.json" % b))
        shutil.rmtree(cache, ignore_errors=True)
        return dict(rc=rc, res=res, err=err, left=left, opened=opened, open_rc=rc2, open_err=err2)

    def case(plan):
        info = prepare(plan)
        if info["premise"] is not None:
            return info, [], []
        js = boundaries(plan, info)
        futs = [inner.submit(interrupted, j) for j in js]          # the slow ones first
        prem = inner.submit(premise_open, plan, info)
        rs = [f.result() for f in futs]
        prem.result()
        return info, js, rs

    done = list(outer.map(case, plans))
    outer.shutdown()
    inner.shutdown()
    infos = [x[0] for x in done]
    jobs, results = [], []
    for plan, (info, js, rs) in zip(plans, done):
        if info["premise"] is not None:
            ctx.bump("large-marker:premise-failed")
            ctx.log("large marker %s N=%d: premise failed: %s" % (plan["kind"], plan["n"], info["premise"]))
            continue
        jobs += js
        results += rs

    # ---- verdicts
    hist, killed_n, viol = {}, 0, 0
    rows = []
    for (plan, info, b, bkind), r in zip(jobs, results):
        n, kind, m = plan["n"], plan["kind"], info["marker_bytes"]
        killed = r["rc"] == -signal.SIGXFSZ
        torn_at_b = killed and b in (r["left"].get(MARKER), r["left"].get("patch_ids.tmp"))
        control = bkind.startswith("control")
        if killed:
            killed_n += 1
            ctx.bump("large-marker:child-killed-by-SIGXFSZ")
        elif r["rc"] == 0 and r["res"]:
            ctx.bump("large-marker:child-completed-under-the-limit" + (":control" if control else ""))
        else:
            ctx.bump("large-marker:child-died-differently")
            ctx.log("large marker %s N=%d limit %d: child ended with rc %s: %s" % (kind, n, b, r["rc"], r["err"][-300:]))
        if r["opened"] is None:
            ctx.bump("large-marker:open-child-broken")
            ctx.log("large marker %s N=%d limit %d: the opening child gave no answer (rc %s): %s"
                    % (kind, n, b, r["open_rc"], r["open_err"][-300:]))
            continue
        outcome, k = _classify(r["opened"], n, info["expected"], info["old"])
        hist[outcome] = hist.get(outcome, 0) + 1
        ctx.count(key=("marker", kind, n, b), nontrivial=bool(torn_at_b),
                  kind="large-marker:%s:%s" % (kind, ("control-" if control else "") + outcome))
        rows.append(dict(n_patches=n, kind=kind, marker_bytes=m, boundary_bytes=b, boundary_kind=bkind,
                         child_rc=r["rc"], left=r["left"], outcome=outcome, opened_patches=k))
        if outcome in ("subset", "other"):
            viol += 1
            replay = dict(family="large-marker", n_patches=n, kind=kind, boundary_bytes=b, boundary_kind=bkind,
                          marker_bytes=m, id_bytes=info["id_bytes"], write_calls=info["pieces"],
                          write_calls_observed=info["pieces_observed"], records_per_patch=plan["rpp"],
                          seed=plan["seed"], child=os.path.basename(CHILD),
                          child_spec=dict(n_patches=n, rpp=plan["rpp"], seed=plan["seed"],
                                          overwrite=kind == "overwrite", limit=b),
                          mechanism="soft RLIMIT_FSIZE = boundary_bytes and SIGXFSZ = SIG_DFL set right before "
                                    "CatalogWriter.finalize in the child")
            if kind == "overwrite":
                replay["old"] = dict(n_patches=plan["old_n"], rpp=plan["old_rpp"], seed=plan["old_seed"])
            how = ("between two of its write() calls" if bkind == "between-write-calls" else
                   "after a short write() (the file size limit cut its write call at this position) at the retry")
            text = ("%s of a catalog with N=%d patches (%d record(s) at most per patch%s): the marker %s has %d bytes "
                    "(%d per patch id) and reaches the kernel as write() calls of %s bytes%s; the writing process was "
                    "killed (child return code %s, SIGXFSZ = %d) %s, when %d bytes of the marker were written "
                    "(files left beside the patch directories: %s); a fresh interpreter then opens Catalog(cache) "
                    "WITHOUT an error and finds %d of the %d patches%s - neither the complete new catalog%s nor an error"
                    % ("overwriting an older catalog (%d patches) by the creation" % plan["old_n"] if kind == "overwrite"
                       else "creation", n, plan["rpp"], "", MARKER, m, info["id_bytes"],
                       "+".join(str(p) for p in info["pieces"]),
                       " (strace of the complete run)" if info["pieces_observed"] else " (stdio rule, not observed)",
                       r["rc"], int(signal.SIGXFSZ), how, b, json.dumps(r["left"], sort_keys=True), k, n,
                       " (ids %d..%d)" % (min(r["opened"]["ids"]), max(r["opened"]["ids"])) if r["opened"].get("ids") else "",
                       ", nor the old one" if kind == "overwrite" else ""))
            sig = (SIG_SUBSET if outcome == "subset" else SIG_OTHER) % kind
            ctx.fail(sig, text, replay, case=dict(n_patches=n, kind=kind, boundary_bytes=b, boundary_kind=bkind,
                                                  opened_patches=k))

    for plan in plans:
        if plan.get("dir"):
            shutil.rmtree(plan["dir"], ignore_errors=True)
    shutil.rmtree(root, ignore_errors=True)
    summary = dict(cases=[dict(n_patches=p["n"], kind=p["kind"], records_per_patch=p["rpp"],
                               marker_bytes=i.get("marker_bytes"), write_calls=i.get("pieces"),
                               write_calls_observed=i.get("pieces_observed"), premise=i["premise"])
                          for p, i in zip(plans, infos)],
                   sizes=sorted(set(p["n"] for p in plans)), interrupted_runs=len(jobs), outcomes=hist,
                   killed_by_SIGXFSZ=killed_n, violations=viol, runs=rows, seconds=round(time.time() - t0, 1),
                   mechanism="RLIMIT_FSIZE lowered to the boundary right before CatalogWriter.finalize; "
                             "SIGXFSZ default action")
    ctx.extra["large_marker"] = summary
    ctx.log("large markers: %d cases, %d interrupted runs, %d killed by SIGXFSZ, outcomes %s, %d violations, %.0f s"
            % (len(plans), len(jobs), killed_n, hist, viol, time.time() - t0))
    return summary
