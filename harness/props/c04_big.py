"""C04 on CorrFuncs of MANY patches (helper of props/c04.py): 100 .. 400 patches (thorough: up to 2000).

Every other family of c04.py builds, measures and combines containers of 2-7 patches.  Nothing in the property depends
on the number of patches N, but an implementation does as soon as it holds a patch index, a flat pair position
i * N + j or the length of a pair list in a fixed-width integer: the flat position of a pair passes 2^7 from N = 12,
2^15 from N = 182, 2^16 from N = 257 (patch ids are int16 in the catalog cache).  Here

  * built: hand-built CorrFuncs (dd with every subset of dr / rd / rr, auto and cross, 1-3 bins, synthetic SPARSE
    counts: a band around the diagonal, scattered pairs, and pairs planted in the rows / columns 127, 128, 181, 182,
    255, 256, N-1 and on the flat positions next to 2^7, 2^8, 2^15, 2^16, 2^17 - as far as N reaches) are taken through
    a ROUTE of public operations - to_file / from_file, pickle, copy.deepcopy, copy.copy, from_dict(to_dict()), + another
    CorrFunc, sum(), * scalar, .bins[...], .patches[item] with item a python list, a range, a slice, a boolean mask or
    an index array of EVERY integer dtype (int8 .. int64 with negative entries, uint8 .. uint64) - and only then
    handed to sample() / RedshiftData.from_corrfuncs() / .normalised();
  * measured: the CorrFuncs yaw.crosscorrelate / yaw.autocorrelate return for catalogs of 150 .. 400 (thorough: 700)
    patches on a line whose patch IDS are a permutation of their positions, so that the linked neighbours fill pair
    (i, j) anywhere in the matrix; the cross-correlation pair counts are compared with a brute-force count of the
    harness over the records (which pairs lie inside the scale cut is clear by a margin of > 5 %), the weights of
    the model are summed inside Coq from the records;
  * oracle: the harness keeps its own copy of what every container must hold - a dict {(i, j): counts per bin} and two
    weight lists, combined with python integers, never with the library or with numpy indexing - and after EVERY
    operation compares it with what the implementation stores (which pairs are non-zero, and their counts, bit for
    bit); a file is additionally read back by the harness itself (h5py: num_patches, patch_pairs, binned_counts,
    sum_weights1 / 2 -> dict), so a wrong file is told from a wrong reader; sample().data / .samples are compared in Coq
    with the estimator model evaluated on the harness' sparse copy (Model/PairIndex.v: c04_big_case - total - row -
    column + diagonal in one pass over the pair list, proved equal to the dense model of Estimators.v and to the
    recount without patch k), RedshiftData.from_corrfuncs with w_sp / sqrt(dz^2 w_ss w_pp) (c04_nz_case),
    .normalised() with c04_norm_case.
  Props: C04_flat_index_injective, C04_flat_index_fits_below / _wraps_from (N^2 <= 2^(bits-1) is exactly the range without
  wrap-around: 11, 181, 46340 patches for 8, 16, 32 bits), C04_flat16_lands_on_other_pair, C04_sparse_roundtrip,
  C04_sparse_roundtrip_wrapped_refuted, C04_sparse_sample_is_recount, C04_sparse_sums_are_dense.
"""
import copy as _copy
import math
import os
import pickle as _pickle
import random as _random
import shutil

import numpy as np

from lib import floatq as fq
from lib import impl
from props import _jk_common as jk

ROLES = jk.ALLK
INT_DTYPES = ["int8", "int16", "int32", "int64", "uint8", "uint16", "uint32", "uint64"]
ITEM_KINDS = INT_DTYPES + ["list", "list-neg", "mask", "mask-list", "slice", "range"]
COPIES = ("file", "pickle", "deepcopy", "copy", "dict")
MARKS = (127, 128, 181, 182, 255, 256, 257, 361, 362, 511, 512)       # rows / columns next to 2^7, sqrt(2^15), 2^8, sqrt(2^17), 2^9
FLAT_MARKS = (2 ** 7, 2 ** 8, 2 ** 15, 2 ** 16, 2 ** 17, 2 ** 31 % (10 ** 9))


class Batch(jk.Batch):
    """jk.Batch with the header that knows Model/PairIndex.v"""

    def run(self):
        if not self.items:
            return
        codes = self.ctx.shards(self.name, HEADER, [t for t, _, _ in self.items], shard=self.shard)
        for idx, ((term, handler, replay), c) in enumerate(zip(self.items, codes)):
            if c is None:
                continue
            if c != 0:
                handler(c, "%s#%d" % (self.name, idx), replay)


# ----------------------------------------------------------------------------- the harness' own sparse containers
# P = dict(auto, N, B, pairs={(i, j): [count of bin 0, ...]}, w1=[[...N] * B], w2=...): python ints and floats only.
def nonzero_pairs(P):
    return {k: list(v) for k, v in P["pairs"].items() if any(x != 0.0 for x in v)}


def sp_copy(P):
    return dict(auto=P["auto"], N=P["N"], B=P["B"], pairs={k: list(v) for k, v in P["pairs"].items()},
                w1=[list(r) for r in P["w1"]], w2=[list(r) for r in P["w2"]])


def sp_add(P, Q):
    out = sp_copy(P)
    for k, v in Q["pairs"].items():
        cur = out["pairs"].get(k)
        out["pairs"][k] = list(v) if cur is None else [a + b for a, b in zip(cur, v)]      # small dyadic numbers: exact
    return out


def sp_scale(P, c):
    out = sp_copy(P)
    out["pairs"] = {k: [x * c for x in v] for k, v in out["pairs"].items()}
    return out


def sp_patches(P, pos):
    """the container restricted to the patches pos (distinct positions, in this order)"""
    inv = {p: a for a, p in enumerate(pos)}
    assert len(inv) == len(pos)
    pairs = {}
    for (i, j), v in P["pairs"].items():
        if i in inv and j in inv:
            pairs[(inv[i], inv[j])] = list(v)
    return dict(auto=P["auto"], N=len(pos), B=P["B"], pairs=pairs, w1=[[r[p] for p in pos] for r in P["w1"]],
                w2=[[r[p] for p in pos] for r in P["w2"]])


def sp_bins(P, bins):
    return dict(auto=P["auto"], N=P["N"], B=len(bins), pairs={k: [v[b] for b in bins] for k, v in P["pairs"].items()},
                w1=[list(P["w1"][b]) for b in bins], w2=[list(P["w2"][b]) for b in bins])


def kinds_apply(K, f):
    return {k: (None if P is None else f(P)) for k, P in K.items()}


def dense_counts(P):
    a = np.zeros((P["B"], P["N"], P["N"]))
    for (i, j), v in P["pairs"].items():
        for b in range(P["B"]):
            a[b, i, j] = v[b]
    return a


def build_nc(edges, P):
    from yaw.binning import Binning
    from yaw.correlation.paircounts import NormalisedCounts, PatchedCounts, PatchedSumWeights
    binning = Binning(edges, closed="right")
    counts = PatchedCounts(binning, dense_counts(P), auto=P["auto"])
    weights = PatchedSumWeights(binning, np.array(P["w1"], dtype=float), np.array(P["w2"], dtype=float), auto=P["auto"])
    return NormalisedCounts(counts, weights)


def build_cf(edges, K):
    from yaw import CorrFunc
    return CorrFunc(build_nc(edges, K["dd"]), **{k: build_nc(edges, K[k]) for k in jk.KINDS if K[k] is not None})


def observed_pairs(arr):
    """{(i, j): counts per bin} of the pairs of a (bins, N, N) array that are non-zero in some bin"""
    arr = np.asarray(arr)
    nz = np.argwhere((arr != 0).any(axis=0))
    return {(int(i), int(j)): [float(x) for x in arr[:, i, j]] for i, j in nz}


def same_values(a, b):
    return len(a) == len(b) and all(float(x).hex() == float(y).hex() or (x == 0.0 and y == 0.0) for x, y in zip(a, b))


def diff_pairs(want, got, N):
    """None when the two pair dicts agree; else a short description (with a remark when the misplaced entries sit where
    a flat index i * N + j held in a narrow integer would put them - description only, never the verdict)"""
    missing = sorted(k for k in want if k not in got)
    extra = sorted(k for k in got if k not in want)
    changed = sorted(k for k in want if k in got and not same_values(want[k], got[k]))
    if not (missing or extra or changed):
        return None
    text = "%d pairs missing (first: %s), %d pairs that should be zero are not (first: %s), %d pairs with other counts (first: %s)" % (
        len(missing), missing[:3], len(extra), extra[:3], len(changed), changed[:3])
    moved = {}
    for bits in (8, 16, 32):
        hits = 0
        for (i, j) in missing[:200]:
            f = i * N + j
            w = (f + 2 ** (bits - 1)) % 2 ** bits - 2 ** (bits - 1)
            if w != f:
                if w < 0:
                    w += N * N
                if 0 <= w < N * N and ((w // N, w % N) in extra or (w // N, w % N) in changed):
                    hits += 1
        if hits:
            moved[bits] = hits
    if moved:
        text += "; %s of the missing entries are found where i * N + j wrapped to %s bits points" % (
            ", ".join(str(v) for v in moved.values()), "/".join(str(b) for b in moved))
    first_bad = min(missing + changed) if (missing or changed) else None
    if first_bad is not None:
        text += "; first affected pair %s has flat position %d of %d" % (first_bad, first_bad[0] * N + first_bad[1], N * N)
    return text


def compare_container(nc, P):
    """(problem with the counts or None, problem with the weights or None) of one NormalisedCounts against the harness' copy"""
    cnt = wts = None
    arr = nc.counts.counts
    if tuple(arr.shape) != (P["B"], P["N"], P["N"]):
        cnt = "the counts array has shape %s, not %s" % (tuple(arr.shape), (P["B"], P["N"], P["N"]))
    elif not np.all(np.isfinite(arr)):
        cnt = "the counts array holds non-finite entries"
    else:
        cnt = diff_pairs(nonzero_pairs(P), observed_pairs(arr), P["N"])
    for name, w in (("sum_weights1", P["w1"]), ("sum_weights2", P["w2"])):
        got = np.asarray(getattr(nc.sum_weights, name))
        if tuple(got.shape) != (P["B"], P["N"]) or not all(same_values(list(got[b]), w[b]) for b in range(P["B"])):
            bad = [(b, i) for b in range(min(P["B"], got.shape[0])) for i in range(min(P["N"], got.shape[1]))
                   if float(got[b, i]).hex() != float(w[b][i]).hex()][:3] if got.ndim == 2 else []
            wts = "%s (shape %s) is not the selected / copied sum of weights (shape %s); first differing (bin, patch): %s" % (
                name, tuple(got.shape), (P["B"], P["N"]), bad)
            break
    if bool(nc.auto) != bool(P["auto"]):
        cnt = (cnt or "") + " auto flag is %s" % nc.auto
    return cnt, wts


# ----------------------------------------------------------------------------- reading a file without the library
HDF_NAMES = dict(dd="data_data", dr="data_random", rd="random_data", rr="random_random")


def read_file(path):
    """{role: dict(N, pairs, w1, w2, auto)} rebuilt from the datasets of a CorrFunc file with h5py and python integers"""
    import h5py
    out = {}
    with h5py.File(path, "r") as f:
        for role, name in HDF_NAMES.items():
            if name not in f:
                out[role] = None
                continue
            g = f[name]
            n = int(g["counts"]["num_patches"][()])
            pp = g["counts"]["patch_pairs"][:]
            bc = g["counts"]["binned_counts"][:]
            pairs = {}
            problems = []
            if len(pp) != len(bc):
                problems.append("patch_pairs has %d rows, binned_counts %d" % (len(pp), len(bc)))
            for row, vals in zip(pp, bc):
                i, j = int(row[0]), int(row[1])       # python integers, whatever the dataset's dtype is
                if not (0 <= i < n and 0 <= j < n):
                    problems.append("pair (%d, %d) outside 0..%d" % (i, j, n - 1))
                pairs[(i, j)] = [float(x) for x in np.atleast_1d(vals)]
            out[role] = dict(N=n, pairs=pairs, problems=problems, pair_dtype=str(pp.dtype), auto=bool(g["counts"]["auto"][()]),
                             w1=[[float(x) for x in r] for r in g["sum_weights"]["sum_weights1"][:]],
                             w2=[[float(x) for x in r] for r in g["sum_weights"]["sum_weights2"][:]])
    return out


def compare_file(stored, K):
    """problem description or None: what the harness reads from the file against what was written"""
    for role in ROLES:
        P, S = K[role], stored.get(role)
        if (P is None) != (S is None):
            return "the file %s a group for %s" % ("lacks" if S is None else "holds", role)
        if P is None:
            continue
        if S["problems"]:
            return "%s: %s" % (role, "; ".join(S["problems"][:3]))
        if S["N"] != P["N"]:
            return "%s: num_patches = %d, written from a container of %d patches" % (role, S["N"], P["N"])
        d = diff_pairs(nonzero_pairs(P), {k: v for k, v in S["pairs"].items() if any(x != 0.0 for x in v)}, P["N"])
        if d:
            return "%s (patch_pairs stored as %s): %s" % (role, S["pair_dtype"], d)
        if not (len(S["w1"]) == P["B"] and all(same_values(S["w1"][b], P["w1"][b]) and same_values(S["w2"][b], P["w2"][b])
                                               for b in range(P["B"]))):
            return "%s: sum_weights1 / sum_weights2 of the file are not the container's" % role
    return None


# ----------------------------------------------------------------------------- index expressions of .patches[...]
def make_item(kind, pos, N):
    """an index expression of the given kind that selects the positions pos (in this order) on an axis of length N, or None
    when this kind cannot express them"""
    if kind in INT_DTYPES:
        info = np.iinfo(kind)
        vals = []
        for n, p in enumerate(pos):
            cand = [p] if p <= info.max else []
            if info.min < 0 and p - N >= info.min:
                cand.append(p - N)
            if not cand:
                return None
            vals.append(cand[(n + p) % len(cand)])          # deterministic mix of positive and negative spellings
        return np.array(vals, dtype=kind)
    if kind == "list":
        return [int(p) for p in pos]
    if kind == "list-neg":
        return [int(p - N) if (n % 2) else int(p) for n, p in enumerate(pos)]
    if kind in ("mask", "mask-list"):
        if list(pos) != sorted(set(pos)):
            return None
        m = [i in set(pos) for i in range(N)]
        return np.array(m, dtype=bool) if kind == "mask" else m
    if kind in ("slice", "range"):
        if len(pos) < 2:
            return None
        step = pos[1] - pos[0]
        if step == 0 or any(pos[i + 1] - pos[i] != step for i in range(len(pos) - 1)):
            return None
        stop = pos[-1] + step
        if kind == "range":
            return range(pos[0], stop, step) if stop >= -1 else None
        return slice(pos[0], stop if stop >= 0 else None, step)
    raise KeyError(kind)


def resolve_item(item, N):
    """the positions an index expression selects, worked out with python integers only"""
    if isinstance(item, slice):
        return list(range(*item.indices(N)))
    if isinstance(item, range):
        return [p + N if p < 0 else p for p in item]
    seq = list(item)
    if len(seq) and isinstance(seq[0], (bool, np.bool_)):
        assert len(seq) == N
        return [i for i, m in enumerate(seq) if m]
    out = []
    for x in seq:
        x = int(x)
        if not -N <= x < N:
            raise IndexError(x)
        out.append(x + N if x < 0 else x)
    return out


def gen_positions(rng, N, kind, style):
    """distinct positions for a .patches[...] selection of this kind; the styles keep high patch numbers in play"""
    if kind in ("slice", "range"):
        step = rng.choice([1, 1, 2, 3, -1, -1, -2, 5])
        if step > 0:
            lo = rng.randrange(0, max(1, N // 3))
            hi = rng.randrange(max(lo + 2 * step, N - N // 3), N + 1)
            pos = list(range(lo, min(hi, N), step))
        else:
            hi = rng.randrange(N - max(1, N // 3), N)
            lo = rng.randrange(0, max(1, min(N // 3, hi + 2 * step)))
            pos = list(range(hi, lo, step))
        return pos if len(pos) >= 2 else [0, N - 1][::1 if step > 0 else -1]
    if kind in INT_DTYPES:
        info = np.iinfo(kind)
        ok = [p for p in range(N) if p <= info.max or (info.min < 0 and p - N >= info.min)]
    else:
        ok = list(range(N))
    if style == "most":
        m = rng.randint(max(2, (2 * len(ok)) // 3), len(ok))
    elif style == "high":         # few patches, mostly with high numbers
        m = rng.randint(2, min(24, len(ok)))
        top = [p for p in ok if p >= N - max(24, N // 8)]
        ok = top + rng.sample(ok, min(len(ok), 6)) if len(top) >= 2 else ok
        ok = sorted(set(ok))
        m = min(m, len(ok))
    else:
        m = rng.randint(2, len(ok))
    pos = rng.sample(ok, m)
    if kind in ("mask", "mask-list") or rng.random() < 0.4:
        pos.sort()
    elif rng.random() < 0.3:
        pos.sort(reverse=True)
    return pos


# ----------------------------------------------------------------------------- generators
def dy(rng, mode):
    if mode == "int":
        return float(rng.randrange(1, 40))
    if mode == "binary":
        return 1.0
    return rng.randrange(1, 256) / 8.0


def gen_pairs(rng, N, B, auto, density, mode):
    """sparse counts: a band around the diagonal (linked neighbours), scattered pairs, and planted pairs in the rows and
    columns next to powers of two and on flat positions next to powers of two"""
    pairs = {}

    def put(i, j):
        if not (0 <= i < N and 0 <= j < N):
            return
        if auto == "triu" and j < i:
            i, j = j, i
        v = [dy(rng, mode) if rng.random() < 0.8 else 0.0 for _ in range(B)]
        if not any(v):
            v[rng.randrange(B)] = dy(rng, mode)
        pairs[(i, j)] = v
    width = rng.choice([0, 1, 1, 2])
    for i in range(N):
        for d in range(-width, width + 1):
            if rng.random() < density:
                put(i, (i + d) % N if rng.random() < 0.9 else i + d)
    for _ in range(int(N * density * rng.choice([0.5, 1, 2]))):
        put(rng.randrange(N), rng.randrange(N))
    marks = [m for m in MARKS if m < N] + [N - 1, N - 2, 0]
    for m in marks:
        for other in (m, 0, N - 1, rng.randrange(N), rng.choice(marks)):
            if rng.random() < 0.7:
                put(m, other)
            if rng.random() < 0.7:
                put(other, m)
    for f in FLAT_MARKS:
        for g in (f - 1, f, f + 1, f + N):
            if 0 <= g < N * N and rng.random() < 0.8:
                put(g // N, g % N)
    put(N - 1, N - 1)
    return pairs


def gen_weight_rows(rng, N, B, mode):
    if mode == "dyadic":
        return [[rng.randrange(1, 64) / 4.0 for _ in range(N)] for _ in range(B)]
    return [[float(rng.randrange(1, 12)) for _ in range(N)] for _ in range(B)]


def gen_family(gen):
    """deterministic from the description gen = dict(seed, N, B, auto, roles, nleaves, density, mode): the leaves (harness
    containers) of one family share binning, patches and sums of weights"""
    rng = _random.Random(gen["seed"])
    N, B, auto = gen["N"], gen["B"], gen["auto"]
    edges = jk.gen_binning(_random.Random(gen.get("eseed", gen["seed"])), B)
    wmode = rng.choice(["int", "int", "dyadic"])
    weights, flags = {}, {}
    if rng.random() < 0.7:
        # the weights of four samples, as a measurement stores them: dd = (D1, D2), dr = (D1, R2), rd = (R1, D2), rr = (R1, R2); an
        # autocorrelation has D2 = D1, R2 = R1 and only dd / rr are autocorrelation containers; the second sample of a
        # cross-correlation is not binned (the same weights in every bin)
        def rows(binned):
            if binned:
                return gen_weight_rows(rng, N, B, wmode)
            r = gen_weight_rows(rng, N, 1, wmode)[0]
            return [list(r) for _ in range(B)]
        D1, R1 = rows(True), rows(True)
        D2, R2 = (D1, R1) if auto else (rows(False), rows(False))
        table = dict(dd=(D1, D2, auto), dr=(D1, R2, False), rd=(R1, D2, False), rr=(R1, R2, auto))
        for k in gen["roles"]:
            weights[k], flags[k] = (table[k][0], table[k][1]), table[k][2]
    else:
        for k in gen["roles"]:
            w1 = gen_weight_rows(rng, N, B, wmode)
            weights[k], flags[k] = (w1, w1 if auto else gen_weight_rows(rng, N, B, wmode)), auto
    leaves = []
    for _ in range(gen["nleaves"]):
        K = {}
        for k in ROLES:
            if k not in gen["roles"]:
                K[k] = None
                continue
            shape = ("triu" if rng.random() < 0.6 else "full") if flags[k] else "full"
            K[k] = dict(auto=bool(flags[k]), N=N, B=B, pairs=gen_pairs(rng, N, B, shape, gen["density"], gen["mode"]),
                        w1=[list(r) for r in weights[k][0]], w2=[list(r) for r in weights[k][1]])
        leaves.append(K)
    return edges, leaves


def gen_route(rng, gen, length, force=None):
    """a list of operations; selections are recorded with their positions so that a replay repeats them exactly"""
    N, B = gen["N"], gen["B"]
    route = []
    names = ["file", "file", "pickle", "deepcopy", "copy", "dict", "add", "sum", "mul", "patches", "patches", "patches", "bins"]
    for n in range(length):
        name = force[n] if force and n < len(force) else rng.choice(names)
        if name in COPIES:
            route.append(dict(op="copy", how=name))
        elif name in ("add", "sum", "iadd"):
            if gen["nleaves"] < 2:
                route.append(dict(op="copy", how="file"))
                continue
            route.append(dict(op=name, via=rng.choice([None, None, "file", "pickle"])))
        elif name == "mul":
            c, ctype = rng.choice([(2.0, "float"), (0.5, "float"), (3, "int"), (0.25, "np.float64"), (4, "np.int64"), (-1.0, "float")])
            route.append(dict(op="mul", c=c, ctype=ctype))
        elif name.startswith("patches"):
            kind = name.split(":")[1] if ":" in name else rng.choice(ITEM_KINDS)
            style = rng.choice(["most", "most", "high", "any"])
            pos = gen_positions(rng, N, kind, style)
            if make_item(kind, pos, N) is None:
                kind = "list"
            route.append(dict(op="patches", kind=kind, pos=pos, n=N))
            N = len(pos)
        elif name == "bins":
            if B < 2:
                route.append(dict(op="copy", how="dict"))
                continue
            a = rng.randrange(B)
            b = rng.randint(a + 1, B)
            if (a, b) == (0, B):
                b -= 1
            route.append(dict(op="bins", lo=a, hi=b))
            B = b - a
        else:
            raise KeyError(name)
    return route


def op_label(op):
    if op["op"] == "copy":
        return op["how"]
    if op["op"] == "patches":
        return "patches:%s" % op["kind"]
    if op["op"] == "mul":
        return "mul:%s" % op["ctype"]
    return op["op"]


def route_text(route):
    out = []
    for op in route:
        if op["op"] == "patches":
            out.append("patches[%s, %d of %d]" % (op["kind"], len(op["pos"]), op["n"]))
        elif op["op"] == "bins":
            out.append("bins[%d:%d]" % (op["lo"], op["hi"]))
        elif op["op"] == "mul":
            out.append("* %s(%r)" % (op["ctype"], op["c"]))
        elif op["op"] in ("add", "sum", "iadd"):
            out.append("%s other%s" % (op["op"], " (via %s)" % op["via"] if op.get("via") else ""))
        else:
            out.append(op["how"])
    return " -> ".join(out) or "(as built)"


# ----------------------------------------------------------------------------- running a route
def do_copy(cf, how, workdir, tag, expect, report):
    from yaw import CorrFunc
    if how == "file":
        path = os.path.join(workdir, "big_%s.hdf" % tag)
        try:
            cf.to_file(path)
            try:
                problem = compare_file(read_file(path), expect)
            except Exception as e:  # noqa: BLE001  the harness cannot even read the datasets
                problem = "the datasets of the file cannot be read back (%s: %s)" % (type(e).__name__, e)
            if problem:
                report("file-content", problem)
            return CorrFunc.from_file(path)
        finally:
            if os.path.exists(path):
                os.remove(path)
    if how == "pickle":
        return _pickle.loads(_pickle.dumps(cf))
    if how == "deepcopy":
        return _copy.deepcopy(cf)
    if how == "copy":
        return _copy.copy(cf)
    return CorrFunc.from_dict(cf.to_dict())


def scalar(c, ctype):
    return {"float": float, "int": int, "np.float64": np.float64, "np.int64": np.int64}[ctype](c)


class Watch:
    """compares what the implementation stores with the harness' copy after every operation; reports the first difference"""

    def __init__(self, ctx, route, replay, what="CorrFunc"):
        self.ctx, self.route, self.replay, self.what = ctx, route, replay, what
        self.first_bad = None

    def file_problem(self, kind, text, label="file"):
        if self.first_bad:            # (a container that is already wrong writes a wrong file)
            return
        self.ctx.fail("c04-big-file-content", "CorrFunc.to_file of a %s with many patches (route: %s): the datasets read back with h5py are not "
                      "the pair counts / sums of weights of the container: %s" % (self.what, route_text(self.route), text),
                      dict(self.replay, failed_op=label))
        self.first_bad = "to_file"

    def check(self, cf, K, label):
        if self.first_bad:
            return
        ctx, route, replay = self.ctx, self.route, self.replay
        for role in ROLES:
            nc, P = getattr(cf, role), K[role]
            if (nc is None) != (P is None):
                ctx.fail("c04-big-roles-changed:%s" % label.split(":")[0], "after '%s' (route: %s) the %s %s pair counts %s"
                         % (label, route_text(route), self.what, "lacks the" if nc is None else "holds", role), dict(replay, failed_op=label))
                self.first_bad = label
                return
            if P is None:
                continue
            cnt, wts = compare_container(nc, P)
            if cnt:
                ctx.fail("c04-big-stored-counts:%s" % label, "after '%s' (route: %s) the pair counts %s of a %s with %d patches are not "
                         "the ones the operation defines: %s" % (label, route_text(route), role, self.what, P["N"], cnt), dict(replay, failed_op=label))
            if wts:
                ctx.fail("c04-big-stored-weights:%s" % label, "after '%s' (route: %s) %s of a %s with %d patches: %s"
                         % (label, route_text(route), role, self.what, P["N"], wts), dict(replay, failed_op=label))
            if cnt or wts:
                self.first_bad = label
                return


def run_route(ctx, edges, leaves, route, replay, tag):
    """-> (resulting CorrFunc or None, the harness' copy of what it must hold, label of the first operation after which
    the implementation's stored arrays differ or None)"""
    os.makedirs(ctx.workdir, exist_ok=True)
    cf = build_cf(edges, leaves[0])
    K = kinds_apply(leaves[0], sp_copy)
    selections = []           # the selections made so far (the other operand of a later sum gets the same ones)
    watch = Watch(ctx, route, replay)
    report = watch.file_problem
    watch.check(cf, K, "construction")
    for n, op in enumerate(route):
        label = op_label(op)
        ctx.bump("big-op/%s" % label)
        try:
            if op["op"] == "copy":
                cf = do_copy(cf, op["how"], ctx.workdir, "%s_%d" % (tag, n), K, report)
            elif op["op"] == "mul":
                cf = cf * scalar(op["c"], op["ctype"])
                K = kinds_apply(K, lambda P: sp_scale(P, float(op["c"])))
            elif op["op"] == "bins":
                cf = cf.bins[slice(op["lo"], op["hi"])]
                K = kinds_apply(K, lambda P: sp_bins(P, list(range(op["lo"], op["hi"]))))
                selections.append(op)
            elif op["op"] == "patches":
                n_axis = K["dd"]["N"]
                item = make_item(op["kind"], op["pos"], n_axis)
                assert item is not None and resolve_item(item, n_axis) == list(op["pos"]), "harness: index expression"
                try:
                    np.arange(n_axis)[item]
                except Exception:  # noqa: BLE001  numpy itself refuses this spelling: not the library's business
                    ctx.bump("big-op-numpy-refuses/%s" % label)
                    item = [int(p) for p in op["pos"]]
                cf = cf.patches[item]
                K = kinds_apply(K, lambda P: sp_patches(P, list(op["pos"])))
                selections.append(op)
            else:                                           # add / sum / iadd with the second leaf
                Ko = kinds_apply(leaves[1], sp_copy)
                other = build_cf(edges, leaves[1])
                for sel in selections:
                    if sel["op"] == "bins":
                        other = other.bins[slice(sel["lo"], sel["hi"])]
                        Ko = kinds_apply(Ko, lambda P: sp_bins(P, list(range(sel["lo"], sel["hi"]))))
                    else:
                        other = other.patches[[int(p) for p in sel["pos"]]]
                        Ko = kinds_apply(Ko, lambda P: sp_patches(P, list(sel["pos"])))
                if op.get("via"):
                    other = do_copy(other, op["via"], ctx.workdir, "%s_%d_o" % (tag, n), Ko, report)
                    watch.check(other, Ko, op["via"])
                if op["op"] == "add":
                    cf = cf + other
                elif op["op"] == "iadd":
                    cf += other
                else:
                    cf = sum([other], cf)
                K = {k: (None if K[k] is None else sp_add(K[k], Ko[k])) for k in ROLES}
        except AssertionError:
            raise
        except Exception as e:  # noqa: BLE001
            ctx.fail("c04-big-raises:%s" % label, "the operation '%s' of the route %s on a CorrFunc with %d patches raises %s: %s"
                     % (label, route_text(route), K["dd"]["N"], type(e).__name__, str(e)[:300]), dict(replay, failed_op=label))
            return None, K, label
        watch.check(cf, K, label)
    return cf, K, watch.first_bad


# ----------------------------------------------------------------------------- Coq terms
# Literals are the expensive part of a shard (every binary digit of a numeral is a constructor the kernel type-checks, a
# unary patch index of 300 is 300 of them): indices are written in binary (N), small dyadic numbers as integer numerators
# over one power of two per list, and the implementation's floats as (sign, 53-bit mantissa as a primitive integer,
# exponent) - converted to the model's nat / Q by the helpers of HEADER, exactly (m * 2^e is the float's value).
HEADER = """From Verif Require Import Prelude Jackknife Estimators PairIndex.
From Coq Require Import Uint63.
Open Scope Q_scope.
Definition qd (den : positive) (n : Z) : Q := n # den.
Definition pe (den : positive) (i j : N) (ns : list Z) : spe := (N.to_nat i, N.to_nat j, map (qd den) ns).
Definition wr (den : positive) (ns : list Z) : list Q := map (qd den) ns.
Definition fl (neg : bool) (m : int) (e : Z) : oq :=
  let z := Uint63.to_Z m in
  let z := if neg then (- z)%Z else z in
  Some (if (0 <=? e)%Z then inject_Z (z * 2 ^ e) else z # Z.to_pos (2 ^ (- e))).
Definition nn (l : list N) : list nat := map N.to_nat l.
Arguments pe den%positive i%N j%N ns%Z.
Arguments wr den%positive ns%Z.
Arguments fl neg m%uint63 e%Z.
Arguments nn l%N.
"""


def common_den(values):
    from fractions import Fraction
    den = 1
    for x in values:
        den = max(den, Fraction(float(x)).denominator)       # dyadic numbers: the largest power of two is the common one
    assert den & (den - 1) == 0
    return den


def znum(x, den):
    from fractions import Fraction
    f = Fraction(float(x)) * den
    assert f.denominator == 1
    n = int(f)
    return "(%d)" % n if n < 0 else "%d" % n


def zlist(xs, den):
    return "[" + "; ".join(znum(x, den) for x in xs) + "]%Z"


def wmat_term(w):
    den = common_den(x for r in w for x in r)
    return "[" + "; ".join("wr %d %s" % (den, zlist(r, den)) for r in w) + "]"


def fl_term(x):
    x = float(x)
    if not math.isfinite(x):
        return "None"
    if x == 0.0:
        return "(fl false 0 0)"
    m, e = math.frexp(abs(x))
    M, E = int(m * 2 ** 53), e - 53
    assert math.ldexp(M, E) == abs(x)
    while M % 2 == 0:
        M, E = M // 2, E + 1
    return "(fl %s %d %s)" % (fq.b(x < 0), M, "(%d)" % E if E < 0 else "%d" % E)


def fl_list(xs):
    return "[" + "; ".join(fl_term(x) for x in xs) + "]"


def fl_mat(m):
    return "[" + "; ".join(fl_list(r) for r in m) + "]"


class Lets:
    """weight arrays shared by several containers are written once"""

    def __init__(self):
        self.names, self.text = {}, ""

    def weights(self, w):
        key = repr(w)
        if key not in self.names:
            self.names[key] = "w%d" % len(self.names)
            self.text += "let %s := %s in " % (self.names[key], wmat_term(w))
        return self.names[key]


def bpc_term(P, lets, w1=None, w2=None):
    pairs = nonzero_pairs(P)
    den = common_den(x for v in pairs.values() for x in v)
    body = "[" + "; ".join("pe %d %d %d %s" % (den, k[0], k[1], zlist(pairs[k], den)) for k in sorted(pairs)) + "]"
    return "(Build_bpc %s %s %s %s)" % (fq.b(P["auto"]), body, w1 or lets.weights(P["w1"]), w2 or lets.weights(P["w2"]))


def opt_bpc(P, lets, **kw):
    return "None" if P is None else "(Some %s)" % bpc_term(P, lets, **kw)


def impl_term(cd):
    return "None" if cd is None else "(Some (%s, %s))" % (fl_list(cd.data), fl_mat(cd.samples))


def nz_term(dz, cross, ref, unk, nz):
    """c04_nz_case on the implementation's own CorrData values (jk.nz_term with the cheaper literals)"""
    def od(c):
        return "None" if c is None else "(Some %s)" % fl_list(c.data)

    def os_(c):
        return "None" if c is None else "(Some %s)" % fl_mat(c.samples)
    return "c04_nz_case %s %s %s %s %s %s %s %s %s" % (
        fq.qlist(dz), fl_list(cross.data), od(ref), od(unk), fl_list(nz.data),
        fl_mat(cross.samples), os_(ref), os_(unk), fl_mat(nz.samples))


def est_defined(roles):
    return ("dr" in roles) if "rr" in roles else ("dr" in roles or "rd" in roles)


def h_big(ctx):
    def h(c, case, replay):
        roles, text = "+".join(replay["roles"]), replay["text"]
        n = replay["result_N"]
        if c & 8:
            ctx.disagree("c04_big_case:ill-formed-case", case, dict(code=c, replay=replay))
            return
        if c & 1:
            if replay["raised"] is not None:
                ctx.fail("c04-big-sample-raises", "sample() of a CorrFunc with %d patches holding {%s} (route: %s) raises %s although the "
                         "documented estimator is defined" % (n, roles, text, replay["raised"]), replay, case=case)
            else:
                ctx.fail("c04-big-sample-defined-without-terms", "sample() of a CorrFunc with %d patches holding {%s} (route: %s) returns a "
                         "value although no estimator is defined for these pair counts" % (n, roles, text), replay, case=case)
            return
        if c & 2:
            ctx.fail("c04-big-estimator-value", "sample().data of a CorrFunc with %d patches holding {%s} (route: %s) is not the documented "
                     "estimator of total pair count / product of total weights of the pair counts the route defines (code %d)"
                     % (n, roles, text, c), replay, case=case)
        if c & 4:
            ctx.fail("c04-big-estimator-samples", "sample().samples of a CorrFunc with %d patches holding {%s} (route: %s) are not the documented "
                     "estimator of the pair counts without one patch (code %d)" % (n, roles, text, c), replay, case=case)
    return h


def h_nz(ctx):
    def h(c, case, replay):
        if c & 1:
            ctx.fail("c04-big-nz-formula-value", "RedshiftData.from_corrfuncs().data of CorrFuncs with %d patches (%s) is not "
                     "w_sp/sqrt(dz^2 w_ss w_pp) of their sampled values (code %d)" % (replay["result_N"], replay["text"], c), replay, case=case)
        if c & 2:
            ctx.fail("c04-big-nz-formula-samples", "RedshiftData.from_corrfuncs().samples of CorrFuncs with %d patches (%s) are not the "
                     "formula of the value on every jackknife sample (code %d)" % (replay["result_N"], replay["text"], c), replay, case=case)
    return h


def size_class(N):
    for lim in (128, 182, 256, 363, 512, 1024):
        if N < lim:
            return "N<%d" % lim
    return "N>=1024"


# ----------------------------------------------------------------------------- cases
def sample_case(ctx, batch, result, K, replay, kind, w_terms=None):
    """CorrFunc.sample() of a resulting container against the model on the harness' copy K"""
    roles = [k for k in ROLES if K[k] is not None]
    cd = None
    try:
        cd = jk.quiet(result.sample)
    except Exception as e:  # noqa: BLE001
        replay["raised"] = type(e).__name__
    N = K["dd"]["N"]
    replay["result_N"] = N
    w_terms = w_terms or {}
    lets = Lets()
    body = "c04_big_case (N.to_nat %d%%N) %s %s %s %s %s" % (
        N, bpc_term(K["dd"], lets, **w_terms.get("dd", {})), opt_bpc(K["dr"], lets, **w_terms.get("dr", {})),
        opt_bpc(K["rd"], lets, **w_terms.get("rd", {})), opt_bpc(K["rr"], lets, **w_terms.get("rr", {})), impl_term(cd))
    term = w_terms.get("lets", "") + lets.text + body
    batch.add(term, h_big(ctx), replay)
    full = cd is not None and jk.all_finite(cd.data) and jk.all_finite(cd.samples)
    ctx.count(key=("big", repr(replay.get("gen") or replay.get("meas")), repr(replay.get("route")), replay.get("which")),
              nontrivial=full or not est_defined(roles), kind="%s/%s/%s/%s%s" % (kind, "auto" if K["dd"]["auto"] else "cross",
                                                                                  "+".join(roles[1:]), size_class(N),
                                                                                  "/raises" if cd is None else ""))
    ctx.bump("big-patches/%s" % size_class(N))
    top = max((max(i, j) for P in K.values() if P is not None for (i, j) in nonzero_pairs(P)), default=0)
    for lim in (128, 182, 256, 363):
        if top >= lim:
            ctx.bump("big-nonzero-pair-beyond-row-or-column/%d" % lim)
    if cd is not None:
        ctx.sample(dict(kind=kind, patches=N, roles=roles, route=replay["text"], data=np.asarray(cd.data).tolist()), limit=13)
    return cd


def case_built(ctx, batch, gen, route, tag):
    edges, leaves = gen_family(gen)
    replay = dict(kind="big", gen=gen, route=route, text=route_text(route), roles=list(gen["roles"]), raised=None)
    result, K, bad = run_route(ctx, edges, leaves, route, replay, tag)
    if result is None:
        ctx.count(key=("big-raised", repr(gen), repr(route)), kind="big/built/raised")
        return None, None
    sample_case(ctx, batch, result, K, replay, "big/built")
    return result, K


def norm_case(ctx, batch, nz, replay):
    """RedshiftData.normalised() of an estimate with many jackknife samples (c04.norm_case_obj with the cheaper literals)"""
    from props import c04
    if np.isinf(np.asarray(nz.data, dtype=float)).any():
        ctx.bump("norm_skipped_infinite_input")
        return
    try:
        out = jk.quiet(nz.normalised)
    except Exception as e:  # noqa: BLE001
        ctx.fail("c04-raises:%s" % type(e).__name__, "RedshiftData.normalised() of an estimate with %d jackknife samples raised %s: %s"
                 % (len(nz.samples), type(e).__name__, e), replay)
        return
    term = "c04_norm_case false %s %s %s %s %s %s" % (fq.qlist(nz.binning.edges), fq.qlist(nz.binning.dz), fl_list(nz.data), fl_mat(nz.samples),
                                                      fl_list(out.data), fl_mat(out.samples))
    batch.add(term, c04.h_norm(ctx), replay)
    with np.errstate(all="ignore"):
        norm = float(np.nansum(np.asarray(nz.binning.dz) * np.asarray(nz.data, dtype=float)))
    ctx.count(key=("big-norm", repr(np.asarray(nz.data).tolist()), len(nz.samples)), nontrivial=norm != 0.0, kind="big-norm/nz")


def case_nz(ctx, b_big, b_nz, b_norm, gens, routes, tag):
    """RedshiftData.from_corrfuncs(cross, ref, unk) of three routed CorrFuncs with one final set of patches and bins"""
    names = [n for n in ("cross", "ref", "unk") if gens.get(n) is not None]
    res, cds = {}, {}
    text = ", ".join("%s: %s" % (n, route_text(routes[n])) for n in names)
    replay = dict(kind="big-nz", gens={n: gens[n] for n in names}, routes={n: routes[n] for n in names}, text=text)
    for n in names:
        edges, leaves = gen_family(gens[n])
        r1 = dict(kind="big", gen=gens[n], route=routes[n], text=route_text(routes[n]), roles=list(gens[n]["roles"]), raised=None, which=n)
        result, K, bad = run_route(ctx, edges, leaves, routes[n], r1, "%s_%s" % (tag, n))
        if result is None:
            return
        cds[n] = sample_case(ctx, b_big, result, K, r1, "big/built-for-nz")
        res[n] = result
        replay["result_N"] = K["dd"]["N"]
    if any(cds[n] is None for n in names):
        return
    try:
        nz = jk.quiet(jk.RedshiftData.from_corrfuncs, res["cross"], res.get("ref"), res.get("unk"))
    except Exception as e:  # noqa: BLE001
        ctx.count(key=("big-nz-raised", repr(replay["gens"]), repr(replay["routes"])), kind="big-nz/raised")
        ctx.fail("c04-big-nz-raises:%s" % type(e).__name__, "RedshiftData.from_corrfuncs of CorrFuncs with %d patches (%s) raised %s: %s"
                 % (replay["result_N"], text, type(e).__name__, e), replay)
        return
    dz = list(res["cross"].binning.dz)
    b_nz.add(nz_term(dz, cds["cross"], cds.get("ref"), cds.get("unk"), nz), h_nz(ctx), replay)
    ctx.count(key=("big-nz", repr(replay["gens"]), repr(replay["routes"])), nontrivial=jk.all_finite(nz.data),
              kind="big-nz/%s/%s" % ("+".join(names), size_class(replay["result_N"])))
    norm_case(ctx, b_norm, nz, dict(kind="big-norm", spec=dict(hist=False), origin=replay))


# ----------------------------------------------------------------------------- measurements with many patches
# Patches sit on a line along the equator, STEP degrees apart; position p carries the patch id perm[p].  Objects sit on the
# centre and in symmetric pairs 1/64, 1/32 deg beside it, so two objects are 0, 1/64 .. 1/16 deg apart inside a patch, STEP -+ 1/16 deg between
# neighbours and >= 2 STEP - 1/16 deg otherwise; the scale cut 0.5 .. 10 arcmin = 1/120 .. 1/6 deg keeps the first two groups
# (except coincident objects) and drops the third, each by a margin of more than 5 %.
STEP = 0.125
RMIN, RMAX = 0.5, 10.0
CONT = {
    "cross": dict(dd=("ref", True, "unk", False, False), dr=("ref", True, "unk_rand", False, False),
                  rd=("ref_rand", True, "unk", False, False), rr=("ref_rand", True, "unk_rand", False, False)),
    "ref": dict(dd=("ref", True, "ref", True, True), dr=("ref", True, "ref_rand", True, False),
                rr=("ref_rand", True, "ref_rand", True, True)),
}


def gen_measurement(meas):
    """deterministic from meas = dict(seed, N, B, ...): edges, closed side, permutation, per sample and POSITION the objects
    [redshift, weight, offset]"""
    rng = _random.Random(meas["seed"])
    N, B = meas["N"], meas["B"]
    e = [rng.choice([0.25, 0.5])]
    for _ in range(B):
        e.append(e[-1] + rng.choice([0.125, 0.25, 0.5]))
    closed = rng.choice(["left", "right"])
    perm = list(range(N))
    if meas.get("permute", True):
        rng.shuffle(perm)
    samples = {}
    for name in meas["samples"]:
        has_z = name.startswith("ref")
        hasw = rng.random() < 0.7
        objs_all = []
        for p in range(N):
            # symmetric about the patch centre with equal weights per symmetric pair: the weighted centres of all samples
            # coincide and every patch has a radius (the implementation's patch-consistency check accepts the catalogs)
            groups = [[0.03125, -0.03125]]
            if rng.random() < (0.6 if name.endswith("rand") else 0.3):
                groups.append([0.015625, -0.015625])
            for _ in range(rng.choice([0, 0, 1, 1, 2])):
                groups.append([0.0])
            objs = []
            for g in groups:
                w = (rng.randrange(1, 17) / 4.0) if hasw else 1.0
                for off in g:
                    if has_z:
                        b = rng.randrange(B)
                        lo, hi = e[b], e[b + 1]
                        z = rng.choice([(lo + hi) / 2.0, (lo + hi) / 2.0, lo + (hi - lo) * 0.25, hi if closed == "right" else lo])
                        if objs and rng.random() < 0.1:
                            z = e[-1] + 0.25          # outside the binning (never the first object: no patch without members)
                    else:
                        z = 0.0
                    objs.append([z, w, off])
            objs_all.append(objs)
        samples[name] = dict(has_z=has_z, hasw=hasw, objs=objs_all)
    return dict(edges=e, closed=closed, perm=perm, samples=samples)


def meas_frame(M, sample):
    ra, z, w, pid = [], [], [], []
    for p, objs in enumerate(sample["objs"]):
        for zz, ww, off in objs:
            ra.append(20.0 + STEP * p + off)
            z.append(zz)
            w.append(ww)
            pid.append(M["perm"][p])
    order = list(range(len(ra)))
    _random.Random(len(ra)).shuffle(order)          # rows of a table are not sorted by patch
    cols = dict(ra=np.asarray(ra, dtype="f8")[order], dec=np.zeros(len(ra)), pid=np.asarray(pid, dtype="i8")[order])
    if sample["has_z"]:
        cols["z"] = np.asarray(z, dtype="f8")[order]
    if sample["hasw"]:
        cols["w"] = np.asarray(w, dtype="f8")[order]
    return cols


def member(closed, edges, b, z):
    """python-side bin membership: used by the brute-force pair count only (the weights are summed inside Coq)"""
    return (edges[b] < z <= edges[b + 1]) if closed == "right" else (edges[b] <= z < edges[b + 1])


def brute_cross(M, s1, s2):
    """{(id1, id2): counts per bin} of sample s1 (binned by its redshifts) x sample s2 inside the scale cut"""
    B = len(M["edges"]) - 1
    out = {}
    lo, hi = RMIN / 60.0, RMAX / 60.0
    N = len(s1["objs"])
    for p in range(N):
        for q in (p - 1, p, p + 1):
            if not 0 <= q < N:
                continue
            acc = [0.0] * B
            for z, w, off in s1["objs"][p]:
                bins = [b for b in range(B) if member(M["closed"], M["edges"], b, z)]
                if not bins:
                    continue
                for _, w2, off2 in s2["objs"][q]:
                    sep = abs((STEP * p + off) - (STEP * q + off2))
                    if lo < sep < hi:
                        acc[bins[0]] += w * w2
            if any(acc):
                out[(M["perm"][p], M["perm"][q])] = acc
    return out


def patches_term(M, sample):
    """the records (redshift, weight) of a sample by patch ID"""
    by_id = [None] * len(sample["objs"])
    for p, objs in enumerate(sample["objs"]):
        by_id[M["perm"][p]] = objs
    return fq.lst([fq.lst([fq.pair(fq.q(z), fq.q(w)) for z, w, _ in objs]) for objs in by_id])


def measure(ctx, meas, M, tag):
    import yaw
    dirs, cats = [], {}
    N = meas["N"]
    cent = np.zeros((N, 2))
    for p in range(N):
        cent[M["perm"][p]] = [20.0 + STEP * p, 0.0]
    try:
        for name, sample in sorted(M["samples"].items()):
            d = impl.fresh_dir(ctx, "bigcat_%s_%s" % (tag, name))
            dirs.append(d)
            kw = dict(ra_name="ra", dec_name="dec", max_workers=1)
            if meas.get("centers"):
                kw["patch_centers"] = impl.AngularCoordinates(np.deg2rad(cent))
            else:
                kw["patch_name"] = "pid"
            if sample["has_z"]:
                kw["redshift_name"] = "z"
            if sample["hasw"]:
                kw["weight_name"] = "w"
            cats[name] = impl.Catalog.from_dataframe(d, impl.make_df(meas_frame(M, sample)), **kw)
            assert sorted(int(k) for k in cats[name].keys()) == list(range(N)), "patch ids"
            want = [None] * N
            for p, objs in enumerate(sample["objs"]):
                want[M["perm"][p]] = len(objs)
            assert [int(cats[name][p].meta.num_records) for p in range(N)] == want, "records per patch"
        conf = impl.Configuration.create(rmin=RMIN, rmax=RMAX, unit="arcmin", edges=M["edges"], closed=M["closed"], max_workers=1)
        old = np.seterr(invalid="ignore", divide="ignore")
        try:
            cross = yaw.crosscorrelate(conf, cats["ref"], cats["unk"], ref_rand=cats.get("ref_rand"), unk_rand=cats.get("unk_rand"),
                                       max_workers=1)[0]
            ref = None
            if meas.get("ref_auto") is not None and "ref_rand" in cats:
                ref = yaw.autocorrelate(conf, cats["ref"], cats["ref_rand"], count_rr=meas["ref_auto"], max_workers=1)[0]
        finally:
            np.seterr(**old)
        return cross, ref
    finally:
        impl.set_threads(1)
        for d in dirs:
            shutil.rmtree(d, ignore_errors=True)


def case_measured(ctx, b_big, b_nz, b_norm, meas, routes, tag):
    """the CorrFuncs of a measurement with many patches, each through a route, against the model on the measured pair
    counts (cross-correlation: additionally against the brute-force count) and the weights of the records"""
    M = gen_measurement(meas)
    replay0 = dict(kind="big-meas", meas=meas, routes=routes)
    try:
        cross, ref = jk.quiet(measure, ctx, meas, M, tag)
    except AssertionError:
        raise
    except Exception as e:  # noqa: BLE001
        ctx.count(key=("big-meas-raised", repr(meas)), kind="big/measured/raised")
        ctx.fail("c04-big-measurement-raises:%s" % type(e).__name__, "crosscorrelate / autocorrelate of catalogs with %d patches raised %s: %s"
                 % (meas["N"], type(e).__name__, str(e)[:300]), replay0)
        return
    N, B = meas["N"], len(M["edges"]) - 1
    res, cds = {}, {}
    for which, cf in (("cross", cross), ("ref", ref)):
        if cf is None:
            continue
        K = {}
        for role in ROLES:
            nc = getattr(cf, role)
            if nc is None:
                K[role] = None
                continue
            n1, b1, n2, b2, auto = CONT[which][role]
            arr = np.asarray(nc.counts.counts)
            assert arr.shape == (B, N, N)
            P = dict(auto=auto, N=N, B=B, pairs=observed_pairs(arr),
                     w1=[[float(x) for x in r] for r in nc.sum_weights.sum_weights1], w2=[[float(x) for x in r] for r in nc.sum_weights.sum_weights2])
            if which == "cross":          # which pairs, and their counts, from the records
                d = diff_pairs(brute_cross(M, M["samples"][n1], M["samples"][n2]), P["pairs"], N)
                if d:
                    ctx.fail("c04-big-measured-counts", "the pair counts %s that crosscorrelate returns for catalogs with %d patches (patch ids "
                             "permuted along the line) are not the weighted pairs inside the scale cut, patch pair by patch pair: %s"
                             % (role, N, d), dict(replay0, which=which, role=role))
            K[role] = P
        r1 = dict(kind="big-meas", meas=meas, routes=routes, route=routes[which], text="measured %s -> %s" % (which, route_text(routes[which])),
                  roles=[k for k in ROLES if K[k] is not None], raised=None, which=which)
        # the route on the measured container: the harness' copy carries the STORED weights through the operations (that is
        # what the operations must preserve); the model's weights are the records' (selected like the route selects)
        os.makedirs(ctx.workdir, exist_ok=True)
        result, Kout, bad = run_measured_route(ctx, cf, K, routes[which], r1, "%s_%s" % (tag, which))
        if result is None:
            continue
        sel = None
        for op in routes[which]:
            if op["op"] == "patches":
                sel = list(op["pos"]) if sel is None else [sel[p] for p in op["pos"]]
        lets, wterms, seen = "", {}, {}
        for role in ROLES:
            if K[role] is None:
                continue
            n1, b1, n2, b2, auto = CONT[which][role]
            names = []
            for nme, binned in ((n1, b1), (n2, b2)):
                if nme not in seen:
                    seen[nme] = "rec_%s" % nme
                    lets += "let rec_%s := %s in " % (nme, patches_term(M, M["samples"][nme]))
                var = "sw_%s_%s" % (nme, "b" if binned else "u")
                if var not in seen:
                    seen[var] = True
                    t = "(side_weights %s %s (Build_side %s rec_%s))" % (fq.b(M["closed"] == "right"), fq.qlist(M["edges"]), fq.b(binned), nme)
                    if sel is not None:
                        t = "(map (vsel (nn %s)) %s)" % ("[" + "; ".join(str(int(x)) for x in sel) + "]%N", t)
                    lets += "let %s := %s in " % (var, t)
                names.append(var)
            wterms[role] = dict(w1=names[0], w2=names[1])
        wterms["lets"] = lets
        cds[which] = sample_case(ctx, b_big, result, Kout, r1, "big/measured", w_terms=wterms)
        res[which] = result
    if cds.get("cross") is None or ("ref" in res and cds.get("ref") is None):
        return
    if res["cross"].num_patches != (res["ref"].num_patches if "ref" in res else res["cross"].num_patches):
        return
    replay = dict(replay0, text="measured: " + ", ".join("%s: %s" % (n, route_text(routes[n])) for n in res), result_N=res["cross"].num_patches)
    try:
        nz = jk.quiet(jk.RedshiftData.from_corrfuncs, res["cross"], res.get("ref"), None)
    except Exception as e:  # noqa: BLE001
        ctx.fail("c04-big-nz-raises:%s" % type(e).__name__, "RedshiftData.from_corrfuncs of measured CorrFuncs with %d patches raised %s: %s"
                 % (replay["result_N"], type(e).__name__, e), replay)
        return
    b_nz.add(nz_term(list(res["cross"].binning.dz), cds["cross"], cds.get("ref"), None, nz), h_nz(ctx), replay)
    ctx.count(key=("big-meas-nz", repr(meas), repr(routes)), nontrivial=jk.all_finite(nz.data),
              kind="big-nz/measured/%s" % size_class(replay["result_N"]))
    norm_case(ctx, b_norm, nz, dict(kind="big-norm", spec=dict(hist=False), origin=replay))


def run_measured_route(ctx, cf, K, route, replay, tag):
    """run_route for a container that was measured (copies and patch selections only)"""
    K = kinds_apply(K, sp_copy)
    watch = Watch(ctx, route, replay, what="measured CorrFunc")
    for n, op in enumerate(route):
        label = op_label(op)
        ctx.bump("big-op/%s" % label)
        try:
            if op["op"] == "copy":
                cf = do_copy(cf, op["how"], ctx.workdir, "%s_%d" % (tag, n), K, watch.file_problem)
            elif op["op"] == "patches":
                n_axis = K["dd"]["N"]
                item = make_item(op["kind"], op["pos"], n_axis)
                assert item is not None and resolve_item(item, n_axis) == list(op["pos"]), "harness: index expression"
                cf = cf.patches[item]
                K = kinds_apply(K, lambda P: sp_patches(P, list(op["pos"])))
            else:
                raise KeyError(op["op"])
        except (AssertionError, KeyError):
            raise
        except Exception as e:  # noqa: BLE001
            ctx.fail("c04-big-raises:%s" % label, "the operation '%s' of the route %s on a measured CorrFunc with %d patches raises %s: %s"
                     % (label, route_text(route), K["dd"]["N"], type(e).__name__, str(e)[:300]), dict(replay, failed_op=label))
            return None, K, label
        watch.check(cf, K, label)
    return cf, K, watch.first_bad


def gen_measured_routes(rng, N, with_ref):
    """routes of copies and one shared patch selection (both CorrFuncs must keep the same patches for the n(z))"""
    sel = None
    if rng.random() < 0.6:
        kind = rng.choice(ITEM_KINDS)
        pos = gen_positions(rng, N, kind, rng.choice(["most", "most", "any"]))
        if make_item(kind, pos, N) is None:
            kind = "list"
        sel = dict(op="patches", kind=kind, pos=pos, n=N)
    routes = {}
    for which in ["cross"] + (["ref"] if with_ref else []):
        r = [dict(op="copy", how=rng.choice(["file", "file", "pickle", "deepcopy"]))]
        if sel is not None:
            mine = dict(sel)
            if rng.random() < 0.5:
                alt = rng.choice(ITEM_KINDS)
                if make_item(alt, sel["pos"], N) is not None:
                    mine["kind"] = alt
            r.insert(rng.randrange(2), mine)
        if rng.random() < 0.4:
            r.append(dict(op="copy", how=rng.choice(COPIES)))
        routes[which] = r
    return routes


# ----------------------------------------------------------------------------- entry points
def pick_n(rng, hi):
    """patch numbers between 100 and hi, often next to the widths of narrow integers"""
    special = [n for n in (127, 128, 129, 181, 182, 183, 255, 256, 257, 300, 362, 363, 400, 511, 513) if 100 <= n <= hi]
    if rng.random() < 0.5:
        return rng.choice(special)
    return rng.randint(100, hi)


def gen_gen(rng, N=None, hi=400, roles=None, auto=None, nleaves=None, B=None):
    sub = roles if roles is not None else rng.choice(jk.SUBSETS)
    return dict(seed=rng.randrange(2 ** 31), N=N or pick_n(rng, hi), B=B or rng.choice([1, 2, 2, 3]),
                auto=bool(rng.random() < 0.5) if auto is None else bool(auto), roles=["dd"] + list(sub),
                nleaves=nleaves or rng.choice([1, 2]), density=rng.choice([0.3, 0.6, 0.9]), mode=rng.choice(["int", "int", "dyadic", "binary"]))


def run(ctx):
    rng = _random.Random(ctx.seed * 1000003 + 404)       # a stream of its own: the other families keep theirs
    b_big = Batch(ctx, "Cases_C04_big", shard=1)
    b_nz = Batch(ctx, "Cases_C04_big_nz", shard=1)
    b_norm = Batch(ctx, "Cases_C04_big_norm", shard=2)
    full = ("dr", "rd", "rr")
    n = 0
    # deterministic part: the patch numbers at which a flat pair position first leaves 15 / 16 bits, all four pair counts through a file
    for N, auto, sub in ((182, False, full), (257, True, ("dr", "rr")), (129, False, ("rd",))) if ctx.quick() else \
            [(N, a, s) for N in (128, 129, 181, 182, 183, 256, 257, 363) for a, s in ((False, full), (True, ("dr", "rr")))]:
        gen = gen_gen(rng, N=N, roles=sub, auto=auto, nleaves=1, B=2)
        case_built(ctx, b_big, gen, [dict(op="copy", how="file")], "p%d" % n)
        n += 1
    # every way of spelling a patch selection once, on a CorrFunc with more than 256 patches
    gen = gen_gen(rng, N=rng.choice([300, 320, 384]), roles=("dr",), auto=False, nleaves=1, B=1)
    for kind in ITEM_KINDS:
        rt = gen_route(rng, gen, 1, force=["patches:%s" % kind])
        if ctx.quick() and len(rt[0]["pos"]) > 120:          # the quick tier keeps these cases small: few patches, high numbers
            rt[0]["pos"] = rt[0]["pos"][-60:] if rt[0]["kind"] not in ("slice", "range") else rt[0]["pos"]
        case_built(ctx, b_big, gen, rt, "k%d" % n)
        n += 1
    # every other operation once on a CorrFunc with more than 256 patches (two leaves that share their sums of weights)
    gen = gen_gen(rng, N=rng.choice([258, 300, 363, 400]), roles=rng.choice([("dr",), ("rd",), ("dr", "rr")]), auto=rng.random() < 0.5, nleaves=2, B=2)
    gen["density"] = 0.3
    for name in ("pickle", "deepcopy", "copy", "dict", "add", "sum", "iadd", "mul", "bins"):
        case_built(ctx, b_big, gen, gen_route(rng, gen, 1, force=[name]), "o%d" % n)
        n += 1
    # random routes
    for _ in range(ctx.n(8, 90)):
        gen = gen_gen(rng, hi=400)
        route = gen_route(rng, gen, rng.choice([1, 2, 2, 3]))
        case_built(ctx, b_big, gen, route, "r%d" % n)
        n += 1
    if not ctx.quick():
        for N in (700, 1100, 2000):
            gen = gen_gen(rng, N=N, roles=rng.choice([("dr",), ("dr", "rr"), ("rd",)]), nleaves=1, B=rng.choice([1, 2]))
            gen["density"] = 0.3
            case_built(ctx, b_big, gen, gen_route(rng, gen, 2, force=["file", rng.choice(["patches", "pickle", "mul"])]), "h%d" % n)
            n += 1
    # n(z) of three routed CorrFuncs
    defined = [s for s in jk.SUBSETS if est_defined(s)]
    for _ in range(ctx.n(2, 20)):
        N, B = pick_n(rng, 400), rng.choice([1, 2, 3])
        eseed = rng.randrange(2 ** 31)
        gens = dict(cross=gen_gen(rng, N=N, B=B, roles=rng.choice(defined), auto=False),
                    ref=gen_gen(rng, N=N, B=B, roles=rng.choice(defined), auto=True) if rng.random() < 0.8 else None,
                    unk=gen_gen(rng, N=N, B=B, roles=rng.choice(defined), auto=True) if rng.random() < 0.4 else None)
        for g in gens.values():
            if g is not None:
                g["eseed"] = eseed
        sel = None
        if rng.random() < 0.7:           # one selection of patches shared by the three CorrFuncs (each may spell it its own way)
            kind = rng.choice(ITEM_KINDS)
            pos = gen_positions(rng, N, kind, rng.choice(["most", "any"]))
            sel = dict(op="patches", kind=kind if make_item(kind, pos, N) is not None else "list", pos=pos, n=N)
        routes = {}
        for nme, g in gens.items():
            if g is None:
                continue
            r = [dict(op="copy", how=rng.choice(["file", "file", "pickle", "deepcopy", "dict"]))]
            if sel is not None:
                mine = dict(sel)
                alt = rng.choice(ITEM_KINDS)
                if rng.random() < 0.5 and make_item(alt, sel["pos"], N) is not None:
                    mine["kind"] = alt
                r.insert(rng.randrange(2), mine)
            routes[nme] = r
        case_nz(ctx, b_big, b_nz, b_norm, gens, routes, "z%d" % n)
        n += 1
    ctx.log("many patches: %d CorrFuncs built and routed" % len(b_big.items))
    # measurements
    for _ in range(ctx.n(1, 6)):
        N = rng.choice([190, 230, 262] if ctx.quick() else [150, 182, 200, 257, 300, 400, 520, 700])
        which = rng.choice(["both", "both", "ref_rand", "unk_rand"])
        names = ["ref", "unk"] + (["ref_rand"] if which in ("both", "ref_rand") else []) + (["unk_rand"] if which in ("both", "unk_rand") else [])
        meas = dict(seed=rng.randrange(2 ** 31), N=N, B=rng.choice([1, 2, 2, 3]), samples=names, permute=True,
                    centers=rng.random() < 0.5, ref_auto=(rng.random() < 0.6) if "ref_rand" in names and rng.random() < 0.7 else None)
        routes = gen_measured_routes(rng, N, meas["ref_auto"] is not None)
        case_measured(ctx, b_big, b_nz, b_norm, meas, routes, "m%d" % n)
        n += 1
    ctx.log("many patches: measurements done; %d cases to evaluate in Coq" % (len(b_big.items) + len(b_nz.items) + len(b_norm.items)))
    return b_big, b_nz, b_norm


def replay(ctx, r):
    b_big, b_nz, b_norm = Batch(ctx, "Replay_C04_big", shard=1), Batch(ctx, "Replay_C04_big_nz", shard=1), Batch(ctx, "Replay_C04_big_norm", shard=1)
    kind = r["kind"]
    if kind == "big-norm":
        r = r["origin"]
        kind = r["kind"]
    if kind == "big":
        case_built(ctx, b_big, r["gen"], r["route"], "replay")
    elif kind == "big-nz":
        gens = {n: r["gens"].get(n) for n in ("cross", "ref", "unk")}
        case_nz(ctx, b_big, b_nz, b_norm, gens, r["routes"], "replay")
    elif kind == "big-meas":
        case_measured(ctx, b_big, b_nz, b_norm, r["meas"], r["routes"], "replay")
    for b in (b_big, b_nz, b_norm):
        b.run()
