"""C10, 'look' family - calls that are supposed to only LOOK, made between two measurements with the SAME configuration.

The membership rule applies to the edges the configuration was CREATED with.  A history is
    create the configuration (edges as list / tuple / float64 array / generated from zmin, zmax, num_bins;
                              BinningConfig, Configuration.create, or a BinningConfig wrapped into a Configuration)
    first measurements      (HistData.from_catalog, autocorrelate, crosscorrelate: the results that are looked at)
    a random sequence of library calls on the results, on the configuration and on what they hand out:
        plot (every style, xoffset, indicate_zero, scale_dz, ax given / current / shared, colour, label, plot_kwargs) and plot_corr
        (matplotlib, Agg backend) on HistData, HistData.normalised(), CorrFunc.sample(), RedshiftData, sums of results;
        repr / str / format, len / iteration / indexing (.bins, .patches, Binning[k], iter(Binning)), == / != / is_compatible,
        the accessors .edges .mids .dz .left .right .closed .zmin .zmax .num_bins (READ, then computed on out of place or
        on a copy in place), to_dict / from_dict, to_file / to_files and reading back, copy / deepcopy / Binning.copy,
        pickle, Catalog.get_centers, CorrFunc.sample / sample_patch_sum / get_array, normalised, RedshiftData.from_corrfuncs /
        from_corrdata, BinningConfig / Configuration.modify (and a histogram with the MODIFIED configuration), + - * of results
    then, with the SAME configuration object: Catalog.build_trees(config edges, closed) + BinnedTrees per patch,
        HistData.from_catalog, autocorrelate / crosscorrelate (same catalog or a fresh one).
Checked in Coq (Model/BinningLook.v: c10_look_case; C10_look_case_sound):
    (a) trees, histogram and the measurement's sum_weights follow the closed-side rule for the CREATED edges - the harness
        keeps its own copy of the numbers and never reads them back from the object;
    (b) the configuration still reports the created closed side and edges (exact values; the bit patterns are compared on
        the python side as well).
The harness itself never writes into an array the library handed out (that is outside what C10 promises): it reads the
accessors and computes out of place or on copies.  After every call the binning the configuration reports is compared with
the one before (bytes), which names the call that changed it; the verdict is the Coq code of the whole history.
Classification only: the WHAT-IF reading of the history (every plot call written with an in-place shift of what the accessor
hands out, aliasing where np.shares_memory saw shared memory) is run through the heap model; when it reproduces the reported
edges the failure text says so (C10_look_aliasing_refuted: the change is the one `x = binning.edges; x += xoffset` produces).
"""
import copy
import os
import pickle
import shutil
import traceback
import warnings

import numpy as np

from lib import floatq as fq
from lib import impl
from props import c10 as base

HEADER_LOOK = "From Verif Require Import Prelude Binning BinningLook.\nOpen Scope Q_scope.\n"
SIG_CALL = "c10-readonly-call-changes-configured-binning"
SIG_MEAS = "c10-measurement-changes-configured-binning"
SIG_MEMBER = "c10-membership-after-readonly-calls"

# TRUSTED / ASSUMPTIONS / RULE entries of this family are listed in props/c10.py (check.py reads them from the property's module)

OFFSETS = [0.0625, -0.0625, 0.03125, -0.03125, 0.015625, 0.125, -0.125, 0.01, -0.005, 0.25]
STYLES = [None, "point", "line", "step"]
SAMPLED = ["hist", "hist_norm", "cd_auto", "cd_cross", "rd"]          # results with plot()
NEEDS = {"cd_auto": "auto", "cf_auto": "auto", "dd_auto": "auto", "cd_cross": "cross", "cf_cross": "cross", "dd_cross": "cross", "rd": "cross"}
ANY = ["cfg", "bcfg", "binning", "hist", "hist_norm", "cd_auto", "cd_cross", "rd", "cf_auto", "cf_cross", "dd_auto", "dd_cross", "derived"]
BINNED = ["binning", "hist", "hist_norm", "cd_auto", "cd_cross", "rd", "cf_auto", "cf_cross", "dd_auto", "dd_cross", "derived"]


def _plt():
    import matplotlib
    matplotlib.use("Agg", force=True)
    import matplotlib.pyplot as plt
    return plt


# ---------------------------------------------------------------- generator
def available(first, names):
    return [n for n in names if NEEDS.get(n) is None or NEEDS[n] in first]


def gen_plot(rng, first, subj=None, style="?", xoffset=None):
    return dict(op="plot", subj=subj or rng.choice(available(first, SAMPLED) + ["derived"]),
                style=rng.choice(STYLES) if style == "?" else style,
                xoffset=(0.0 if rng.random() < 0.2 else rng.choice(OFFSETS)) if xoffset is None else xoffset,
                zero=rng.random() < 0.3, scale_dz=rng.random() < 0.25, ax=rng.choice(["none", "none", "new", "shared"]),
                color=rng.choice([None, None, "C1", "k"]), label=rng.choice([None, "n(z)"]), kwargs=rng.random() < 0.2)


def gen_op(rng, first, cfgkind):
    kind = rng.choice(["plot"] * 8 + ["plot_corr", "text", "text", "len-iter", "len-iter", "eq", "accessor", "accessor", "accessor",
                                     "to_dict", "to_file", "copy", "pickle", "get_centers", "sample", "normalised", "from_corrfuncs",
                                     "modify", "modify", "arith"])
    if kind == "plot":
        return gen_plot(rng, first)
    if kind == "plot_corr":
        return dict(op=kind, subj=rng.choice(available(first, SAMPLED)), redshift=rng.random() < 0.5, ax=rng.choice(["none", "new", "shared"]))
    if kind == "text":
        return dict(op=kind, subj=rng.choice(available(first, ANY)), how=rng.choice(["repr", "str", "format"]))
    if kind == "len-iter":
        return dict(op=kind, subj=rng.choice(available(first, BINNED)), k=rng.randrange(4), how=rng.choice(["len", "iter", "index", "slice", "patches"]))
    if kind == "eq":
        return dict(op=kind, subj=rng.choice(available(first, ANY)), how=rng.choice(["twin", "modified", "copy", "self", "compatible"]))
    if kind == "accessor":
        return dict(op=kind, subj=rng.choice(available(first, ["cfg", "bcfg"] + BINNED)),
                    attr=rng.choice(["edges", "edges", "mids", "dz", "left", "right", "closed", "config-props"]),
                    use=rng.choice(["none", "add", "mul", "sort", "copy-inplace", "copy-inplace", "tolist", "diff", "minmax", "index"]),
                    d=rng.choice(OFFSETS), f=rng.choice([2.0, 0.5, 1.5, -1.0]))
    if kind == "to_dict":
        return dict(op=kind, subj=rng.choice(available(first, ["cfg", "bcfg", "cf_auto", "cf_cross"])), back=rng.random() < 0.6)
    if kind == "to_file":
        return dict(op=kind, subj=rng.choice(available(first, ["cfg", "bcfg", "cf_auto", "cf_cross", "hist", "hist_norm", "cd_auto", "cd_cross", "rd"])),
                    back=rng.random() < 0.6)
    if kind == "copy":
        return dict(op=kind, subj=rng.choice(available(first, ANY)), how=rng.choice(["binning-copy", "copy", "deepcopy"]))
    if kind == "pickle":
        return dict(op=kind, subj=rng.choice(available(first, ANY)), protocol=rng.choice([2, 4, pickle.HIGHEST_PROTOCOL]))
    if kind == "get_centers":
        return dict(op=kind)
    if kind == "sample":
        return dict(op=kind, subj=rng.choice(available(first, ["cf_auto", "cf_cross", "dd_auto", "dd_cross"]) or ["hist"]),
                    how=rng.choice(["sample", "patch-sum", "array"]))
    if kind == "normalised":
        return dict(op=kind, subj=rng.choice(available(first, ["hist", "hist", "rd", "hist_norm"])), target=rng.random() < 0.3)
    if kind == "from_corrfuncs":
        return dict(op=kind, how=rng.choice(["cross", "cross+ref", "corrdata", "auto-as-cross"]))
    if kind == "modify":
        hows = ["nothing", "closed", "edges", "generated", "use-hist", "use-hist"]
        if cfgkind != "binning":
            hows += ["rmin", "max_workers", "inner", "use-auto", "use-auto"]
        return dict(op=kind, how=rng.choice(hows))
    return dict(op="arith", subj=rng.choice(available(first, ["hist", "cd_auto", "cd_cross", "rd", "cf_auto", "cf_cross", "hist_norm"])),
                how=rng.choice(["add", "sub", "mul"]))


def shifts_of(ops, edges):
    """how far the arguments of the history could move an edge (shapes the redshifts only)"""
    out = {0.0625, 0.03125}
    for o in ops:
        if o.get("xoffset"):
            out.add(abs(o["xoffset"]))
        if o["op"] == "accessor":
            out.add(abs(o["d"]))
    return sorted(out)


def look_objects(rng, P, edges, closed, hasw, shifts):
    cand = list(base.critical_values(edges))
    near = []
    for e in edges:
        for d in shifts:
            near += [e + d, e - d, e + d / 2.0, e - d / 2.0]
    nb = len(edges) - 1
    patches = []
    for _ in range(P):
        zs = []
        for _ in range(rng.randrange(3, 9)):
            r = rng.random()
            zs.append(rng.choice(list(edges)) if r < 0.3 else rng.choice(near) if r < 0.75 else rng.choice(cand))
        k = rng.randrange(nb)
        zs.append((edges[k] + edges[k + 1]) / 2.0)        # strictly inside, whatever the closed side
        patches.append([(float(z), rng.randrange(1, 41) / 8.0 if hasw else 1.0) for z in zs])
    return patches


def gen_edges(rng, how):
    if how == "generated":
        nb = rng.choice([1, 2, 4])
        lo = rng.choice([0.25, 0.5])
        width = rng.choice([0.25, 0.5])
        return [lo + k * width for k in range(nb + 1)]
    return [float(x) for x in base.random_edges(rng)]


def random_look_spec(rng, nops=None, first=None, cfgkind=None, how=None, ops=None, tag="random"):
    how = how or rng.choice(["list", "list", "tuple", "ndarray", "ndarray", "generated"])
    cfgkind = cfgkind or rng.choice(["configuration", "configuration", "configuration", "binning", "wrapped"])
    edges = gen_edges(rng, how)
    closed = rng.choice(["left", "right"])
    hasw = rng.random() < 0.5
    if first is None:
        first = ["hist"]
        if cfgkind != "binning":
            first += rng.choice([[], ["auto"], ["cross"], ["auto", "cross"], ["auto", "cross"]])
    if ops is None:
        ops = [gen_op(rng, first, cfgkind) for _ in range(nops if nops is not None else rng.randrange(1, 8))]
    P = rng.choice([1, 2, 2, 3])
    final = rng.choice([None, "auto", "auto", "cross"]) if cfgkind != "binning" else None
    return dict(family="look", tag=tag, closed=closed, hasw=hasw, edges=edges, how=how, cfg=cfgkind, first=list(first), ops=ops,
                patches=look_objects(rng, P, edges, closed, hasw, shifts_of(ops, edges)), final=final,
                fresh_catalog=rng.random() < 0.4, prebuilt=rng.random() < 0.5)


def look_probe_specs(rng):
    """deterministic coverage: every plotted kind of result x every style with a non-zero x-offset, both closed sides in turn; every
    other kind of call at least once; a history without any call (control)"""
    out = []
    k = 0
    for subj in SAMPLED:
        first = ["hist"] + ([NEEDS[subj]] if NEEDS.get(subj) else []) + (["auto"] if subj == "rd" else [])
        for cfgkind in (["configuration", "binning"] if subj in ("hist", "hist_norm") else ["configuration", "wrapped"]):
            ops = []
            for style in STYLES:
                k += 1
                ops.append(dict(op="plot", subj=subj, style=style, xoffset=OFFSETS[k % 4], zero=bool(k % 2), scale_dz=bool(k % 3 == 0),
                                ax=["none", "new", "shared"][k % 3], color=None, label=None, kwargs=False))
            # one style per history as well: a change by one call must not be repaired by the next
            out.append(random_look_spec(rng, first=first, cfgkind=cfgkind, ops=ops, how=["list", "ndarray"][k % 2], tag="probe:plot-all-styles:" + subj))
    for subj in SAMPLED:
        first = ["hist"] + ([NEEDS[subj]] if NEEDS.get(subj) else []) + (["auto"] if subj == "rd" else [])
        for style in STYLES:
            k += 1
            ops = [dict(op="plot", subj=subj, style=style, xoffset=OFFSETS[k % 6], zero=False, scale_dz=False, ax="none", color=None,
                        label=None, kwargs=False)]
            out.append(random_look_spec(rng, first=first, cfgkind="configuration", ops=ops, how=["list", "tuple", "ndarray"][k % 3],
                                        tag="probe:plot:%s:%s" % (subj, style)))
    first = ["hist", "auto", "cross"]
    others = [
        [dict(op="text", subj=s, how=h) for s, h in zip(ANY, ["repr", "str", "format"] * 5)],
        [dict(op="len-iter", subj=s, k=i % 3, how=h) for i, (s, h) in enumerate(zip(BINNED, ["len", "iter", "index", "slice", "patches"] * 3))],
        [dict(op="eq", subj=s, how=h) for s, h in zip(["cfg", "bcfg", "binning", "cd_auto", "cf_cross"], ["twin", "modified", "copy", "self", "compatible"])],
        [dict(op="accessor", subj=s, attr=a, use=u, d=0.0625, f=2.0)
         for s, a, u in zip(["cfg", "bcfg", "binning", "cf_auto", "cd_cross", "rd", "hist", "binning", "cfg"],
                            ["edges", "edges", "left", "right", "mids", "dz", "edges", "closed", "config-props"],
                            ["add", "copy-inplace", "mul", "sort", "copy-inplace", "tolist", "diff", "none", "none"])],
        [dict(op="to_dict", subj=s, back=True) for s in ["cfg", "bcfg", "cf_auto"]] +
        [dict(op="to_file", subj=s, back=True) for s in ["cfg", "bcfg", "cf_cross", "hist", "cd_auto", "rd"]],
        [dict(op="copy", subj=s, how=h) for s, h in zip(["binning", "cfg", "bcfg", "cf_auto", "hist", "cd_cross"],
                                                        ["binning-copy", "copy", "deepcopy", "copy", "deepcopy", "copy"])] +
        [dict(op="pickle", subj=s, protocol=p) for s, p in zip(["cfg", "binning", "cf_cross", "rd"], [2, 4, 5, 4])],
        [dict(op="get_centers")] + [dict(op="sample", subj=s, how=h) for s, h in zip(["cf_auto", "cf_cross", "dd_auto", "dd_cross"],
                                                                                      ["sample", "sample", "patch-sum", "array"])] +
        [dict(op="normalised", subj="hist", target=False), dict(op="normalised", subj="rd", target=False), dict(op="normalised", subj="rd", target=True)] +
        [dict(op="from_corrfuncs", how=h) for h in ["cross", "cross+ref", "corrdata", "auto-as-cross"]],
        [dict(op="modify", how=h) for h in ["nothing", "closed", "edges", "generated", "use-hist", "rmin", "max_workers", "inner"]] +
        [dict(op="arith", subj=s, how=h) for s, h in zip(["hist", "cd_auto", "cf_cross", "rd"], ["add", "sub", "mul", "add"])],
        [dict(op="plot_corr", subj=s, redshift=r, ax=a) for s, r, a in zip(SAMPLED, [False, True, False, True, True], ["none", "new", "shared", "none", "new"])],
        [dict(op="modify", how="use-hist"), dict(op="plot", subj="derived", style="step", xoffset=0.0625, zero=False, scale_dz=False, ax="none",
                                                 color=None, label=None, kwargs=False),
         dict(op="modify", how="use-auto"), dict(op="plot", subj="derived", style="step", xoffset=-0.03125, zero=True, scale_dz=False, ax="new",
                                                 color=None, label=None, kwargs=False),
         dict(op="to_dict", subj="cfg", back=True), dict(op="copy", subj="cd_auto", how="copy"),
         dict(op="plot", subj="derived", style="step", xoffset=0.125, zero=False, scale_dz=True, ax="shared", color="k", label="x", kwargs=True)],
        [],
    ]
    for n, ops in enumerate(others):
        out.append(random_look_spec(rng, first=first, cfgkind=["configuration", "wrapped"][n % 2], ops=ops,
                                    how=["list", "ndarray", "generated", "tuple"][n % 4], tag="probe:calls:%d" % n))
    return out


def look_specs(ctx):
    rng = ctx.rng
    out = look_probe_specs(rng)
    out += [random_look_spec(rng) for _ in range(ctx.n(50, 1200))]
    return out


# ---------------------------------------------------------------- running one history
class Env:
    def __init__(self, ctx, spec, idx):
        self.ctx, self.spec, self.idx = ctx, spec, idx
        self.dirs = []
        self.res = {}
        self.derived = None
        self.changes = []           # (step index or name, class of the call) that changed what the configuration reports
        self.raised = []
        self.whatif = "LLook"
        self.step = None
        self.shared_ax = None
        self.cat_u = None

    # ---- scratch
    def fresh(self, name):
        d = impl.fresh_dir(self.ctx, "look_%s_%d" % (name, self.idx))
        self.dirs.append(d)
        return d

    def cleanup(self):
        try:
            _plt().close("all")
        except Exception:  # noqa: BLE001
            pass
        for d in self.dirs:
            shutil.rmtree(d, ignore_errors=True)

    # ---- the configuration
    def create(self):
        from yaw.config import BinningConfig
        from yaw.config.scales import ScalesConfig
        spec = self.spec
        E = [float(x) for x in spec["edges"]]               # the created numbers: the harness's own copy is spec["edges"]
        how, closed = spec["how"], spec["closed"]
        if how == "generated":
            bkw = dict(zmin=E[0], zmax=E[-1], num_bins=len(E) - 1, method="linear", closed=closed)
        else:
            arg = list(E) if how == "list" else tuple(E) if how == "tuple" else np.array(E, dtype="f8")
            self.input_edges = arg                          # kept alive, never written
            bkw = dict(edges=arg, closed=closed)
        skw = dict(rmin=100.0, rmax=1000.0)
        if spec["cfg"] == "binning":
            self.cfg = BinningConfig.create(**bkw)
            self.bcfg_of = lambda: self.cfg
        elif spec["cfg"] == "wrapped":
            inner = BinningConfig.create(**bkw)
            self.cfg = impl.Configuration(ScalesConfig.create(**skw), inner, max_workers=1)
            self.bcfg_of = lambda: self.cfg.binning
        else:
            self.cfg = impl.Configuration.create(max_workers=1, **skw, **bkw)
            self.bcfg_of = lambda: self.cfg.binning
        self.bkw, self.skw = bkw, skw

    def twin(self):
        """another configuration created the same way from the harness's own numbers"""
        from yaw.config import BinningConfig
        bkw = dict(self.bkw)
        if "edges" in bkw:
            bkw["edges"] = [float(x) for x in self.spec["edges"]]
        if self.spec["cfg"] == "binning":
            return BinningConfig.create(**bkw)
        return impl.Configuration.create(max_workers=1, **self.skw, **bkw)

    def cfg_edges(self):
        """what a user passes on: the edges as the configuration hands them out"""
        return self.bcfg_of().edges

    def cfg_closed(self):
        return str(self.bcfg_of().closed)

    def snap(self):
        try:
            e = np.asarray(self.cfg_edges())
            return (self.cfg_closed(), e.tobytes(), str(e.dtype), e.shape)
        except Exception as e:  # noqa: BLE001 - a configuration that no longer reports a binning
            return ("<%s: %s>" % (type(e).__name__, e),)

    def shares(self, obj):
        try:
            return bool(np.shares_memory(np.asarray(base.binning_of(obj).edges), np.asarray(self.cfg_edges())))
        except Exception:  # noqa: BLE001
            return False

    def watched(self, cls, thunk):
        """run a library call; remember it when the configuration reports another binning afterwards"""
        before = self.snap()
        try:
            return thunk()
        finally:
            if self.snap() != before:
                self.changes.append((self.step, cls))

    # ---- catalogs and measurements
    def catalog(self, name, binned=True):
        cols = base.make_frames(self.spec)
        kw = dict(ra_name="ra", dec_name="dec", patch_name="pid", max_workers=1)
        if self.spec["hasw"]:
            kw["weight_name"] = "w"
        if binned:
            kw["redshift_name"] = "z"
        return impl.Catalog.from_dataframe(self.fresh(name), impl.make_df(cols), **kw)

    def unbinned(self):
        if self.cat_u is None:
            self.cat_u = self.catalog("unk", binned=False)
        return self.cat_u

    def measure(self, what, cat):
        import yaw
        from yaw.redshifts import HistData
        old = np.seterr(all="ignore")
        try:
            if what == "hist":
                return HistData.from_catalog(cat, self.cfg, max_workers=1)
            if what == "auto":
                return yaw.autocorrelate(self.cfg, cat, cat, count_rr=False, max_workers=1)[0]
            cu = self.unbinned()
            return yaw.crosscorrelate(self.cfg, cat, cu, unk_rand=cu, max_workers=1)[0]
        finally:
            np.seterr(**old)

    # ---- the things that are looked at
    def get(self, name):
        from yaw.redshifts import RedshiftData
        if name == "derived":
            return self.derived if self.derived is not None else self.get("hist")
        if name == "cfg":
            return self.cfg
        if name == "bcfg":
            return self.bcfg_of()
        if name == "binning":
            return self.bcfg_of().binning
        if NEEDS.get(name) and NEEDS[name] not in self.spec["first"]:
            return self.get("hist")
        if name in self.res:
            return self.res[name]
        if name == "hist_norm":
            obj = self.watched("normalised", lambda: self.res["hist"].normalised())
        elif name in ("cd_auto", "cd_cross"):
            obj = self.watched("sample", lambda: self.res["cf_" + name[3:]].sample())
        elif name in ("dd_auto", "dd_cross"):
            obj = self.res["cf_" + name[3:]].dd
        elif name == "rd":
            ref = self.res.get("cf_auto")
            obj = self.watched("from_corrfuncs", lambda: RedshiftData.from_corrfuncs(self.res["cf_cross"], ref_corr=ref))
        else:
            raise KeyError(name)
        self.res[name] = obj
        return obj

    def axis(self, how):
        plt = _plt()
        if how == "new":
            return plt.subplots()[1]
        if how == "shared":
            if self.shared_ax is None:
                self.shared_ax = plt.subplots()[1]
            return self.shared_ax
        return None


def flip(closed):
    return "left" if closed == "right" else "right"


# ---- the calls
def op_plot(env, o):
    from yaw.redshifts import HistData
    subj = env.get(o["subj"])
    if not hasattr(subj, "plot"):
        subj = env.get("hist")
    step = o["style"] == "step" or (o["style"] is None and isinstance(subj, HistData))
    env.whatif = "LPlot 0 true %s %s %s" % (fq.b(env.shares(subj)), fq.b(step), fq.q(o["xoffset"]))
    kw = dict(style=o["style"], xoffset=o["xoffset"], indicate_zero=o["zero"], scale_dz=o["scale_dz"], ax=env.axis(o["ax"]))
    if o.get("color"):
        kw["color"] = o["color"]
    if o.get("label"):
        kw["label"] = o["label"]
    if o.get("kwargs"):
        kw["plot_kwargs"] = dict(alpha=0.5)
    if o["zero"] and kw["ax"] is not None:
        from yaw.utils import plotting
        plotting.zero_line(ax=kw["ax"])          # the helper behind indicate_zero, called directly as well
    subj.plot(**kw)


def op_plot_corr(env, o):
    subj = env.get(o["subj"])
    if not hasattr(subj, "plot_corr"):
        subj = env.get("hist")
    subj.plot_corr(redshift=o["redshift"], ax=env.axis(o["ax"]))


def op_text(env, o):
    subj = env.get(o["subj"])
    text = repr(subj) if o["how"] == "repr" else str(subj) if o["how"] == "str" else "{}|{!r}".format(subj, subj)
    assert isinstance(text, str)


def op_len_iter(env, o):
    from yaw.binning import Binning
    subj = env.get(o["subj"])
    b = base.binning_of(subj)
    how, k = o["how"], o["k"] % len(b)
    if how == "len":
        return len(b), getattr(subj, "num_bins", None), getattr(subj, "num_patches", None)
    if how == "iter":
        for x in b:
            x.edges.tolist(), x.mids.tolist(), str(x.closed), len(x)
        if not isinstance(subj, Binning):
            for x in subj.bins:
                x.binning.edges.tolist()
        return None
    if how == "index":
        return b[k].edges.tolist(), (None if isinstance(subj, Binning) else subj.bins[k].binning.edges.tolist())
    if how == "slice":
        return b[k:].edges.tolist(), (None if isinstance(subj, Binning) else subj.bins[:k + 1].binning.edges.tolist())
    if hasattr(subj, "patches"):
        return subj.patches[0].binning.edges.tolist(), [p.num_bins for p in subj.patches]
    return [x.dz.tolist() for x in b]


def op_eq(env, o):
    subj = env.get(o["subj"])
    how = o["how"]
    if how == "twin":
        t = env.twin()
        return env.cfg == t, env.cfg != t, env.bcfg_of() == (t if env.spec["cfg"] == "binning" else t.binning)
    if how == "modified":
        m = env.cfg.modify(closed=flip(env.spec["closed"]))
        return env.cfg == m, m == env.cfg, env.cfg != m
    if how == "copy":
        b = base.binning_of(subj)
        return b == b.copy(), b.copy() != b, b == copy.deepcopy(b)
    if how == "self":
        return subj == subj, subj != subj, subj == env.get("hist")
    other = env.get("hist")
    return subj.is_compatible(other) if hasattr(subj, "is_compatible") else (subj == other)


def op_accessor(env, o):
    from yaw.binning import Binning
    subj = env.get(o["subj"])
    if o["attr"] == "config-props":
        bc = env.bcfg_of()
        vals = [bc.zmin, bc.zmax, bc.num_bins, str(bc.closed), str(bc.method), bc.is_custom, bc.edges.tolist()]
        if env.spec["cfg"] != "binning":
            vals += [env.cfg.scales.rmin, env.cfg.scales.rmax, env.cfg.max_workers, env.cfg.cosmology]
        return vals
    b = base.binning_of(subj)
    if o["attr"] == "closed":
        return str(b.closed), b.closed == "left", repr(b.closed)
    x = getattr(subj, "edges") if (o["attr"] == "edges" and not isinstance(subj, Binning) and hasattr(subj, "edges")) else getattr(b, o["attr"])
    use = o["use"]
    # READ what was handed out; every arithmetic is out of place or on a copy
    if use == "add":
        return x + o["d"], o["d"] + x, x - o["d"]
    if use == "mul":
        return x * o["f"], x / o["f"], -x
    if use == "sort":
        return np.sort(x), np.sort(x)[::-1], sorted(x.tolist()), np.argsort(x)
    if use == "copy-inplace":
        c = np.array(x, copy=True)
        c += o["d"]
        c *= o["f"]
        c.sort()
        c[0] = 99.0
        c2 = x.copy()
        c2[:] = 0.0
        return c, c2
    if use == "tolist":
        lst = x.tolist()
        lst.append(1.0)
        lst.sort(reverse=True)
        return lst
    if use == "diff":
        return np.diff(x), np.cumsum(x), x[1:] - x[:-1]
    if use == "minmax":
        return float(x.min()), float(x.max()), float(x.sum()), float(x.mean())
    if use == "index":
        return float(x[0]), float(x[-1]), x[::-1].tolist(), x[:1].tolist()
    return x.shape, x.dtype, len(x)


def op_to_dict(env, o):
    from yaw.config import BinningConfig
    subj = env.get(o["subj"])
    d = subj.to_dict()
    if o["back"] and o["subj"] in ("cfg", "bcfg"):
        cls = type(subj)
        back = cls.from_dict(copy.deepcopy(d)) if cls is not BinningConfig else BinningConfig.from_dict(copy.deepcopy(d))
        env.derived_cfg = back
        return back == subj
    return sorted(d)


def op_to_file(env, o):
    from yaw import CorrFunc
    subj = env.get(o["subj"])
    d = env.fresh("files")
    os.makedirs(d, exist_ok=True)
    if o["subj"] in ("cfg", "bcfg"):
        path = os.path.join(d, "config.yml")
        subj.to_file(path)
        return type(subj).from_file(path) == subj if o["back"] else None
    if isinstance(subj, CorrFunc):
        path = os.path.join(d, "corrfunc.hdf")
        subj.to_file(path)
        if o["back"]:
            env.derived = CorrFunc.from_file(path)
        return None
    prefix = os.path.join(d, "result")
    subj.to_files(prefix)
    if o["back"]:
        env.derived = type(subj).from_files(prefix)
    return None


def op_copy(env, o):
    subj = env.get(o["subj"])
    if o["how"] == "binning-copy":
        c = base.binning_of(subj).copy()
        return c.edges.tolist(), str(c.closed)
    c = copy.copy(subj) if o["how"] == "copy" else copy.deepcopy(subj)
    if hasattr(c, "plot"):
        env.derived = c
    return base.describe_safe(c)


def op_pickle(env, o):
    subj = env.get(o["subj"])
    c = pickle.loads(pickle.dumps(subj, protocol=o["protocol"]))
    if hasattr(c, "plot"):
        env.derived = c
    return base.describe_safe(c)


def op_get_centers(env, o):
    c = env.cat.get_centers()
    return len(env.cat), env.cat.num_patches, c.ra.tolist(), c.dec.tolist()


def op_sample(env, o):
    from yaw import CorrFunc
    subj = env.get(o["subj"])
    if isinstance(subj, CorrFunc):
        if o["how"] == "sample":
            env.derived = subj.sample()
            return None
        subj = subj.dd
    if not hasattr(subj, "sample_patch_sum"):
        return None
    if o["how"] == "array":
        return subj.get_array().shape, subj.counts.get_array().sum(), subj.sum_weights.get_array().sum()
    s = subj.sample_patch_sum()
    return s.data.tolist(), s.binning.edges.tolist(), s.error.tolist()


def op_normalised(env, o):
    subj = env.get(o["subj"])
    if not hasattr(subj, "normalised"):
        subj = env.get("hist")
    env.derived = subj.normalised(env.get("hist_norm")) if o["target"] else subj.normalised()


def op_from_corrfuncs(env, o):
    from yaw.redshifts import RedshiftData
    first = env.spec["first"]
    cross = env.res.get("cf_cross") or env.res.get("cf_auto")
    if cross is None:
        return None
    ref = env.res.get("cf_auto")
    how = o["how"]
    if how == "cross" or ref is None:
        env.derived = RedshiftData.from_corrfuncs(cross)
    elif how == "cross+ref":
        env.derived = RedshiftData.from_corrfuncs(cross, ref_corr=ref)
    elif how == "corrdata":
        env.derived = RedshiftData.from_corrdata(cross.sample(), ref.sample(), None)
    else:
        env.derived = RedshiftData.from_corrfuncs(ref, unk_corr=ref if "auto" in first else None)


def op_modify(env, o):
    from yaw.redshifts import HistData
    how = o["how"]
    E = [float(x) for x in env.spec["edges"]]
    cfg = env.cfg
    if how == "nothing":
        m = cfg.modify()
    elif how == "closed":
        m = cfg.modify(closed=flip(env.spec["closed"]))
    elif how == "edges":
        m = cfg.modify(edges=[E[0] - 0.125] + [e + 0.0625 for e in E[1:]])
    elif how == "generated":
        m = cfg.modify(zmin=E[0] / 2.0, zmax=E[-1] + 0.5, num_bins=len(E) + 1, method="linear")
    elif how == "rmin":
        m = cfg.modify(rmin=50.0)
    elif how == "max_workers":
        m = cfg.modify(max_workers=2)
    elif how == "inner":
        m = cfg.binning.modify(closed=flip(env.spec["closed"]))
    elif how == "use-auto" and env.spec["cfg"] != "binning":
        # a measurement with a configuration DERIVED from the one under observation (same edges, other scales); its result is looked at later
        import yaw
        m = cfg.modify(rmax=500.0)
        env.derived = yaw.autocorrelate(m, env.cat, env.cat, count_rr=False, max_workers=1)[0].sample()
    else:       # the derived configuration is USED: a histogram with an unmodified copy (looked at later), one with the other closed side
        m = cfg.modify(closed=flip(env.spec["closed"]))
        HistData.from_catalog(env.cat, m, max_workers=1)
        env.derived = HistData.from_catalog(env.cat, cfg.modify(), max_workers=1)
    return base.describe_safe(m), repr(m), m == cfg


def op_arith(env, o):
    subj = env.get(o["subj"])
    if o["how"] == "add":
        env.derived = subj + subj
    elif o["how"] == "sub" and hasattr(subj, "__sub__"):
        env.derived = subj - subj
    elif hasattr(subj, "__mul__"):
        env.derived = subj * 2.0
    else:
        env.derived = subj + subj


OPS = {"plot": op_plot, "plot_corr": op_plot_corr, "text": op_text, "len-iter": op_len_iter, "eq": op_eq, "accessor": op_accessor,
       "to_dict": op_to_dict, "to_file": op_to_file, "copy": op_copy, "pickle": op_pickle, "get_centers": op_get_centers,
       "sample": op_sample, "normalised": op_normalised, "from_corrfuncs": op_from_corrfuncs, "modify": op_modify, "arith": op_arith}


def exact_linear(E):
    nb = len(E) - 1
    return [E[0] + k * (E[-1] - E[0]) / nb for k in range(nb + 1)]


def observe_look(ctx, spec, idx):
    """returns dict(trees, hist, meas, errors, reported=(closed, edges), bits_equal, changes, raised, whatif, skipped)"""
    from yaw.catalog.trees import BinnedTrees

    impl.set_threads(1)
    env = Env(ctx, spec, idx)
    created = [float(x) for x in spec["edges"]]
    own_bytes = np.asarray(created, dtype="f8").tobytes()
    errors = {}
    try:
        with warnings.catch_warnings():
            warnings.simplefilter("ignore")
            env.create()
            first_report = base.describe_safe(env.cfg)
            if spec["how"] == "generated" and (first_report[1] != created or created != exact_linear(created)):
                return dict(skipped="generated edges are not the exact linear ones: %r" % (first_report,))
            env.cat = env.catalog("cat")
            P = len(spec["patches"])
            assert sorted(int(k) for k in env.cat.keys()) == list(range(P)), "patch ids"
            if spec.get("prebuilt"):      # trees for the created binning exist before anything is looked at
                env.step = "first-measurement:build_trees"
                env.watched("build_trees", lambda: env.cat.build_trees(np.asarray(created, dtype="f8"), closed=spec["closed"], max_workers=1))
            # ---- first measurements: the results that are looked at
            for what in spec["first"]:
                env.step = "first-measurement:" + what
                obj = env.watched(what, lambda: env.measure(what, env.cat))
                env.res["hist" if what == "hist" else "cf_" + what] = obj
            # ---- the calls that only look
            whatif = []
            for k, o in enumerate(spec["ops"]):
                env.step = k
                env.whatif = "LLook"
                old = np.seterr(all="ignore")
                try:
                    env.watched(o["op"], lambda: OPS[o["op"]](env, o))
                except Exception as e:  # noqa: BLE001 - a call that refuses is not a wrong bin; counted
                    env.raised.append((k, o["op"], "%s: %s" % (type(e).__name__, str(e)[:200])))
                finally:
                    np.seterr(**old)
                whatif.append(env.whatif)
                if o["op"] in ("plot", "plot_corr") and o.get("ax") != "shared":
                    _plt().close("all")
                    env.shared_ax = None
            # ---- measure again with the SAME configuration object
            cat = env.cat
            if spec.get("fresh_catalog"):
                env.step = "final-measurement:catalog"
                cat = env.watched("catalog", lambda: env.catalog("cat2"))
            trees = None
            env.step = "final-measurement:build_trees"
            try:
                env.watched("build_trees", lambda: cat.build_trees(env.cfg_edges(), closed=env.cfg_closed(), max_workers=1))
                trees = [[(int(t.num_records), float(t.sum_weights)) for t in BinnedTrees(cat[p])] for p in range(P)]
            except Exception as e:  # noqa: BLE001 - the class is part of the observation
                errors["build_trees"] = "%s: %s" % (type(e).__name__, e)
            hist = None
            env.step = "final-measurement:hist"
            try:
                hist = [float(x) for x in env.watched("hist", lambda: env.measure("hist", cat)).data]
            except Exception as e:  # noqa: BLE001
                errors["hist"] = "%s: %s" % (type(e).__name__, e)
            meas = None
            if spec.get("final"):
                env.step = "final-measurement:" + spec["final"]
                try:
                    cf = env.watched(spec["final"], lambda: env.measure(spec["final"], cat))
                    meas = [[float(x) for x in row] for row in np.asarray(cf.dd.sum_weights.sum_weights1)]
                except Exception as e:  # noqa: BLE001
                    errors["meas"] = "%s: %s" % (type(e).__name__, e)
            reported = base.describe_safe(env.cfg)
            snap = env.snap()
            results = {nm: list(base.describe_safe(obj)) for nm, obj in sorted(env.res.items())}
            return dict(trees=trees, hist=hist, meas=meas, errors=errors, reported=[reported[0], list(reported[1])],
                        bits_equal=bool(len(snap) == 4 and snap[1] == own_bytes and snap[0] == spec["closed"]),
                        changes=[[s, c] for s, c in env.changes], raised=[list(r) for r in env.raised], whatif=whatif, results=results)
    finally:
        impl.set_threads(1)
        env.cleanup()


# ---------------------------------------------------------------- evaluation
def look_term(spec, obs):
    patches = fq.lst([fq.lst([fq.pair(fq.q(z), fq.q(w)) for z, w in objs]) for objs in spec["patches"]])
    P = len(spec["patches"])
    trees = obs["trees"] if obs["trees"] is not None else [None] * P
    tterm = fq.lst([fq.opt(t, lambda t_: fq.lst([fq.pair(fq.nat(n), fq.q(w)) for n, w in t_])) for t in trees])
    rc, re_ = obs["reported"]
    return "c10_look_case %s %s %s %s %s %s %s %s %s %s" % (
        fq.b(spec["closed"] == "right"), fq.b(spec["hasw"]), fq.qlist(spec["edges"]), fq.lst(obs["whatif"]), patches,
        fq.b(rc == "right"), fq.qlist(re_), tterm, fq.opt(obs["hist"], fq.qlist), fq.opt(obs["meas"], fq.qmat))


def label_look(ctx, spec):
    edges, closed = spec["edges"], spec["closed"]
    zs = [z for objs in spec["patches"] for z, _ in objs]
    shift = max(shifts_of(spec["ops"], edges))
    on_edge = any(z in edges for z in zs)
    near = any(0 < abs(z - e) <= shift for z in zs for e in edges)
    for o in spec["ops"]:
        ctx.bump("look-call:%s" % o["op"])
        if o["op"] == "plot":
            ctx.bump("look-plot:%s:%s:%s" % (o["subj"], o["style"] or "default", "xoffset" if o["xoffset"] else "no-offset"))
    ctx.bump("look-config:%s:%s" % (spec["cfg"], spec["how"]))
    ctx.bump("look-calls-per-history:%d" % min(len(spec["ops"]), 9))
    key = (closed, spec["hasw"], tuple(edges), spec["how"], spec["cfg"], tuple(tuple(o) for objs in spec["patches"] for o in objs + [("|", 0)]),
           tuple(spec["first"]), repr(spec["ops"]), spec.get("final"), bool(spec.get("fresh_catalog")), bool(spec.get("prebuilt")))
    ctx.count(key=key, nontrivial=bool(spec["ops"]) and (on_edge or near),
              kind="%s/%s/look/%s" % (closed, "weighted" if spec["hasw"] else "unweighted", spec["tag"].split(":")[0]))
    return dict(z_on_edge=on_edge, z_within_shift=near, calls=len(spec["ops"]))


def call_text(spec, step):
    if isinstance(step, int):
        o = spec["ops"][step]
        return "call %d of the history: %s(%s)" % (step, o["op"], ", ".join("%s=%r" % kv for kv in sorted(o.items()) if kv[0] != "op"))
    return str(step)


def interpret_look(ctx, idx, spec, obs, info, c):
    """bits (set = flag false): 1 closed side, 2 edges, 4 trees, 8 histogram, 16 measurement, 32 consistent,
    64 what-if reading does not reproduce the reported edges, 128 measurements do not follow the reported binning, 256 hypotheses"""
    if c is None:
        return
    tid = ("look", idx)
    replay = dict(spec=spec, observed=obs, labels=info, code=c)
    if c & 256:
        ctx.obligation("generator:look history %d satisfies the theorems' hypotheses" % idx, False, repr(spec))
        return
    changed = bool(c & 3) or not obs["bits_equal"]
    wrong = [nm for bit, nm in ((4, "trees"), (8, "histogram"), (16, "measurement")) if c & bit]
    if obs["trees"] is None and "trees" not in wrong:
        wrong.append("trees")
    created = "closed=%s edges=%s" % (spec["closed"], spec["edges"])
    after = "closed=%s edges=%s" % tuple(obs["reported"])
    if changed:
        follow = ""
        if wrong:
            follow = "; afterwards, with the same configuration object, %s do not follow the closed-%s rule for the created edges%s: trees %s, " \
                     "histogram %s, sum_weights %s %s" % (" / ".join(wrong), spec["closed"],
                                                          " but the rule for the moved ones" if not (c & 128) else "",
                                                          obs["trees"], obs["hist"], obs["meas"], obs["errors"] or "")
        why = " (the change is exactly what an in-place shift of the array the accessor hands out produces: C10_look_aliasing_refuted)" \
            if not (c & 64) else ""
        culprits = obs["changes"] or [["?", "unknown"]]
        seen = set()
        for step, cls in culprits:
            during_meas = not isinstance(step, int)
            sig = "%s:%s" % (SIG_MEAS if during_meas and cls != "unknown" else SIG_CALL, cls)
            if sig in seen:
                continue
            seen.add(sig)
            ctx.fail(sig, "a call that is supposed to only look changed the binning of the configuration: created %s, after %s the configuration "
                     "reports %s%s%s (objects %s)" % (created, call_text(spec, step), after, why, follow, spec["patches"]), replay, case=tid)
        return
    if wrong:
        for nm in wrong:
            ctx.fail("%s:%s" % (SIG_MEMBER, nm), "after calls that only look (%s) the %s obtained with the same, unchanged configuration object (%s) "
                     "do not follow the closed-%s rule: objects %s, trees %s, histogram %s, sum_weights %s %s" % (
                         [o["op"] for o in spec["ops"]], nm, created, spec["closed"], spec["patches"], obs["trees"], obs["hist"], obs["meas"],
                         obs["errors"] or ""), replay, case=tid)
    elif c & 32:
        ctx.fail("c10-consumers-inconsistent:after-readonly-calls", "trees, histogram and measurement sum_weights obtained after calls that only "
                 "look are mutually inconsistent: %s" % obs, replay, case=tid)


def run_looks(ctx, specs, name="Looks_C10"):
    terms, kept = [], []
    ncalls = nraised = nskipped = 0
    for idx, spec in enumerate(specs):
        try:
            obs = observe_look(ctx, spec, idx)
        except Exception as e:  # noqa: BLE001 - creating the catalog / configuration of a valid input must not raise
            ctx.fail("c10-harness-or-creation-raises:%s:look" % type(e).__name__,
                     "creating / measuring for a history of read-only calls raised %s: %s" % (type(e).__name__, e),
                     dict(spec=spec, traceback=traceback.format_exc()[-1500:]), case=("look", idx))
            continue
        if obs.get("skipped"):
            nskipped += 1
            ctx.bump("look-skipped:generated-edges-not-exact")
            continue
        info = label_look(ctx, spec)
        ncalls += len(spec["ops"])
        nraised += len(obs["raised"])
        for _, cls, msg in obs["raised"]:
            ctx.bump("look-call-raised:%s:%s" % (cls, msg.split(":")[0]))
        ctx.sample(dict(spec=spec, observed=obs), limit=5)
        terms.append(look_term(spec, obs))
        kept.append((idx, spec, obs, info))
    ctx.log("%d histories of read-only calls observed (%d calls, %d raised), evaluating in Coq" % (len(terms), ncalls, nraised))
    ctx.obligation("generator:look histories: at most 15%% of the calls raise (%d of %d)" % (nraised, ncalls), nraised * 100 <= 15 * max(ncalls, 1),
                   repr([r for _, _, o, _ in kept for r in o["raised"]][:20]))
    ctx.obligation("generator:look histories: at most 20%% skipped (%d of %d)" % (nskipped, len(specs)), nskipped * 5 <= max(len(specs), 1))
    if not terms:
        return []
    codes = ctx.shards(name, HEADER_LOOK, terms, shard=60)
    for (idx, spec, obs, info), c in zip(kept, codes):
        interpret_look(ctx, idx, spec, obs, info, c)
    # the results that were looked at were measured with the created binning and must still report it (c10_transport_case);
    # histories whose configuration changed are reported above
    recs = []
    for (idx, spec, obs, info), c in zip(kept, codes):
        if c is None or c & 3:
            continue
        for nm, got in sorted(obs["results"].items()):
            ctx.bump("reported:%s:after-readonly-calls" % nm)
            recs.append(dict(obj="reported:" + nm, kind="after-readonly-calls", closed=spec["closed"], edges=list(spec["edges"]), got=list(got),
                             spec=spec, case=("look", idx)))
    base.eval_transports(ctx, recs, name=name + "_Reported")
    return codes
