"""strace recorder (DESIGN §4.3): run a workload script under strace and parse the trace into
the list of file-system operations (with payload bytes) it performed below a directory.

Trusted: the parser below and strace itself.  Granularity is the system call.

    rc = run_traced(argv, trace_path, env=..., inject=("write", 17))   # optional SIGKILL injection
    events = parse_trace(trace_path)                 # every traced call, in order
    segs = split_marks(events, marks_path)           # {name: [events between BEGIN/END marks]}
    ops = file_ops(segs[name], root)                 # [Op] below root (relative paths)

An Op is a dict:
    {"op": "open",   "path": rel, "creat": bool, "trunc": bool, "append": bool}   (write-mode opens only)
    {"op": "write",  "path": rel, "data": bytes}                                 (at the end of file)
    {"op": "pwrite", "path": rel, "data": bytes, "offset": int}
    {"op": "truncate", "path": rel, "length": int}
    {"op": "mkdir" | "unlink" | "rmdir", "path": rel}
    {"op": "rename", "path": rel_from, "to": rel_to}
plus "sys" (syscall name) and "nth" (1-based ordinal of that syscall NAME in the traced process since
its start: the number strace's `inject=<sys>:when=<nth>` needs to kill the process instead of this call).
"""
import os
import re
import signal
import subprocess

STRACE = "strace"
SYSCALLS = "openat,open,creat,write,pwrite64,mkdir,mkdirat,unlink,unlinkat,rename,renameat,renameat2,rmdir,ftruncate,truncate,close"


def run_traced(argv, trace_path, env=None, inject=None, timeout=600, stdout=None, cwd=None):
    """Run argv under strace.  inject=(syscall_name, k): SIGKILL the tracee at the k-th call of that
    syscall (the call itself is not executed).  Returns the exit status of strace (= of the tracee;
    128+9 / -9 style codes when killed)."""
    cmd = [STRACE, "-f", "-y", "-x", "-s", "1000000", "-e", "trace=" + SYSCALLS]
    if inject is not None:
        cmd += ["-e", "inject=%s:signal=SIGKILL:when=%d" % (inject[0], int(inject[1]))]
    cmd += ["-o", trace_path] + list(argv)
    p = subprocess.Popen(cmd, env=env, stdout=stdout if stdout is not None else subprocess.DEVNULL,
                         stderr=subprocess.PIPE, cwd=cwd, start_new_session=True)
    try:
        _, err = p.communicate(timeout=timeout)
    except subprocess.TimeoutExpired:
        try:
            os.killpg(p.pid, signal.SIGKILL)
        except ProcessLookupError:
            pass
        p.wait()
        raise
    return p.returncode, err.decode("utf-8", "replace")[-4000:]


# ---------------------------------------------------------------- parsing
_LINE = re.compile(r"^(\d+)\s+(.*)$")
_RESUMED = re.compile(r"^<\.\.\. (\w+) resumed>\s?(.*)$")
_SIMPLE_ESC = {"n": 10, "t": 9, "r": 13, "v": 11, "f": 12, "a": 7, "b": 8, "e": 27, "\\": 92, '"': 34, "'": 39}


def _decode_cstring(s, i):
    """s[i] == '"'; returns (bytes, index after the closing quote and a possible '...')."""
    assert s[i] == '"'
    out = bytearray()
    i += 1
    n = len(s)
    while i < n:
        c = s[i]
        if c == '"':
            i += 1
            truncated = s.startswith("...", i)
            if truncated:
                raise ValueError("string truncated by strace (-s too small)")
            return bytes(out), i
        if c == "\\":
            d = s[i + 1]
            if d == "x":
                out.append(int(s[i + 2:i + 4], 16))
                i += 4
            elif d in "01234567":
                j = i + 1
                while j < i + 4 and j < n and s[j] in "01234567":
                    j += 1
                out.append(int(s[i + 1:j], 8) & 0xFF)
                i = j
            else:
                out.append(_SIMPLE_ESC[d])
                i += 2
        else:
            out.extend(c.encode("utf-8"))
            i += 1
    raise ValueError("unterminated string")


def _split_call(text):
    """'name(arg, arg, ...) = ret ...' -> (name, [args], ret_text).  Args are raw strings except
    C strings, which are returned as bytes objects."""
    p = text.index("(")
    name = text[:p]
    args, cur, i, n = [], "", p + 1, len(text)
    depth_angle = depth_brack = 0
    while i < n:
        c = text[i]
        if c == '"' and depth_angle == 0:
            b, i = _decode_cstring(text, i)
            args.append(b)
            cur = None
            continue
        if c == "<":
            depth_angle += 1
        elif c == ">" and depth_angle:
            depth_angle -= 1
        elif depth_angle == 0:
            if c in "[{":
                depth_brack += 1
            elif c in "]}":
                depth_brack -= 1
            elif c == "," and depth_brack == 0:
                if cur is not None:
                    args.append(cur.strip())
                cur = ""
                i += 1
                continue
            elif c == ")" and depth_brack == 0:
                if cur is not None and (cur.strip() or args):
                    args.append(cur.strip())
                rest = text[i + 1:].strip()
                ret = rest[1:].strip() if rest.startswith("=") else rest
                return name, args, ret
        if cur is None:
            cur = ""
        cur += c
        i += 1
    raise ValueError("unparsable call: " + text[:200])


_FD = re.compile(r"^(-?\d+|AT_FDCWD)<(.*)>$", re.S)


def _fd_path(arg):
    m = _FD.match(arg) if isinstance(arg, str) else None
    if not m:
        return None
    p = m.group(2)
    if p.endswith(" (deleted)"):
        p = p[:-len(" (deleted)")]
    return p


def parse_trace(trace_path):
    """-> list of events dict(pid, sys, args, ret (int or None when the call did not complete), rpath
    (path of the returned descriptor), nth, killed).  Lines of signals/exits are dropped."""
    events = []
    pending = {}
    counters = {}
    with open(trace_path, "r", encoding="utf-8", errors="surrogateescape") as fh:
        for raw in fh:
            raw = raw.rstrip("\n")
            m = _LINE.match(raw)
            if not m:
                continue
            pid, text = int(m.group(1)), m.group(2)
            if text.startswith("+++") or text.startswith("---"):
                continue
            if text.endswith("<unfinished ...>"):
                pending[pid] = text[:-len("<unfinished ...>")]
                continue
            r = _RESUMED.match(text)
            if r:
                text = pending.pop(pid, r.group(1) + "(") + r.group(2)
            try:
                name, args, ret = _split_call(text)
            except Exception as e:  # keep going: report as an unparsed event (checked by callers)
                events.append({"pid": pid, "sys": "?", "args": [], "ret": None, "raw": raw[:300], "error": repr(e)})
                continue
            key = (pid, name)
            counters[key] = counters.get(key, 0) + 1
            rv, rpath = None, None
            tok = ret.split(" ")[0] if ret else "?"
            if tok != "?":
                mm = _FD.match(tok)
                if mm:
                    rv, rpath = int(mm.group(1)), _fd_path(tok)
                else:
                    try:
                        rv = int(tok, 0)
                    except ValueError:
                        rv = None
            events.append({"pid": pid, "sys": name, "args": args, "ret": rv, "rpath": rpath,
                           "nth": counters[key]})
    return events


MARK_RE = re.compile(rb"^(BEGIN|END) (\S+)\n$")


def split_marks(events, marks_path):
    """Workload scripts write 'BEGIN name\\n' / 'END name\\n' to marks_path with os.write; returns
    {name: [events strictly between the two marks]} and the list of names in order."""
    segs, order, cur = {}, [], None
    for e in events:
        if e["sys"] == "write" and e["args"] and _fd_path(e["args"][0]) == marks_path and isinstance(e["args"][1], bytes):
            m = MARK_RE.match(e["args"][1])
            if m:
                kind, name = m.group(1), m.group(2).decode()
                if kind == b"BEGIN":
                    cur = name
                    segs[cur] = []
                    order.append(cur)
                else:
                    cur = None
                continue
        if cur is not None:
            segs[cur].append(e)
    return segs, order


def _rel(path, root):
    if path is None:
        return None
    path = os.path.normpath(path)
    root = os.path.normpath(root)
    if path == root:
        return "."
    if path.startswith(root + os.sep):
        return path[len(root) + 1:]
    return None


def _at_path(dirarg, name, cwd=None):
    if isinstance(name, bytes):
        name = name.decode("utf-8", "surrogateescape")
    if os.path.isabs(name):
        return name
    base = _fd_path(dirarg) if isinstance(dirarg, str) else None
    if base is None:
        base = cwd or "/"
    return os.path.join(base, name)


def file_ops(events, root, cwd=None):
    """Operations that change the directory tree below root, in order.  Calls that failed or did not
    complete (killed) are dropped; read-only opens and closes are dropped.  cwd: working directory of
    the traced process during these events (relative names of calls without a directory descriptor,
    e.g. unlink("nz_0.smp"), are resolved against it)."""
    ops = []

    def at(dirarg, name):
        return _at_path(dirarg, name, cwd)

    def add(e, **kw):
        kw["sys"] = e["sys"]
        kw["nth"] = e["nth"]
        ops.append(kw)

    for e in events:
        s, a, ret = e["sys"], e["args"], e["ret"]
        if s == "?":
            raise ValueError("unparsed strace line: %r" % (e,))
        if ret is None or ret < 0:
            continue
        if s in ("openat", "open", "creat"):
            if s == "openat":
                path, flags = at(a[0], a[1]), a[2]
            elif s == "open":
                path, flags = at(None, a[0]), a[1]
            else:
                path, flags = at(None, a[0]), "O_WRONLY|O_CREAT|O_TRUNC"
            rel = _rel(path, root)
            if rel is None:
                continue
            fl = set(flags.split("|"))
            if not ({"O_WRONLY", "O_RDWR", "O_CREAT", "O_TRUNC"} & fl):
                continue
            add(e, op="open", path=rel, creat="O_CREAT" in fl, trunc="O_TRUNC" in fl, append="O_APPEND" in fl)
        elif s == "write":
            rel = _rel(_fd_path(a[0]), root)
            if rel is None:
                continue
            data = a[1] if isinstance(a[1], bytes) else b""
            add(e, op="write", path=rel, data=data[:ret])
        elif s == "pwrite64":
            rel = _rel(_fd_path(a[0]), root)
            if rel is None:
                continue
            add(e, op="pwrite", path=rel, data=a[1][:ret], offset=int(a[3], 0))
        elif s in ("ftruncate", "truncate"):
            p = _fd_path(a[0]) if s == "ftruncate" else at(None, a[0])
            rel = _rel(p, root)
            if rel is None:
                continue
            add(e, op="truncate", path=rel, length=int(a[1], 0))
        elif s in ("mkdir", "mkdirat"):
            p = at(None, a[0]) if s == "mkdir" else at(a[0], a[1])
            rel = _rel(p, root)
            if rel is not None:
                add(e, op="mkdir", path=rel)
        elif s in ("unlink", "rmdir"):
            rel = _rel(at(None, a[0]), root)
            if rel is not None:
                add(e, op=s, path=rel)
        elif s == "unlinkat":
            rel = _rel(at(a[0], a[1]), root)
            if rel is not None:
                add(e, op="rmdir" if "AT_REMOVEDIR" in str(a[2]) else "unlink", path=rel)
        elif s in ("rename", "renameat", "renameat2"):
            if s == "rename":
                src, dst = at(None, a[0]), at(None, a[1])
            else:
                src, dst = at(a[0], a[1]), at(a[2], a[3])
            r1, r2 = _rel(src, root), _rel(dst, root)
            if r1 is not None or r2 is not None:
                add(e, op="rename", path=r1, to=r2)
    return ops


def name_attempts(events, root, cwd=None):
    """Which NAMES below root the traced code asked for, whether or not the call succeeded (a name that
    does not exist is still a name the code derived): -> (unlinked, opened_for_reading), two lists of
    relative paths in order of first attempt, without repetitions."""
    unl, rd = [], []

    def put(lst, path):
        rel = _rel(path, root)
        if rel is not None and rel not in lst:
            lst.append(rel)

    for e in events:
        s, a = e["sys"], e["args"]
        if s == "?":
            raise ValueError("unparsed strace line: %r" % (e,))
        if len(a) < {"unlink": 1, "unlinkat": 3, "openat": 3, "open": 2}.get(s, 0):
            continue                      # call cut short by a kill
        if s == "unlink":
            put(unl, _at_path(None, a[0], cwd))
        elif s == "unlinkat" and "AT_REMOVEDIR" not in str(a[2]):
            put(unl, _at_path(a[0], a[1], cwd))
        elif s in ("openat", "open"):
            path, flags = (_at_path(a[0], a[1], cwd), a[2]) if s == "openat" else (_at_path(None, a[0], cwd), a[1])
            fl = set(str(flags).split("|"))
            if not ({"O_WRONLY", "O_RDWR", "O_CREAT", "O_TRUNC", "O_DIRECTORY"} & fl):
                put(rd, path)
    return unl, rd
