"""Prefix materialiser (DESIGN §4.3): directory state = prior state + first k operations.

    st = DirState.load(prior_dir)            # {rel path: bytes} + set of directories
    for k, st_k in prefixes(st, ops): st_k.materialise(scratch)   # state a crash after op k leaves
    diff = st_full.diff_dir(real_final_dir)  # self-check: [] when byte-for-byte identical

Semantics of the operations (harness/crash/trace.py): `open` with O_CREAT creates an empty file when
absent, O_TRUNC empties it; `write` appends at the end of the file (all writers in the workloads are
sequential or O_APPEND; the self-check of the full replay validates this on every run); `pwrite`
writes at its offset (zero-filling a hole); mkdir/unlink/rmdir/rename/truncate as POSIX.
"""
import os
import shutil


class ReplayError(Exception):
    pass


class DirState:
    def __init__(self, files=None, dirs=None, exists=True):
        self.files = dict(files or {})      # rel -> bytes
        self.dirs = set(dirs or ())         # rel ('.' = the root itself)
        if exists:
            self.dirs.add(".")

    def copy(self):
        c = DirState(self.files, self.dirs, exists=False)
        return c

    @classmethod
    def load(cls, root):
        if not os.path.isdir(root):
            return cls(exists=False)
        st = cls()
        for d, dn, fn in os.walk(root):
            rd = os.path.relpath(d, root)
            for x in dn:
                st.dirs.add(os.path.normpath(os.path.join(rd, x)))
            for x in fn:
                with open(os.path.join(d, x), "rb") as fh:
                    st.files[os.path.normpath(os.path.join(rd, x))] = fh.read()
        return st

    # ---- one operation
    def _parent_ok(self, rel):
        par = os.path.dirname(rel) or "."
        if rel != "." and par not in self.dirs:
            raise ReplayError("parent directory missing for %s" % rel)

    def apply(self, op):
        k, p = op["op"], op["path"]
        if k == "open":
            if p not in self.files:
                if not op["creat"]:
                    raise ReplayError("open without O_CREAT of a missing file %s" % p)
                self._parent_ok(p)
                self.files[p] = b""
            elif op["trunc"]:
                self.files[p] = b""
        elif k == "write":
            if p not in self.files:
                raise ReplayError("write to unknown file %s" % p)
            self.files[p] = self.files[p] + op["data"]
        elif k == "pwrite":
            if p not in self.files:
                raise ReplayError("pwrite to unknown file %s" % p)
            cur, off, data = self.files[p], op["offset"], op["data"]
            if len(cur) < off:
                cur = cur + b"\0" * (off - len(cur))
            self.files[p] = cur[:off] + data + cur[off + len(data):]
        elif k == "truncate":
            cur, n = self.files[p], op["length"]
            self.files[p] = cur[:n] + b"\0" * max(0, n - len(cur))
        elif k == "mkdir":
            self._parent_ok(p)
            if p in self.dirs or p in self.files:
                raise ReplayError("mkdir of existing %s" % p)
            self.dirs.add(p)
        elif k == "unlink":
            if p not in self.files:
                raise ReplayError("unlink of missing %s" % p)
            del self.files[p]
        elif k == "rmdir":
            if p not in self.dirs:
                raise ReplayError("rmdir of missing %s" % p)
            pre = "" if p == "." else p + os.sep
            if any(q.startswith(pre) for q in self.files) or any(q != p and q != "." and q.startswith(pre) for q in self.dirs):
                raise ReplayError("rmdir of non-empty %s" % p)
            self.dirs.discard(p)
        elif k == "rename":
            src, dst = p, op["to"]
            if src is None or dst is None:
                raise ReplayError("rename across the traced root")
            if src in self.files:
                self.files[dst] = self.files.pop(src)
            elif src in self.dirs:
                pre = src + os.sep
                for q in [q for q in self.files if q.startswith(pre)]:
                    self.files[dst + os.sep + q[len(pre):]] = self.files.pop(q)
                for q in [q for q in self.dirs if q == src or q.startswith(pre)]:
                    self.dirs.discard(q)
                    self.dirs.add(dst + q[len(src):])
            else:
                raise ReplayError("rename of missing %s" % src)
        else:
            raise ReplayError("unknown op %r" % (k,))
        return self

    # ---- to / from disk
    def materialise(self, dest):
        """Write the state to dest (removed first).  A state whose root does not exist leaves dest absent."""
        shutil.rmtree(dest, ignore_errors=True)
        if "." not in self.dirs:
            return dest
        os.makedirs(dest)
        for d in sorted(self.dirs):
            if d != ".":
                os.makedirs(os.path.join(dest, d), exist_ok=True)
        for f, data in self.files.items():
            with open(os.path.join(dest, f), "wb") as fh:
                fh.write(data)
        return dest

    def diff(self, other):
        out = []
        for d in sorted(self.dirs ^ other.dirs):
            out.append("dir %s only in %s" % (d, "replay" if d in self.dirs else "real"))
        for f in sorted(set(self.files) | set(other.files)):
            a, b = self.files.get(f), other.files.get(f)
            if a is None or b is None:
                out.append("file %s only in %s" % (f, "replay" if b is None else "real"))
            elif a != b:
                out.append("file %s differs (replay %d bytes, real %d bytes)" % (f, len(a), len(b)))
        return out

    def diff_dir(self, root):
        return self.diff(DirState.load(root))


def prefixes(prior, ops):
    """Yields (k, state after the first k operations) for k = 0..len(ops); states are independent copies."""
    st = prior.copy()
    yield 0, st.copy()
    for k, op in enumerate(ops, 1):
        st.apply(op)
        yield k, st.copy()


def replay_all(prior, ops):
    st = prior.copy()
    for op in ops:
        st.apply(op)
    return st
