"""Run generated Coq files: correspondence shards (Eval vm_compute) and proof obligations."""
import os
import re
import subprocess
import time
from concurrent.futures import ThreadPoolExecutor

COQ_DIR = "/verif/coq"
COQC = ["coqc", "-R", COQ_DIR, "Verif"]


def ensure_build(log):
    """Full .vo build of the static development (no-op when up to date)."""
    import fcntl
    t0 = time.time()
    lock = open(os.path.join(COQ_DIR, ".build.lock"), "w")
    fcntl.flock(lock, fcntl.LOCK_EX)   # concurrent checks must not run two makes at once
    if not os.path.exists(os.path.join(COQ_DIR, "Makefile")):
        subprocess.run(["coq_makefile", "-f", "_CoqProject", "-o", "Makefile"],
                       cwd=COQ_DIR, check=True, stdout=subprocess.DEVNULL)
    p = subprocess.run(["timeout", "1800", "make", "-j16"], cwd=COQ_DIR,
                       stdout=subprocess.PIPE, stderr=subprocess.STDOUT, text=True)
    fcntl.flock(lock, fcntl.LOCK_UN)
    lock.close()
    log("make: rc=%d (%.1fs)" % (p.returncode, time.time() - t0))
    return p.returncode == 0, p.stdout[-4000:]


def coqc_file(path, timeout=600):
    """Compile one .v file (in its own directory); returns (rc, output)."""
    d, f = os.path.split(path)
    p = subprocess.run(["timeout", str(timeout)] + COQC + [f], cwd=d,
                       stdout=subprocess.PIPE, stderr=subprocess.STDOUT, text=True)
    return p.returncode, p.stdout


_INT = re.compile(r"\d+")


def parse_codes(out):
    """Parse the output of `Eval vm_compute in <list nat>`  ->  list of ints (robust to wrapping)."""
    m = re.search(r"=\s*(\[.*?\])\s*:\s*list nat", out, re.S)
    if not m:
        return None
    return [int(x) for x in _INT.findall(m.group(1))]


def run_shards(workdir, name, header, terms, shard=250, jobs=16, timeout=900):
    """terms: list of Coq terms of type nat (status codes, 0 = fine).
    Writes <workdir>/<name>_<k>.v, one `Eval vm_compute` per file, runs them in parallel.
    Returns (codes or None on failure, info)."""
    os.makedirs(workdir, exist_ok=True)
    files = []
    for k in range(0, len(terms), shard):
        part = terms[k:k + shard]
        path = os.path.join(workdir, "%s_%03d.v" % (name, k // shard))
        with open(path, "w") as f:
            f.write(header + "\n")
            f.write("Definition codes : list nat := [\n  ")
            f.write(";\n  ".join(part))
            f.write("\n].\nSet Printing Width 1000000.\nSet Printing Depth 1000000.\nEval vm_compute in codes.\n")
        files.append((path, len(part)))
    codes, info = [], {"shards": len(files), "failed_shards": []}
    with ThreadPoolExecutor(max_workers=jobs) as ex:
        results = list(ex.map(lambda pf: coqc_file(pf[0], timeout), files))
    for (path, n), (rc, out) in zip(files, results):
        got = parse_codes(out) if rc == 0 else None
        if got is None or len(got) != n:
            info["failed_shards"].append({"file": path, "rc": rc, "out": out[-3000:]})
            codes.extend([None] * n)
        else:
            codes.extend(got)
    return codes, info


def check_props(prop_id, workdir, allowed_axioms):
    """Re-compile Props/<id>.v into the work directory, collect theorem names and
    Print Assumptions output, compare axioms to the allow-list.
    Returns dict(ok, theorems, axioms, unexpected, output)."""
    src = os.path.join(COQ_DIR, "Props", prop_id + ".v")
    res = {"ok": False, "theorems": [], "axioms": [], "unexpected": [], "output": ""}
    if not os.path.exists(src):
        res["output"] = "missing " + src
        return res
    text = open(src).read()
    res["theorems"] = re.findall(r"^(?:Theorem|Corollary)\s+(\w+)", text, re.M)
    bad = re.findall(r"\b(Admitted|admit|Axiom|Parameter|Conjecture|Unset Guard|bypass_check)\b", text)
    os.makedirs(workdir, exist_ok=True)
    tmp = os.path.join(workdir, "Props_%s_chk.v" % prop_id)
    with open(tmp, "w") as f:
        f.write(text)
    rc, out = coqc_file(tmp, 900)
    res["output"] = out[-6000:]
    # axioms: inside every "Axioms:" block an entry starts at column 0 with the (qualified) name,
    # either "name : type" on one line or the name alone followed by indented ": type" lines
    axioms = set()
    in_block = False
    for line in out.splitlines():
        if line.startswith("Axioms:"):
            in_block = True
            continue
        if not in_block:
            continue
        if not line.strip() or line.startswith("Closed under") or re.match(r"^(File |Warning|\s*=)", line):
            in_block = False
            continue
        if line[0].isspace():
            continue
        m = re.match(r"^([A-Za-z_][\w\.']*)", line)
        if m:
            axioms.add(m.group(1))
    res["axioms"] = sorted(axioms)
    res["unexpected"] = sorted(a for a in axioms if a.split(".")[-1] not in allowed_axioms and a not in allowed_axioms)
    n_print = len(re.findall(r"Print Assumptions", text))
    n_closed = out.count("Closed under the global context") + out.count("Axioms:")
    res["ok"] = (rc == 0 and not bad and not res["unexpected"] and n_closed >= n_print and len(res["theorems"]) > 0)
    res["bad_tokens"] = bad
    return res
