"""Exact float -> Coq literal conversion.  Nothing is ever compared as decimal text."""
from fractions import Fraction
import math


def frac(x) -> Fraction:
    """Exact rational value of a python/numpy float or int (via float.hex semantics)."""
    if isinstance(x, Fraction):
        return x
    if isinstance(x, bool):
        return Fraction(int(x))
    if isinstance(x, int):
        return Fraction(x)
    try:
        import numpy as np
        if isinstance(x, np.integer):
            return Fraction(int(x))
    except Exception:  # pragma: no cover
        pass
    x = float(x)
    if not math.isfinite(x):
        raise ValueError("non-finite float has no rational value: %r" % x)
    return Fraction(*x.as_integer_ratio())


def q(x) -> str:
    """Coq Q literal, e.g. (3 # 8)."""
    f = frac(x)
    n, d = f.numerator, f.denominator
    if n < 0:
        return "((%d) # %d)" % (n, d)
    return "(%d # %d)" % (n, d)


def z(x) -> str:
    x = int(x)
    return "(%d)%%Z" % x if x < 0 else "%d%%Z" % x


def nat(x) -> str:
    x = int(x)
    assert 0 <= x < 5000, "nat literal too large: %d" % x
    return "%d%%nat" % x


def b(x) -> str:
    return "true" if x else "false"


def lst(items, f=None) -> str:
    items = list(items)
    if f is not None:
        items = [f(i) for i in items]
    return "[" + "; ".join(items) + "]"


def qlist(xs) -> str:
    return lst(xs, q)


def qmat(m) -> str:
    return lst(m, qlist)


def nlist(xs) -> str:
    return lst(xs, nat)


def zlist(xs) -> str:
    return lst(xs, z)


def opt(x, f) -> str:
    return "None" if x is None else "(Some %s)" % f(x)


def pair(a, b_) -> str:
    return "(%s, %s)" % (a, b_)
