"""Run a probe in a fresh interpreter started with -O (asserts compiled away, __debug__ False), or with another
interpreter option / environment, against the same source tree.  The probe script reads one JSON object from stdin
and must print one JSON object as its last line of stdout."""
import json
import os
import subprocess
import sys


def run(script, payload=None, flags=("-O",), env_extra=None, timeout=300):
    env = dict(os.environ)
    env.update(env_extra or {})
    proc = subprocess.run([sys.executable, *flags, "-c", script], input=json.dumps(payload or {}), capture_output=True,
                          text=True, timeout=timeout, env=env)
    lines = [ln for ln in proc.stdout.splitlines() if ln.strip()]
    try:
        return dict(rc=proc.returncode, result=json.loads(lines[-1]) if lines else None, stderr=proc.stderr[-2000:])
    except ValueError:
        return dict(rc=proc.returncode, result=None, stderr=(proc.stdout[-1000:] + proc.stderr[-2000:]))
