"""KNOWN_FINDINGS.jsonl: read-only at run time."""
import json
import os

PATH = "/verif/KNOWN_FINDINGS.jsonl"


def load():
    out = []
    if os.path.exists(PATH):
        for line in open(PATH):
            line = line.strip()
            if line and not line.startswith("#"):
                out.append(json.loads(line))
    return out


def known_signatures(prop_id):
    """signature -> entry, only for entries with status 'known' (fixed entries suppress nothing)."""
    return {e["signature"]: e for e in load()
            if e.get("property") == prop_id and e.get("status") == "known"}
