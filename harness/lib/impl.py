"""Helpers to drive the implementation in /repo/src (always the working tree)."""
import os
import shutil
import sys
import logging

import numpy as np

REPO_SRC = os.environ.get("VERIF_REPO_SRC", "/repo/src").rstrip("/")
assert any(p.rstrip("/") == REPO_SRC for p in sys.path), "sys.path must contain " + REPO_SRC
os.environ.setdefault("YAW_NUM_THREADS", "1")

import yaw  # noqa: E402

assert os.path.realpath(yaw.__file__).startswith(os.path.realpath(REPO_SRC) + "/"), yaw.__file__
logging.getLogger("yaw").setLevel(logging.CRITICAL)

from yaw import Catalog, Configuration  # noqa: E402,F401
from yaw.coordinates import AngularCoordinates, AngularDistances  # noqa: E402,F401


def set_threads(n):
    """yaw reads YAW_NUM_THREADS at call time (capped by cores per socket)."""
    os.environ["YAW_NUM_THREADS"] = str(int(n))


# parent folders the scratch caches are placed under: names that look like the library's own files and patch folders,
# so that anything derived from the spelling of a cache path (rather than from the patch folder's own name) shows
_PATH_SHAPES = ["", "npatch_8", "patch_3", "run.patch_12.d", "patch_ids.bin", "trees.pkl", "meta.yml", "patch_0", "binning",
                "run_{a}", "x{{y", "n{0}", "z{}"]      # legal folder names that are not legal format strings


def fresh_dir(ctx, name):
    import zlib
    shape = _PATH_SHAPES[zlib.crc32(name.encode()) % len(_PATH_SHAPES)]
    d = os.path.join(ctx.workdir, shape, name)
    shutil.rmtree(d, ignore_errors=True)
    os.makedirs(os.path.dirname(d), exist_ok=True)
    return d


def odd_index(df):
    """give a table an index that is NOT 0..n-1 (what filtering, slicing, sorting or concatenating a table leaves behind): the rows
    and their order stay as they are, only the labels change - positional readers must not notice.  Chosen from the table's size."""
    n = len(df)
    kind = n % 5
    if kind == 0 or n == 0:
        return df                                         # default RangeIndex
    if kind == 1:
        df.index = np.arange(n) * 3 + 7                    # the labels of a filtered table
    elif kind == 2:
        df.index = np.arange(n)[::-1].copy()               # the labels of a table sorted by another column
    elif kind == 3:
        df.index = np.arange(n) // 2                       # duplicated labels (concatenated tables)
    else:
        df.index = ["r%d" % ((7 * i) % n) for i in range(n)]   # string labels
    return df


def make_df(cols):
    import pandas as pd
    return odd_index(pd.DataFrame({k: np.asarray(v) for k, v in cols.items()}))


def patch_records(cat):
    """pid -> structured array as stored (fields ra, dec[, weights][, redshifts])."""
    return {int(pid): patch.load_data() for pid, patch in cat.items()}


def row_key(*vals):
    """bit pattern of a record (tuple of float64)"""
    return tuple(float(v).hex() for v in vals)
