"""Controllable stand-in for the parts of `multiprocessing` that yaw uses
(Pool.map / Pool.imap_unordered, Process, Manager().Queue()).  Everything runs in the
calling process; the *order* in which work is delivered is an explicit schedule.

Semantics copied from CPython's documentation:
  * Pool.map blocks until all items are done; items may be executed in any order.
  * Pool.imap_unordered yields results in completion order (any permutation).
  * an exception in a Process target does not propagate to the parent; join() returns and
    exitcode is 1.
  * Queue is FIFO.
  * the function, every task and every result of a Pool cross a process boundary: they are pickled (here with
    ForkingPickler, as multiprocessing does) and the worker / the parent only ever see the unpickled copies;
    a manager queue is a proxy: its copies all refer to the one queue.  Process targets and arguments are not
    pickled (fork start method).
"""
import pickle
import random
from multiprocessing.reduction import ForkingPickler

_MPS = {}       # id -> FakeMP, so that unpickled queue proxies find their queue again


def _transport(x):
    return pickle.loads(bytes(ForkingPickler.dumps(x)))


def _queue_proxy(mp_id, idx):
    return _MPS[mp_id].queues[idx]


class Schedule:
    """Source of all ordering decisions, derived from one PRNG state.
    mode: 'identity' | 'reverse' | 'random' | explicit list of permutations."""

    def __init__(self, mode="identity", seed=0, explicit=None):
        self.mode = mode
        self.rng = random.Random(seed)
        self.explicit = list(explicit) if explicit is not None else None
        self.log = []  # permutations actually used, in call order

    def perm(self, n):
        if self.explicit is not None and self.explicit:
            p = list(self.explicit.pop(0))
            assert sorted(p) == list(range(n)), (p, n)
        elif self.mode == "identity":
            p = list(range(n))
        elif self.mode == "reverse":
            p = list(range(n - 1, -1, -1))
        else:
            p = list(range(n))
            self.rng.shuffle(p)
        self.log.append(p)
        return p


class FakeQueue:
    def __init__(self, mp):
        self.items = []
        self.mp = mp

    def put(self, x):
        self.items.append(x)

    def get(self):
        if not self.items:
            raise RuntimeError("simulated deadlock: get() on an empty queue with no producer")
        return self.items.pop(0)

    def __reduce__(self):
        return (_queue_proxy, (id(self.mp), self.mp.queues.index(self)))


class FakeManager:
    def __init__(self, mp):
        self.mp = mp

    def __enter__(self):
        return self

    def __exit__(self, *a):
        return False

    def Queue(self):
        q = FakeQueue(self.mp)
        self.mp.queues.append(q)
        return q


class FakePool:
    def __init__(self, mp, n=None):
        self.mp = mp
        self.n = n
        mp.pool_sizes.append(n)

    def __enter__(self):
        return self

    def __exit__(self, *a):
        return False

    def map(self, func, items):
        items = list(items)
        order = self.mp.schedule.perm(len(items))
        base = self.mp.map_counter
        self.mp.map_counter += len(items)
        out = [None] * len(items)
        tr = self.mp.transport
        for i in order:
            self.mp.delivery.append(base + i)
            out[i] = tr(tr(func)(tr(items[i])))
        return out

    def imap_unordered(self, func, iterable):
        items = list(iterable)
        tr = self.mp.transport
        results = [tr(tr(func)(tr(x))) for x in items]
        order = self.mp.schedule.perm(len(items))
        self.mp.imap_orders.append(order)
        for i in order:
            yield results[i]


class FakeProcess:
    def __init__(self, mp, target=None, args=(), kwargs=None):
        self.mp = mp
        self.target = target
        self.args = args
        self.kwargs = kwargs or {}
        self.exitcode = None
        self.exception = None

    def start(self):
        pass

    def join(self, timeout=None):
        if self.exitcode is not None:
            return
        try:
            self.target(*self.args, **self.kwargs)
            self.exitcode = 0
        except BaseException as e:  # child dies, parent does not see the exception
            self.exception = e
            self.exitcode = 1
        self.mp.process_exits.append((self.exitcode, repr(self.exception)))


class FakeMP:
    """Object to assign to `<module>.multiprocessing`."""

    def __init__(self, schedule=None, pickling=True):
        self.schedule = schedule or Schedule()
        self.transport = _transport if pickling else (lambda x: x)
        _MPS[id(self)] = self
        self.queues = []
        self.pool_sizes = []
        self.map_counter = 0
        self.delivery = []      # global indices of Pool.map items in execution order
        self.imap_orders = []
        self.process_exits = []

    def Manager(self):
        return FakeManager(self)

    def Pool(self, n=None):
        return FakePool(self, n)

    def Process(self, target=None, args=(), kwargs=None):
        return FakeProcess(self, target, args, kwargs)

    def cpu_count(self):
        import multiprocessing
        return multiprocessing.cpu_count()


class patched:
    """Context manager: replace `multiprocessing` in yaw.catalog.catalog and yaw.utils.parallel."""

    def __init__(self, schedule=None, catalog=True, parallel=True):
        self.mp = FakeMP(schedule)
        self.catalog = catalog
        self.parallel = parallel
        self.saved = []

    def __enter__(self):
        import yaw.catalog.catalog as cc
        import yaw.utils.parallel as par
        if self.catalog:
            if not hasattr(cc, "multiprocessing"):
                raise RuntimeError("yaw.catalog.catalog no longer references `multiprocessing` by that name")
            self.saved.append((cc, cc.multiprocessing))
            cc.multiprocessing = self.mp
        if self.parallel:
            self.saved.append((par, par.multiprocessing))
            par.multiprocessing = self.mp
        return self.mp

    def __exit__(self, *a):
        for mod, orig in self.saved:
            mod.multiprocessing = orig
        return False
