"""Fake `mpi4py.MPI` — a simulated MPI world whose ranks are threads of one interpreter.

What is simulated (and nothing more):
* point-to-point `send/ssend/recv` with per-(communicator, sender, receiver) FIFO queues;
  a receive takes the OLDEST message of a sender that matches its tag (MPI non-overtaking
  rule); between different senders there is NO order: which sender a wildcard receive
  (`source=ANY_SOURCE`) matches is decided by the schedule;
* a standard `send` completes either eagerly (buffered: returns at once) or synchronously
  (rendezvous: returns when the message has been matched) — decided per send by the schedule;
  `ssend` is always synchronous;
* collectives `Barrier/bcast/Bcast/gather/Split` complete when every member of the
  communicator has entered the same collective (k-th collective call on that communicator,
  same kind, same root); a mismatch is reported as a deadlock;
* lower-case methods pickle their payload (copy semantics; classes are pickled by reference, so
  a sentinel class compared with `is` survives);
* a central scheduler (one lock + condition variable) owns every blocked operation.  Threads
  run freely between MPI calls.  A wildcard receive is matched only when the world is
  QUIESCENT (every rank blocked in an MPI call or finished): then every message that can
  still be sent independently of that receive has been sent, so the candidate set is maximal
  and a run is a deterministic function of (program, schedule) — thread timing has no
  influence on who receives what;
* quiescent and nothing enabled, or a collective mismatch  =>  outcome "deadlock" (all blocked
  ranks are released with `WorldAbort`); a wall-clock limit per world => outcome "timeout";
* every communication event is logged: [n, rank, op, peer, tag, comm id, payload summary].

Not simulated: non-blocking operations, non-synchronising collectives (a real bcast may let
the root leave early), message sizes / eager limits, several hosts (one host name unless the
schedule gives `hosts`), real transport.
"""
import hashlib
import pickle
import threading
import time
import traceback

ANY_SOURCE = -2
ANY_TAG = -1
PROC_NULL = -3
UNDEFINED = -32766

_tls = threading.local()


class WorldAbort(BaseException):
    """Raised inside rank threads when the world is torn down (deadlock / timeout)."""


# ---------------------------------------------------------------------------------------
# schedule
# ---------------------------------------------------------------------------------------
def _h(*parts):
    s = "/".join(str(p) for p in parts).encode()
    return int.from_bytes(hashlib.sha256(s).digest()[:8], "big")


class Schedule:
    """mode   : 'eager' | 'sync' | 'mixed' (per send, seeded)
    policy : how a wildcard receive picks among the candidate senders
             'random' (seeded) | 'low' (lowest rank) | 'high' | 'fifo' (oldest message first)
             | 'lifo' (youngest message first) | 'explicit' (list `choices` of indices into the
             sorted candidate list, consumed in decision order; 0 once exhausted)
    hosts  : optional list of processor names per rank."""

    def __init__(self, mode="eager", policy="random", seed=0, choices=None, hosts=None):
        assert mode in ("eager", "sync", "mixed"), mode
        assert policy in ("random", "low", "high", "fifo", "lifo", "explicit"), policy
        self.mode, self.policy, self.seed = mode, policy, int(seed)
        self.choices = list(choices or [])
        self.hosts = hosts

    def to_dict(self):
        return dict(mode=self.mode, policy=self.policy, seed=self.seed, choices=self.choices, hosts=self.hosts)

    @classmethod
    def from_dict(cls, d):
        d = dict(d or {})
        return cls(d.get("mode", "eager"), d.get("policy", "random"), d.get("seed", 0), d.get("choices"), d.get("hosts"))

    def send_sync(self, rank, k):
        if self.mode == "eager":
            return False
        if self.mode == "sync":
            return True
        return bool(_h("send", self.seed, rank, k) & 1)

    def pick(self, ndec, rank, k, cands):
        """cands: list of (sender, msg seq) sorted by sender; returns an index."""
        n = len(cands)
        if self.policy == "low":
            return 0
        if self.policy == "high":
            return n - 1
        if self.policy == "fifo":
            return min(range(n), key=lambda i: cands[i][1])
        if self.policy == "lifo":
            return max(range(n), key=lambda i: cands[i][1])
        if self.policy == "explicit":
            c = self.choices[ndec] if ndec < len(self.choices) else 0
            return c if 0 <= c < n else 0
        return _h("pick", self.seed, rank, k) % n


# ---------------------------------------------------------------------------------------
# helpers
# ---------------------------------------------------------------------------------------
def _summary(obj, depth=0):
    try:
        if isinstance(obj, type):
            return "class:" + obj.__name__
        if obj is None or isinstance(obj, (bool, int, float, str)):
            return ("%s:%r" % (type(obj).__name__, obj))[:80]
        if isinstance(obj, tuple) and depth < 2:
            return "tuple:(" + ", ".join(_summary(x, depth + 1) for x in obj[:4]) + (", ..." if len(obj) > 4 else "") + ")"
        if isinstance(obj, dict):
            items = []
            for k in list(obj)[:12]:
                v = obj[k]
                items.append("%r:%s" % (k, len(v) if hasattr(v, "__len__") else type(v).__name__))
            return "dict:{" + ", ".join(items) + ("}" if len(obj) <= 12 else ", ...}")
        if hasattr(obj, "shape") and hasattr(obj, "dtype"):
            return "ndarray:%s" % (tuple(obj.shape),)
        if isinstance(obj, (list, set, frozenset)):
            return "%s:len=%d" % (type(obj).__name__, len(obj))
        return type(obj).__name__
    except Exception:  # a summary must never break a run
        return type(obj).__name__


class _Msg:
    __slots__ = ("seq", "cid", "src", "dst", "tag", "data", "sync", "matched", "summary")

    def __init__(self, seq, cid, src, dst, tag, data, sync, summary):
        self.seq, self.cid, self.src, self.dst, self.tag = seq, cid, src, dst, tag
        self.data, self.sync, self.matched, self.summary = data, sync, False, summary


class _Op:
    __slots__ = ("kind", "rank", "cid", "source", "tag", "msg", "done", "result", "desc")

    def __init__(self, kind, rank, cid, desc, source=None, tag=None, msg=None):
        self.kind, self.rank, self.cid, self.desc = kind, rank, cid, desc
        self.source, self.tag, self.msg = source, tag, msg
        self.done, self.result = False, None


# ---------------------------------------------------------------------------------------
# the world
# ---------------------------------------------------------------------------------------
class World:
    def __init__(self):
        self.lock = threading.Condition()
        self.reset(1, Schedule())

    def reset(self, size, schedule=None):
        with self.lock:
            self.size = int(size)
            self.sched = schedule or Schedule()
            self.status = {}            # rank -> 'running' | 'blocked' | 'done'
            self.blocked = {}           # rank -> _Op
            self.queues = {}            # (cid, src, dst) -> [_Msg]  (world ranks)
            self.log = []
            self.abort = None
            self.nsend = {}
            self.nwild = {}
            self.ndec = 0
            self.decisions = []
            self.msg_seq = 0
            self.coll_seq = {}
            self.colls = {}
            self.next_cid = 1
            self.comms = {0: COMM_WORLD} if "COMM_WORLD" in globals() else {}
            if "COMM_WORLD" in globals():
                COMM_WORLD._members = list(range(self.size))

    # ---- bookkeeping (lock held) ----
    def _log(self, rank, op, peer=None, tag=None, cid=0, summary="", extra=None):
        e = [len(self.log), rank, op, peer, tag, cid, summary]
        if extra is not None:
            e.append(extra)
        self.log.append(e)

    def _check_abort(self):
        if self.abort is not None:
            raise WorldAbort(self.abort.get("kind"))

    def _oldest(self, cid, src, dst, tag):
        for m in self.queues.get((cid, src, dst), ()):
            if tag == ANY_TAG or m.tag == tag:
                return m
        return None

    def _complete_recv(self, op, m):
        """match message m with the (blocked) receive op"""
        self.queues[(m.cid, m.src, m.dst)].remove(m)
        m.matched = True
        op.result = m
        self._release(op)
        self._log(m.dst, "recv", m.src, m.tag, m.cid, m.summary, m.seq)
        self._release_sender(m)

    def _release_sender(self, m):
        sop = self.blocked.get(m.src)
        if sop is not None and sop.kind == "send" and sop.msg is m:
            self._release(sop)

    def _release(self, op):
        op.done = True
        if self.blocked.get(op.rank) is op:
            del self.blocked[op.rank]
        self.status[op.rank] = "running"
        self.lock.notify_all()

    def _block(self, rank, op):
        self.blocked[rank] = op
        self.status[rank] = "blocked"
        self._progress()
        while not op.done:
            if self.abort is not None:
                if self.blocked.get(rank) is op:
                    del self.blocked[rank]
                self.status[rank] = "running"
                raise WorldAbort(self.abort.get("kind"))
            self.lock.wait(0.25)

    def _progress(self):
        """called whenever a rank blocks or finishes: at quiescence take one scheduling decision"""
        if self.abort is not None:
            return
        if len(self.status) < self.size or any(s == "running" for s in self.status.values()):
            return
        for r in sorted(self.blocked):
            op = self.blocked[r]
            if op.kind != "recv" or op.source != ANY_SOURCE:
                continue
            members = self.comms[op.cid]._members
            cands = []
            for src in sorted(members):
                m = self._oldest(op.cid, src, r, op.tag)
                if m is not None:
                    cands.append((src, m))
            if not cands:
                continue
            k = self.nwild.get(r, 0)
            self.nwild[r] = k + 1
            idx = self.sched.pick(self.ndec, r, k, [(s, m.seq) for s, m in cands])
            self.decisions.append(dict(n=self.ndec, rank=r, ncand=len(cands), senders=[s for s, _ in cands],
                                       chosen=idx, queued=[[s, m.summary] for s, m in cands]))
            self.ndec += 1
            self._complete_recv(op, cands[idx][1])
            return
        if all(s == "done" for s in self.status.values()):
            return
        self.abort = dict(kind="deadlock", detail="all ranks blocked or finished and no operation is enabled",
                          blocked={str(r): op.desc for r, op in sorted(self.blocked.items())},
                          finished=sorted(r for r, s in self.status.items() if s == "done"))
        self.lock.notify_all()

    # ---- rank identity ----
    @staticmethod
    def my_rank():
        return getattr(_tls, "rank", 0)

    # ---- point to point ----
    def send(self, comm, obj, dest, tag, force_sync):
        rank = self.my_rank()
        dst = comm._members[dest]
        data = pickle.dumps(obj, protocol=pickle.HIGHEST_PROTOCOL)
        summ = _summary(obj)
        with self.lock:
            self._check_abort()
            k = self.nsend.get(rank, 0)
            self.nsend[rank] = k + 1
            sync = bool(force_sync or self.sched.send_sync(rank, k))
            self.msg_seq += 1
            m = _Msg(self.msg_seq, comm._cid, rank, dst, tag, data, sync, summ)
            self.queues.setdefault((comm._cid, rank, dst), []).append(m)
            self._log(rank, "ssend" if sync else "send", dst, tag, comm._cid, summ, m.seq)
            rop = self.blocked.get(dst)
            if (rop is not None and rop.kind == "recv" and rop.cid == comm._cid and rop.source == rank
                    and self._oldest(comm._cid, rank, dst, rop.tag) is m):
                self._complete_recv(rop, m)
            if sync and not m.matched:
                op = _Op("send", rank, comm._cid, "ssend(dest=%d, tag=%s, %s) on comm %d" % (dst, tag, summ, comm._cid), msg=m)
                self._block(rank, op)

    def recv(self, comm, source, tag):
        rank = self.my_rank()
        src = ANY_SOURCE if source == ANY_SOURCE else comm._members[source]
        with self.lock:
            self._check_abort()
            m = None
            if src != ANY_SOURCE:
                m = self._oldest(comm._cid, src, rank, tag)
            if m is not None:
                self.queues[(m.cid, m.src, m.dst)].remove(m)
                m.matched = True
                self._log(rank, "recv", m.src, m.tag, m.cid, m.summary, m.seq)
                self._release_sender(m)
            else:
                op = _Op("recv", rank, comm._cid,
                         "recv(source=%s, tag=%s) on comm %d" % ("ANY" if src == ANY_SOURCE else src, tag, comm._cid),
                         source=src, tag=tag)
                self._block(rank, op)
                m = op.result
        return pickle.loads(m.data)

    # ---- collectives ----
    def collective(self, comm, kind, root, payload):
        rank = self.my_rank()
        with self.lock:
            self._check_abort()
            if rank not in comm._members:
                raise RuntimeError("rank %d is not a member of communicator %d" % (rank, comm._cid))
            n = self.coll_seq.get((comm._cid, rank), 0)
            self.coll_seq[(comm._cid, rank)] = n + 1
            c = self.colls.setdefault((comm._cid, n), dict(kind=kind, root=root, entries={}, results={}, ops=[]))
            self._log(rank, "enter:" + kind, root, None, comm._cid, "#%d" % n)
            if c["kind"] != kind or c["root"] != root:
                self.abort = dict(kind="deadlock",
                                  detail="collective mismatch on comm %d call #%d: rank %d entered %s(root=%s), others %s(root=%s)"
                                         % (comm._cid, n, rank, kind, root, c["kind"], c["root"]),
                                  blocked={str(r): op.desc for r, op in sorted(self.blocked.items())}, finished=[])
                self.lock.notify_all()
                raise WorldAbort("deadlock")
            c["entries"][rank] = payload
            if len(c["entries"]) == len(comm._members):
                self._finish_coll(comm, c, n)
            else:
                op = _Op("coll", rank, comm._cid, "%s(root=%s) call #%d on comm %d" % (kind, root, n, comm._cid))
                c["ops"].append(op)
                self._block(rank, op)
            return c["results"].get(rank)

    def _finish_coll(self, comm, c, n):
        kind, root, entries = c["kind"], c["root"], c["entries"]
        members = comm._members
        res = c["results"]
        if kind == "bcast":
            rootw = members[root]
            for r in members:
                res[r] = ("obj", entries[rootw][1]) if r == rootw else ("pickle", entries[rootw][0])
        elif kind == "Bcast":
            rootw = members[root]
            src = entries[rootw]
            for r in members:
                if r != rootw:
                    buf = entries[r]
                    buf[...] = src      # numpy semantics; shapes must agree as in MPI
        elif kind == "gather":
            rootw = members[root]
            res[rootw] = [entries[r] for r in members]
        elif kind == "Split":
            groups = {}
            for r in members:
                color, key = entries[r]
                if color != UNDEFINED:
                    groups.setdefault(color, []).append((key, members.index(r), r))
            for color in sorted(groups):
                new = Intracomm(self.next_cid, [r for _, _, r in sorted(groups[color])])
                self.comms[new._cid] = new
                self.next_cid += 1
                for r in new._members:
                    res[r] = new
        self._log(None, "done:" + kind, root, None, comm._cid, "#%d" % n)
        for op in c["ops"]:
            self._release(op)

    # ---- running a world ----
    def run(self, size, schedule, fn, timeout=60.0):
        """Run fn(rank) on `size` rank threads.  Returns a dict with outcome
        'ok' | 'deadlock' | 'timeout', per-rank results, the event log, the decisions."""
        self.reset(size, schedule)
        results = {}

        def body(rank):
            _tls.rank = rank
            try:
                results[rank] = ("ok", fn(rank))
            except WorldAbort as e:
                results[rank] = ("aborted", str(e))
            except BaseException as e:  # noqa: BLE001 - reported, not swallowed
                results[rank] = ("exc", type(e).__name__, str(e)[:500], traceback.format_exc()[-2500:])
            finally:
                with self.lock:
                    self.status[rank] = "done"
                    self.blocked.pop(rank, None)
                    self._progress()

        threads = [threading.Thread(target=body, args=(r,), name="rank%d" % r, daemon=True) for r in range(size)]
        with self.lock:
            for r in range(size):
                self.status[r] = "running"
        t0 = time.time()
        for t in threads:
            t.start()
        for t in threads:
            t.join(max(0.0, t0 + timeout - time.time()))
        alive = [i for i, t in enumerate(threads) if t.is_alive()]
        if alive:
            with self.lock:
                if self.abort is None:
                    self.abort = dict(kind="timeout", detail="wall-clock limit %.0fs" % timeout,
                                      blocked={str(r): op.desc for r, op in sorted(self.blocked.items())},
                                      finished=sorted(r for r, s in self.status.items() if s == "done"),
                                      running=[r for r in alive if r not in self.blocked])
                self.lock.notify_all()
            for t in threads:
                t.join(3.0)
        with self.lock:
            leftover = [[m.src, m.dst, m.tag, m.cid, m.summary] for q in self.queues.values() for m in q]
            out = dict(outcome="ok" if self.abort is None else self.abort["kind"], abort=self.abort,
                       results={str(r): results.get(r, ("unfinished",)) for r in range(size)},
                       log=list(self.log), decisions=list(self.decisions), leftover=leftover,
                       stuck=[i for i, t in enumerate(threads) if t.is_alive()],
                       wall=round(time.time() - t0, 3))
        return out


# ---------------------------------------------------------------------------------------
# communicators
# ---------------------------------------------------------------------------------------
def _comm_by_id(cid):
    return _world.comms[cid]


class Comm:
    def __init__(self, cid, members):
        self._cid = cid
        self._members = list(members)    # world ranks, index = rank in this communicator
        self._freed = set()

    def __reduce__(self):      # a communicator is a handle: pickling keeps identity
        return (_comm_by_id, (self._cid,))

    def __repr__(self):
        return "<fake mpi4py Comm %d members=%s>" % (self._cid, self._members)

    def Get_rank(self):
        r = World.my_rank()
        try:
            return self._members.index(r)
        except ValueError:
            return UNDEFINED

    def Get_size(self):
        return len(self._members)

    rank = property(Get_rank)
    size = property(Get_size)

    def send(self, obj, dest, tag=0):
        _world.send(self, obj, dest, tag, False)

    def ssend(self, obj, dest, tag=0):
        _world.send(self, obj, dest, tag, True)

    def recv(self, buf=None, source=ANY_SOURCE, tag=ANY_TAG, status=None):
        return _world.recv(self, source, tag)

    def Barrier(self):
        _world.collective(self, "Barrier", None, None)

    barrier = Barrier

    def bcast(self, obj=None, root=0):
        mine = None
        if self.Get_rank() == root:
            mine = (pickle.dumps(obj, protocol=pickle.HIGHEST_PROTOCOL), obj)
        how, val = _world.collective(self, "bcast", root, mine)
        return val if how == "obj" else pickle.loads(val)

    def Bcast(self, buf, root=0):
        _world.collective(self, "Bcast", root, buf)

    def gather(self, sendobj, root=0):
        val = pickle.loads(pickle.dumps(sendobj, protocol=pickle.HIGHEST_PROTOCOL))
        return _world.collective(self, "gather", root, val)

    def Split(self, color=0, key=0):
        new = _world.collective(self, "Split", None, (color, key))
        return COMM_NULL if new is None else new

    def Free(self):
        with _world.lock:
            _world._log(World.my_rank(), "Free", None, None, self._cid, "")
            self._freed.add(World.my_rank())


class Intracomm(Comm):
    pass


class _NullComm:
    def __repr__(self):
        return "<fake mpi4py COMM_NULL>"

    def __bool__(self):
        return False

    def __getattr__(self, name):
        raise RuntimeError("operation %s on COMM_NULL" % name)


COMM_NULL = _NullComm()
COMM_WORLD = Intracomm(0, [0])
_world = World()


def Get_processor_name():
    hosts = _world.sched.hosts
    r = World.my_rank()
    return hosts[r] if hosts and r < len(hosts) else "node0"


def Is_initialized():
    return True


def Is_finalized():
    return False


def configure(size, schedule=None):
    """(harness) set the world size before `yaw` is imported / between runs"""
    _world.reset(size, schedule)


def run_world(size, schedule, fn, timeout=60.0):
    """(harness) run fn(rank) on every rank of a fresh world"""
    return _world.run(size, schedule, fn, timeout)
