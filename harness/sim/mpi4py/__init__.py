"""Fake `mpi4py` for the C06 check (see MPI.py).  Pure Python; ranks are threads of one
interpreter.  It must be first on sys.path *before* `yaw` is imported so that yaw's
import-time selection (`from mpi4py import MPI`, `if parallel.use_mpi():`) takes the MPI
branches of the unchanged source."""
from . import MPI  # noqa: F401

__version__ = "0.0-fake"
__all__ = ["MPI"]
