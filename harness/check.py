#!/venv/bin/python
"""Entry point:  check.py Cxx [--tier quick|thorough] [--replay file]

Exit 0: the property held on everything explored (known findings are printed as
KNOWN-FINDING lines).  Exit 1: a line `VIOLATION property=<id> replay=<path>`.
"""
import argparse
import hashlib
import importlib
import json
import os
import random
import shutil
import sys
import time
import traceback

sys.path.insert(0, os.path.dirname(os.path.abspath(__file__)))
os.environ.setdefault("PYTHONHASHSEED", "0")
os.environ["PYTHONDONTWRITEBYTECODE"] = "1"
sys.dont_write_bytecode = True
# the implementation under test is /repo's working tree; VERIF_REPO_SRC (testing of seeded
# changes in scratch worktrees only) redirects to another source tree and moves all outputs
# (work directory, evidence, replays) below /verif/_work/alt-<tag>/ so that nothing registered
# in MANIFEST.json is touched
REPO_SRC = os.environ.get("VERIF_REPO_SRC", "/repo/src")
ALT = None
if REPO_SRC != "/repo/src":
    import hashlib as _h
    ALT = "alt-" + _h.sha1(REPO_SRC.encode()).hexdigest()[:8]
sys.path.insert(0, REPO_SRC)
os.environ["VERIF_REPO_SRC"] = REPO_SRC

from lib import coqrun, findings  # noqa: E402

VERIF = "/verif"

STD_AXIOMS_REALS = [
    "sig_forall_dec", "sig_not_dec", "functional_extensionality_dep", "classic",
]


class Ctx:
    def __init__(self, prop_id, tier, seed):
        self.prop_id = prop_id
        self.tier = tier
        self.seed = seed
        self.rng = random.Random(seed * 1000003 + int(prop_id[1:]))
        self.outdir = VERIF if ALT is None else os.path.join(VERIF, "_work", ALT)
        # one scratch directory per run (two runs of one property, e.g. quick and thorough, may overlap in time)
        base = os.path.join(VERIF, "_work") if ALT is None else os.path.join(VERIF, "_work", ALT, "work")
        self.workbase = base
        self.workdir = os.path.join(base, "%s.%d" % (prop_id, os.getpid()))
        self.t0 = time.time()
        self.failures = []      # dict(signature, what, replay, case)
        self.disagreements = []  # dict(name, case, detail)
        self.broken = []        # dict(name, detail)
        self.obligations = []   # (name, ok)
        self.evaluations = 0
        self.nontrivial = set()
        self.samples = []
        self.hist = {}
        self.extra = {}
        self.assumptions = []
        self.trusted = []
        self.rule = ""
        self.known = findings.known_signatures(prop_id)
        self.logf = None

    # ---- logging ----
    def log(self, msg):
        line = "[%s %6.1fs] %s" % (self.prop_id, time.time() - self.t0, msg)
        print(line, flush=True)

    def quick(self):
        return self.tier == "quick"

    def n(self, quick, thorough):
        return quick if self.tier == "quick" else thorough

    # ---- bookkeeping ----
    def count(self, key=None, nontrivial=True, kind=None):
        """One evaluated case.  key: canonical hashable description (distinctness);
        nontrivial: whether it exercises the branch named in the rule."""
        self.evaluations += 1
        if key is not None and nontrivial:
            self.nontrivial.add(hashlib.sha1(repr(key).encode()).hexdigest())
        if kind is not None:
            self.hist[kind] = self.hist.get(kind, 0) + 1

    def bump(self, kind, k=1):
        self.hist[kind] = self.hist.get(kind, 0) + k

    def sample(self, obj, limit=4):
        if len(self.samples) < limit:
            self.samples.append(obj)

    def obligation(self, name, ok, detail=""):
        self.obligations.append((name, bool(ok)))
        if not ok:
            self.broken.append({"name": name, "detail": detail[-3000:] if isinstance(detail, str) else detail})

    def fail(self, signature, what, replay, case=None):
        """The property statement itself is false on a concrete input of the implementation."""
        self.failures.append({"signature": signature, "what": what, "replay": replay, "case": case})

    def disagree(self, name, case, detail=None):
        """Model and implementation differ on a case (correspondence broken)."""
        self.disagreements.append({"name": name, "case": case, "detail": detail})

    # ---- coq helpers ----
    def shards(self, name, header, terms, **kw):
        codes, info = coqrun.run_shards(self.workdir, name, header, terms, **kw)
        nsh = info["shards"]
        bad = info["failed_shards"]
        for i in range(nsh):
            pass
        self.obligation("correspondence:%s (%d shards, %d cases)" % (name, nsh, len(terms)),
                        not bad, json.dumps(bad)[:3000] if bad else "")
        return codes

    # ---- finish ----
    def finish(self):
        prop = self.prop_id
        exit_code = 0
        seen_known = {}
        violations = []
        explained_cases = set()
        for f in self.failures:
            if f["case"] is not None:
                explained_cases.add(repr(f["case"]))
            if f["signature"] in self.known:
                seen_known.setdefault(f["signature"], f)
            else:
                violations.append(f)
        # disagreements not explained by a failing input -> broken correspondence
        unexplained = [d for d in self.disagreements if repr(d["case"]) not in explained_cases]
        os.makedirs(os.path.join(self.outdir, "replays"), exist_ok=True)
        printed = set()
        for sig, f in seen_known.items():
            print("KNOWN-FINDING: property=%s %s [%s]" % (prop, self.known[sig].get("what", f["what"]), sig))
        for f in violations:
            if f["signature"] in printed:
                continue
            printed.add(f["signature"])
            body = {"property": prop, "signature": f["signature"], "what": f["what"],
                    "replay": f["replay"], "seed": self.seed, "tier": self.tier,
                    "rerun": "cd /verif && VERIF_SEED=%d ./check %s --tier %s" % (self.seed, prop, self.tier)}
            h = hashlib.sha1(json.dumps(body, sort_keys=True, default=str).encode()).hexdigest()[:10]
            path = os.path.join(self.outdir, "replays", "%s-%s.json" % (prop, h))
            with open(path, "w") as fh:
                json.dump(body, fh, indent=1, default=str)
            print("VIOLATION property=%s replay=%s" % (prop, path))
            exit_code = 1
        nofail = []
        if unexplained:
            nofail.append({"correspondence": sorted({d["name"] for d in unexplained}),
                           "cases": unexplained[:5]})
        if self.broken:
            nofail.append({"obligations": self.broken[:5]})
        if nofail and not violations:
            body = {"property": prop, "no_longer_checks": nofail, "seed": self.seed, "tier": self.tier,
                    "note": "a proof obligation or the model/implementation correspondence is broken; "
                            "the search found no input on which the property statement itself fails"}
            h = hashlib.sha1(json.dumps(body, sort_keys=True, default=str).encode()).hexdigest()[:10]
            path = os.path.join(self.outdir, "replays", "%s-%s.json" % (prop, h))
            with open(path, "w") as fh:
                json.dump(body, fh, indent=1, default=str)
            print("VIOLATION property=%s replay=%s no-failing-input-found" % (prop, path))
            exit_code = 1
        elif nofail:
            exit_code = 1
        # evidence
        n_obl = len(self.obligations)
        n_ok = sum(1 for _, ok in self.obligations if ok)
        cov = {
            "obligations": n_obl,
            "discharged": n_ok,
            "obligation_names": [n for n, _ in self.obligations],
            "checker_cmd": "cd /verif/coq && make (coqc 8.16.1, full .vo build) ; coqc on Props/%s.v (Print Assumptions) ; "
                           "coqc on generated correspondence shards under /verif/_work/%s" % (prop, prop),
            "trusted_base": self.trusted,
            "evaluations": self.evaluations,
            "distinct_nontrivial": len(self.nontrivial),
            "rule": self.rule,
            "samples": self.samples if self.samples else ["(no cases generated)"],
            "input_distribution": self.hist,
            "known_findings_seen": sorted(seen_known),
            "disagreements": len(self.disagreements),
        }
        cov.update(self.extra)
        ev = {
            "property_id": prop, "tier": self.tier, "seed": self.seed, "level": "proof",
            "coverage": cov, "assumptions": self.assumptions,
            "wall_s": round(time.time() - self.t0, 2),
            "violations": len(violations) + (1 if (nofail and not violations) else 0),
        }
        os.makedirs(os.path.join(self.outdir, "evidence"), exist_ok=True)
        with open(os.path.join(self.outdir, "evidence", prop + ".json"), "w") as fh:
            json.dump(ev, fh, indent=1, default=str)
        self.log("done: evaluations=%d distinct_nontrivial=%d obligations=%d/%d exit=%d"
                 % (self.evaluations, len(self.nontrivial), n_ok, n_obl, exit_code))
        return exit_code


def main():
    ap = argparse.ArgumentParser()
    ap.add_argument("prop")
    ap.add_argument("--tier", default=os.environ.get("VERIF_TIER", "quick"))
    ap.add_argument("--replay", default=None)
    args = ap.parse_args()
    tier = args.tier if args.tier in ("quick", "thorough") else "quick"
    try:
        seed = int(os.environ.get("VERIF_SEED", "0"))
    except ValueError:
        seed = 0
    prop = args.prop.upper()
    ctx = Ctx(prop, tier, seed)
    shutil.rmtree(ctx.workdir, ignore_errors=True)
    os.makedirs(ctx.workdir, exist_ok=True)
    # scratch directories left behind by runs of this property whose process is gone
    try:
        for name in os.listdir(ctx.workbase):
            head, _, pid = name.partition(".")
            if head == prop and pid.isdigit() and int(pid) != os.getpid() and not os.path.exists("/proc/%s" % pid) \
                    and not os.environ.get("VERIF_KEEP"):
                shutil.rmtree(os.path.join(ctx.workbase, name), ignore_errors=True)
    except OSError:
        pass
    # temporary files of this run (multiprocessing manager sockets, tempfile users in the library and in
    # subprocesses) live below the work directory and go away with it, also when a child was killed
    tmpd = os.path.join(ctx.workdir, "tmp")
    os.makedirs(tmpd, exist_ok=True)
    os.environ["TMPDIR"] = tmpd
    import tempfile
    tempfile.tempdir = tmpd
    try:
        mod = importlib.import_module("props." + prop.lower())
        ok, out = coqrun.ensure_build(ctx.log)
        ctx.obligation("build:coq/ (make, full .vo)", ok, out)
        allowed = getattr(mod, "ALLOWED_AXIOMS", [])
        res = coqrun.check_props(prop, ctx.workdir, allowed)
        for th in res["theorems"]:
            ctx.obligation("theorem:%s" % th, res["ok"], res["output"] if not res["ok"] else "")
        if not res["theorems"]:
            ctx.obligation("theorems:Props/%s.v" % prop, False, res["output"])
        ctx.extra["axioms_reported"] = res["axioms"]
        ctx.trusted = [
            "Coq 8.16.1 kernel + vm_compute (no native_compute)",
            "axioms under Props/%s.v as printed by Print Assumptions: %s" % (prop, ", ".join(res["axioms"]) or "none (closed under the global context)"),
            "correspondence harness /verif/harness (python): case generators, float->rational conversion (float.as_integer_ratio), encoders, result parser",
        ] + list(getattr(mod, "TRUSTED", []))
        ctx.assumptions = list(getattr(mod, "ASSUMPTIONS", []))
        ctx.rule = getattr(mod, "RULE", "")
        if args.replay and hasattr(mod, "replay"):
            mod.replay(ctx, json.load(open(args.replay)))
        elif args.replay:
            # no targeted replay for this property: the replay file records seed and tier, the full check
            # with that seed reproduces the case deterministically
            body = json.load(open(args.replay))
            ctx.log("no targeted replay entry point; re-running the full check with seed %s / tier %s" % (body.get("seed"), body.get("tier")))
            if isinstance(body.get("seed"), int):
                ctx.seed = body["seed"]
                import random as _random
                ctx.rng = _random.Random(ctx.seed * 1000003 + int(prop[1:]))
            if body.get("tier") in ("quick", "thorough"):
                ctx.tier = body["tier"]
            mod.run(ctx)
        else:
            mod.run(ctx)
    except Exception:
        tb = traceback.format_exc()
        ctx.log("harness error:\n" + tb)
        ctx.obligation("harness:run", False, tb)
    rc = ctx.finish()
    if rc == 0 or not os.environ.get('VERIF_KEEP'):
        shutil.rmtree(ctx.workdir, ignore_errors=True)
    sys.exit(rc)


if __name__ == "__main__":
    main()
