(* Proofs about the container algebra of CorrFunc (Model/CorrAlgebra.v), C04. *)
From Verif Require Import Prelude Jackknife JackknifeP Estimators EstimatorsP CorrAlgebra.
Open Scope Q_scope.

(* ================================================================== roles are preserved *)
Theorem tmap_roles {A B} (f : A -> B) (t : terms A) : roles (tmap f t) = roles t.
Proof. destruct t as [[?|] [?|] [?|] [?|]]; reflexivity. Qed.

Lemma ozip_some {A B C} (f : A -> B -> option C) a b c :
  ozip f a b = Some c -> is_some c = is_some a /\ is_some c = is_some b.
Proof.
  destruct a as [x|], b as [y|]; simpl; try discriminate.
  - destruct (f x y); [|discriminate]. intros H. inversion H. split; reflexivity.
  - intros H. inversion H. split; reflexivity.
Qed.

(* a binary operation that succeeds returns the roles of both operands *)
Theorem tzip_roles {A B C} (f : A -> B -> option C) t u v :
  tzip f t u = Some v -> roles v = roles t /\ roles v = roles u.
Proof.
  unfold tzip.
  destruct (ozip f (t_dd t) (t_dd u)) as [a|] eqn:Ea; [|discriminate].
  destruct (ozip f (t_dr t) (t_dr u)) as [b|] eqn:Eb; [|discriminate].
  destruct (ozip f (t_rd t) (t_rd u)) as [c|] eqn:Ec; [|discriminate].
  destruct (ozip f (t_rr t) (t_rr u)) as [d|] eqn:Ed; [|discriminate].
  intros H. inversion H. subst v. unfold roles. simpl.
  destruct (ozip_some _ _ _ _ Ea) as [A1 A2]. destruct (ozip_some _ _ _ _ Eb) as [B1 B2].
  destruct (ozip_some _ _ _ _ Ec) as [C1 C2]. destruct (ozip_some _ _ _ _ Ed) as [D1 D2].
  rewrite A1, B1, C1, D1. split; [reflexivity|].
  rewrite <- A1, <- B1, <- C1, <- D1, A2, B2, C2, D2. reflexivity.
Qed.

(* ... and refuses operands that hold different roles ("operands do not contain the same kinds of
   pair counts"): a missing term is never silently filled or dropped *)
Theorem tzip_mismatch {A B C} (f : A -> B -> option C) t u : roles t <> roles u -> tzip f t u = None.
Proof.
  intros H. destruct (tzip f t u) as [v|] eqn:E; [|reflexivity].
  exfalso. apply H. destruct (tzip_roles _ _ _ _ E) as [E1 E2]. rewrite <- E1, E2. reflexivity.
Qed.

(* every expression: the result holds exactly the roles every leaf holds (dd stays dd, rr stays rr,
   missing stays missing), whatever was added, scaled, selected, copied or written and read back *)
Theorem eval_roles e : forall t, eval e = Some t -> Forall (fun l => roles l = roles t) (leaves e).
Proof.
  unfold eval. induction e as [t0|a IHa b IHb|c a IHa|J a IHa|P a IHa|h a IHa]; intros t H; simpl in *.
  - inversion H. subst. constructor; [reflexivity|constructor].
  - destruct (eval_with (fun t => t) a) as [ta|]; [|discriminate].
    destruct (eval_with (fun t => t) b) as [tb|]; [|discriminate].
    destruct (tzip pc_add ta tb) as [v|] eqn:E; [|discriminate]. simpl in H. inversion H. subst v.
    destruct (tzip_roles _ _ _ _ E) as [E1 E2].
    apply Forall_app. split.
    + rewrite E1. apply IHa. reflexivity.
    + rewrite E2. apply IHb. reflexivity.
  - destruct (eval_with (fun t => t) a) as [ta|]; [|discriminate]. simpl in H. inversion H.
    rewrite tmap_roles. apply IHa. reflexivity.
  - destruct (eval_with (fun t => t) a) as [ta|]; [|discriminate]. simpl in H. inversion H.
    rewrite tmap_roles. apply IHa. reflexivity.
  - destruct (eval_with (fun t => t) a) as [ta|]; [|discriminate]. simpl in H. inversion H.
    rewrite tmap_roles. apply IHa. reflexivity.
  - apply IHa. exact H.
Qed.

Lemma leaves_nonempty e : leaves e <> [].
Proof.
  induction e; simpl; try assumption; try discriminate.
  intros H. apply app_eq_nil in H. destruct H as [H _]. apply IHe1. exact H.
Qed.

(* ================================================================== the estimator reads by role *)
(* the estimator of a sum is the estimator applied to the role-wise sums *)
Theorem estimate_of_sum t u v : tadd t u = Some v ->
  t_estimate v = match oadd (t_dd t) (t_dd u) with
                 | Some d => Some (estimate d (oadd (t_dr t) (t_dr u)) (oadd (t_rd t) (t_rd u))
                                            (oadd (t_rr t) (t_rr u)))
                 | None => None
                 end.
Proof.
  destruct t as [[a|] [b|] [c|] [d|]], u as [[a'|] [b'|] [c'|] [d'|]]; unfold tadd, tzip; simpl;
    intros H; try discriminate; inversion H; reflexivity.
Qed.

(* with rr present on both sides the sum is estimated by Landy-Szalay of the pooled terms ... *)
Theorem estimate_of_sum_ls dd dd' d d' rd rd' r r' v :
  tadd (mk_terms (Some dd) (Some d) rd (Some r)) (mk_terms (Some dd') (Some d') rd' (Some r')) = Some v ->
  oeq (t_estimate v)
      (Some (((dd + dd') - (d + d') - opt_or (oadd rd rd') (d + d') + (r + r')) / (r + r'))).
Proof.
  intros H. rewrite (estimate_of_sum _ _ _ H). simpl. apply estimate_ls_any_rr.
Qed.

(* ... and without rr on both sides by Davis-Peebles *)
Theorem estimate_of_sum_dp dd dd' dr dr' rd rd' v :
  tadd (mk_terms (Some dd) dr rd None) (mk_terms (Some dd') dr' rd' None) = Some v ->
  t_estimate v = Some (dp (dd + dd') (opt_or (oadd rd rd') (opt_or (oadd dr dr') 0))).
Proof. intros H. rewrite (estimate_of_sum _ _ _ H). reflexivity. Qed.

Lemma estimate_comp dd dd' dr dr' rd rd' rr rr' :
  dd == dd' -> oeq dr dr' -> oeq rd rd' -> oeq rr rr' ->
  estimate dd dr rd rr == estimate dd' dr' rd' rr'.
Proof.
  intros Hdd Hdr Hrd Hrr. unfold estimate.
  assert (Ed : opt_or dr 0 == opt_or dr' 0) by (apply opt_or_comp; [exact Hdr|reflexivity]).
  assert (Ex : opt_or rd (opt_or dr 0) == opt_or rd' (opt_or dr' 0)) by (apply opt_or_comp; assumption).
  destruct rr as [r|], rr' as [r'|]; simpl in Hrr; try contradiction; cbv zeta.
  - unfold ls. rewrite Ex, Ed, Hdd, Hrr. reflexivity.
  - unfold dp. rewrite Ex, Hdd. reflexivity.
Qed.

(* a common factor of all terms changes nothing: cf * c is estimated like cf *)
Theorem estimate_of_scaled c t : ~ c == 0 -> den_nonzero (t_dr t) (t_rd t) (t_rr t) ->
  oeq (t_estimate (tscale c t)) (t_estimate t).
Proof.
  intros Hc H. destruct t as [[d|] dr rd rr]; simpl in *; [|exact I].
  apply (estimate_scale c d dr rd rr Hc H).
Qed.

(* ================================================================== containers: terms are linear *)
Lemma qsum_map2_plus (r r' : list Q) : length r = length r' -> qsum (map2 Qplus r r') == qsum r + qsum r'.
Proof.
  revert r'. induction r as [|x r IH]; intros [|y r'] H; simpl in *; try discriminate; [ring|].
  rewrite IH by (injection H; auto). ring.
Qed.

Lemma total_madd (M M' : mat) : mshape M = mshape M' -> total (madd M M') == total M + total M'.
Proof.
  unfold total, madd, mshape. revert M'.
  induction M as [|r M IH]; intros [|r' M'] H; simpl in *; try discriminate; [ring|].
  injection H as Hr HM. rewrite (IH _ HM), (qsum_map2_plus _ _ Hr). ring.
Qed.

Lemma nth_map2_madd (C C' : list mat) b : nth b (map2 madd C C') [] = madd (nth b C []) (nth b C' []).
Proof.
  revert C' b. induction C as [|M C IH]; intros [|M' C'] [|b]; simpl; try reflexivity.
  - destruct M; reflexivity.
  - destruct (nth b C []); reflexivity.
  - apply IH.
Qed.

Lemma list_eqb_true_eq {A} (eqb : A -> A -> bool) :
  (forall a b, eqb a b = true -> a = b) -> forall l1 l2, list_eqb eqb l1 l2 = true -> l1 = l2.
Proof.
  intros Heq. induction l1 as [|a l1 IH]; intros [|b l2] H; simpl in *; try discriminate; [reflexivity|].
  apply andb_true_iff in H. destruct H as [H1 H2]. f_equal; [apply Heq; exact H1 | apply IH; exact H2].
Qed.

Lemma shapes_eqb_nth C C' b : shapes_eqb C C' = true -> mshape (nth b C []) = mshape (nth b C' []).
Proof.
  unfold shapes_eqb. intros H.
  assert (E : map mshape C = map mshape C').
  { apply (list_eqb_true_eq nlist_eqb); [|exact H]. intros a c Hac. apply nlist_eqb_eq. exact Hac. }
  change (mshape (nth b C [])) with (mshape (nth b C (@nil (list Q)))).
  rewrite <- (map_nth mshape C [] b), <- (map_nth mshape C' [] b), E. reflexivity.
Qed.

(* the term of a sum: the pair counts of both operands pooled, over the product of total weights *)
Theorem pc_term_add p q r b : pc_add p q = Some r ->
  pc_term r b == (total (nth b (pc_counts p) []) + total (nth b (pc_counts q) []))
                 / norm_denominator (pc_auto p) (nth b (pc_w1 p) []) (nth b (pc_w2 p) []).
Proof.
  unfold pc_add. destruct (_ && _) eqn:E; [|discriminate]. intros H. inversion H. subst r. clear H.
  apply andb_true_iff in E. destruct E as [_ Es].
  unfold pc_term, nc_stat. simpl. rewrite nth_map2_madd, total_madd by (apply shapes_eqb_nth; exact Es).
  reflexivity.
Qed.

Corollary pc_term_add_terms p q r b : pc_add p q = Some r -> pc_w1 q = pc_w1 p -> pc_w2 q = pc_w2 p ->
  pc_term r b == pc_term p b + pc_term q b.
Proof.
  intros H H1 H2. rewrite (pc_term_add _ _ _ _ H). unfold pc_term, nc_stat. rewrite H1, H2.
  assert (Ea : pc_auto q = pc_auto p).
  { unfold pc_add in H. destruct (_ && _) eqn:E; [|discriminate].
    apply andb_true_iff in E. destruct E as [E _]. apply andb_true_iff in E. destruct E as [E _].
    apply andb_true_iff in E. destruct E as [E _]. symmetry. apply eqb_prop. exact E. }
  rewrite Ea. unfold Qdiv. ring.
Qed.

Lemma nth_map_mscale c (C : list mat) b : nth b (map (mscale c) C) [] = mscale c (nth b C []).
Proof. change (@nil (list Q)) with (mscale c []) at 1. apply map_nth. Qed.

Theorem pc_term_scale c p b : pc_term (pc_scale c p) b == c * pc_term p b.
Proof.
  unfold pc_term, nc_stat. simpl. rewrite nth_map_mscale, total_mscale. unfold Qdiv. ring.
Qed.

(* bin j of a selection is the selected bin of the original *)
Theorem pc_term_bins J p j : (j < length J)%nat -> pc_term (pc_sel_bins J p) j = pc_term p (nth j J 0%nat).
Proof.
  intros H. unfold pc_term, pc_sel_bins, bsel. simpl.
  rewrite !(nth_map_lt _ J 0%nat) by exact H. reflexivity.
Qed.

(* ================================================================== containers: the estimator commutes *)
Lemma oeq_scaled_terms c b (o : option pc) :
  oeq (option_map (fun p => pc_term p b) (option_map (pc_scale c) o))
      (oscaleq c (option_map (fun p => pc_term p b) o)).
Proof. destruct o as [p|]; simpl; [apply pc_term_scale|exact I]. Qed.

(* sample() of cf * c = sample() of cf, bin by bin, for every combination of roles held *)
Theorem scaled_cf_same_estimate c (t : terms pc) b : ~ c == 0 ->
  den_nonzero (t_dr (cf_terms t b)) (t_rd (cf_terms t b)) (t_rr (cf_terms t b)) ->
  oeq (t_estimate (cf_terms (tmap (pc_scale c) t) b)) (t_estimate (cf_terms t b)).
Proof.
  intros Hc H. destruct t as [[d|] dr rd rr]; simpl in *; [|exact I].
  rewrite <- (estimate_scale c (pc_term d b) _ _ _ Hc H).
  apply estimate_comp; [apply pc_term_scale | apply oeq_scaled_terms ..].
Qed.

(* the pooled term of two containers with the same sums of weights *)
Definition pooled (p q : pc) (b : nat) : Q :=
  (total (nth b (pc_counts p) []) + total (nth b (pc_counts q) []))
  / norm_denominator (pc_auto p) (nth b (pc_w1 p) []) (nth b (pc_w2 p) []).
Definition opool (a a' : option pc) (b : nat) : option Q :=
  match a, a' with Some p, Some q => Some (pooled p q b) | _, _ => None end.

Lemma ozip_pc_add_term a a' c b : ozip pc_add a a' = Some c ->
  oeq (option_map (fun p => pc_term p b) c) (opool a a' b).
Proof.
  destruct a as [p|], a' as [q|]; simpl; try discriminate.
  - destruct (pc_add p q) as [r|] eqn:E; [|discriminate]. intros H. inversion H. simpl.
    apply (pc_term_add _ _ _ _ E).
  - intros H. inversion H. exact I.
Qed.

(* sample() of cf1 + cf2: the estimator applied to the role-wise pooled counts *)
Theorem sum_cf_estimate t u v b : tzip pc_add t u = Some v ->
  oeq (t_estimate (cf_terms v b))
      (match opool (t_dd t) (t_dd u) b with
       | Some d => Some (estimate d (opool (t_dr t) (t_dr u) b) (opool (t_rd t) (t_rd u) b)
                                  (opool (t_rr t) (t_rr u) b))
       | None => None
       end).
Proof.
  unfold tzip.
  destruct (ozip pc_add (t_dd t) (t_dd u)) as [a|] eqn:Ea; [|discriminate].
  destruct (ozip pc_add (t_dr t) (t_dr u)) as [x|] eqn:Eb; [|discriminate].
  destruct (ozip pc_add (t_rd t) (t_rd u)) as [y|] eqn:Ec; [|discriminate].
  destruct (ozip pc_add (t_rr t) (t_rr u)) as [z|] eqn:Ed; [|discriminate].
  intros H. inversion H. subst v. clear H.
  pose proof (ozip_pc_add_term _ _ _ b Ea) as Ha. pose proof (ozip_pc_add_term _ _ _ b Eb) as Hb.
  pose proof (ozip_pc_add_term _ _ _ b Ec) as Hc. pose proof (ozip_pc_add_term _ _ _ b Ed) as Hd.
  unfold t_estimate, cf_terms. simpl.
  destruct a as [r|], (opool (t_dd t) (t_dd u) b) as [d|]; simpl in *; try contradiction; [|exact I].
  apply estimate_comp; assumption.
Qed.

(* ================================================================== positional re-binding *)
(* it changes nothing exactly when no missing role comes before a present one ... *)
Theorem rebind_id_iff_prefix {A} (t : terms A) : rebind t = t <-> prefix_closed (roles t) = true.
Proof.
  destruct t as [[a|] [b|] [c|] [d|]]; cbv; split; intros H; try reflexivity; try discriminate.
Qed.

Theorem rebind_compacts {A} (t : terms A) : prefix_closed (roles (rebind t)) = true.
Proof. destruct t as [[a|] [b|] [c|] [d|]]; reflexivity. Qed.

Lemma eval_prefix e t : eval e = Some t ->
  Forall (fun l => prefix_closed (roles l) = true) (leaves e) -> prefix_closed (roles t) = true.
Proof.
  intros He Hp. pose proof (eval_roles e t He) as Hr. pose proof (leaves_nonempty e) as Hn.
  destruct (leaves e) as [|l ls]; [contradiction Hn; reflexivity|].
  inversion Hp. inversion Hr. subst. congruence.
Qed.

(* ... so on expressions over correlation functions that hold dd+dr, dd+dr+rd or all four it cannot
   be told from the documented algebra *)
Theorem eval_pos_agrees_prefix e :
  Forall (fun l => prefix_closed (roles l) = true) (leaves e) -> eval_pos e = eval e.
Proof.
  unfold eval_pos. induction e as [t0|a IHa b IHb|c a IHa|J a IHa|P a IHa|h a IHa]; intros H; simpl in *.
  - reflexivity.
  - apply Forall_app in H. destruct H as [Ha Hb].
    unfold eval in *. simpl. rewrite (IHa Ha), (IHb Hb).
    destruct (eval_with (fun t => t) a) as [ta|] eqn:Ea; [|reflexivity].
    destruct (eval_with (fun t => t) b) as [tb|] eqn:Eb; [|reflexivity].
    destruct (tzip pc_add ta tb) as [v|] eqn:E; [|reflexivity]. simpl. f_equal.
    apply rebind_id_iff_prefix. destruct (tzip_roles _ _ _ _ E) as [E1 _]. rewrite E1.
    apply (eval_prefix a); assumption.
  - unfold eval in *. simpl. rewrite (IHa H).
    destruct (eval_with (fun t => t) a) as [ta|] eqn:Ea; [|reflexivity]. simpl. f_equal.
    apply rebind_id_iff_prefix. rewrite tmap_roles. apply (eval_prefix a); assumption.
  - unfold eval in *. simpl. rewrite (IHa H). reflexivity.
  - unfold eval in *. simpl. rewrite (IHa H). reflexivity.
  - unfold eval in *. simpl. apply IHa. exact H.
Qed.

(* ... and it is not the documented estimator for dd+dr+rr (every autocorrelation with RR), dd+rr,
   dd+rd+rr: rr lands in an earlier slot, the result holds no rr and is estimated by Davis-Peebles *)
Theorem rebind_refuted : exists t : terms Q,
  roles t = [true; true; false; true] /\ roles (rebind t) = [true; true; true; false]
  /\ oeq (t_estimate t) (Some (3 # 2))                (* (6 - 2 - 2 + 4) / 4 *)
  /\ oeq (t_estimate (rebind t)) (Some (1 # 2)).      (* 6 / 4 - 1 *)
Proof.
  exists (mk_terms (Some 6) (Some 2) None (Some 4)). repeat split; reflexivity.
Qed.

Definition exa_pc (c : Q) : pc :=
  {| pc_auto := false; pc_counts := [[[c; 1]; [1; c]]]; pc_w1 := [[1; 1]]; pc_w2 := [[1; 1]] |}.
Definition exa_cf : terms pc := mk_terms (Some (exa_pc 11)) (Some (exa_pc 3)) None (Some (exa_pc 7)).
Definition terms_values (t : option (terms pc)) : list Q :=
  match t with Some x => res_values (terms_data x) | None => [] end.

Theorem eval_pos_refuted : exists e,
  (* (cf + cf) * 1/2: pooled terms dd = 24/4, dr = 8/4, rr = 16/4 *)
  option_map roles (eval e) = Some [true; true; false; true]
  /\ terms_values (eval e) = [3 # 2]
  /\ option_map roles (eval_pos e) = Some [true; true; true; false]
  /\ terms_values (eval_pos e) = [1 # 2].
Proof.
  exists (X_scale (1 # 2) (X_add (X_leaf exa_cf) (X_leaf exa_cf))). vm_compute. repeat split; reflexivity.
Qed.
