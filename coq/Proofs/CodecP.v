(* Proofs about the persistence codecs of Model/Codec.v (property C11). *)
From Verif Require Import Prelude Codec.
Open Scope Q_scope.

(* ---------- list helpers ---------- *)
Lemma nth_map_seq {A} (f : nat -> A) n i d : (i < n)%nat -> nth i (map f (seq 0 n)) d = f i.
Proof.
  intros H. rewrite (nth_indep _ d (f 0%nat)) by (rewrite map_length, seq_length; exact H).
  rewrite map_nth, seq_nth by exact H. reflexivity.
Qed.

Lemma map_nth_seq {A} (l : list A) d : map (fun i => nth i l d) (seq 0 (length l)) = l.
Proof.
  induction l as [|x l IH]; simpl; [reflexivity|]. f_equal.
  rewrite <- seq_shift, map_map. exact IH.
Qed.

Lemma filter_none {A} (p : A -> bool) l : (forall x, In x l -> p x = false) -> filter p l = [].
Proof.
  induction l as [|x l IH]; intros H; simpl; [reflexivity|].
  rewrite (H x (or_introl eq_refl)). apply IH. intros y Hy. apply H. right. exact Hy.
Qed.

Lemma nn_eqb_eq a b : nn_eqb a b = true <-> a = b.
Proof.
  destruct a as [a1 a2], b as [b1 b2]. unfold nn_eqb; simpl.
  rewrite andb_true_iff, !Nat.eqb_eq. split; [intros [-> ->]; reflexivity|intros H; inversion H; auto].
Qed.

(* =====================================================================================
   (a) sparse pair counts
   ===================================================================================== *)
Section SparseP.
  Context {A : Type} (zero : A) (iszero : A -> bool) (eqv : A -> A -> Prop).
  Context (eqv_refl : forall a, eqv a a) (iszero_ok : forall a, iszero a = true -> eqv zero a).

  (* the reader on a list whose rows are a function R of their key: later entries overwrite
     earlier ones with the same value, so duplicates or order do not matter *)
  Lemma dec_functional (R : nat * nat -> list A) l g b i j :
    (forall e, In e l -> snd e = R (fst e)) ->
    fold_left (set_pair zero) l g b i j =
      if existsb (nn_eqb (i, j)) (map fst l) then nth b (R (i, j)) zero else g b i j.
  Proof.
    revert g. induction l as [|e l IH]; intros g H; simpl; [reflexivity|].
    rewrite IH by (intros e' He'; apply H; right; exact He').
    destruct (existsb (nn_eqb (i, j)) (map fst l)) eqn:Ex.
    - rewrite orb_true_r. reflexivity.
    - rewrite orb_false_r. unfold set_pair at 1. unfold nn_eqb at 1; simpl.
      destruct ((i =? fst (fst e))%nat && (j =? snd (fst e))%nat) eqn:K; [|reflexivity].
      apply andb_true_iff in K. destruct K as [K1 K2].
      apply Nat.eqb_eq in K1. apply Nat.eqb_eq in K2.
      rewrite (H e (or_introl eq_refl)). destruct e as [[a c] r]; simpl in *. subst. reflexivity.
  Qed.

  Lemma enc_keys B N f :
    map fst (sparse_enc iszero B N f) = filter (fun ij => any_nonzero iszero (bin_row B f ij)) (pairs N).
  Proof. unfold sparse_enc. rewrite map_map. simpl. apply map_id. Qed.

  Lemma enc_functional B N f e : In e (sparse_enc iszero B N f) -> snd e = bin_row B f (fst e).
  Proof. unfold sparse_enc. intros H. apply in_map_iff in H. destruct H as [ij [<- _]]. reflexivity. Qed.

  Lemma bin_row_nth B f i j b : (b < B)%nat -> nth b (bin_row B f (i, j)) zero = f b i j.
  Proof. intros H. unfold bin_row. rewrite nth_map_seq by exact H. reflexivity. Qed.

  Lemma existsb_key_in ij l : existsb (nn_eqb ij) l = true <-> In ij l.
  Proof.
    rewrite existsb_exists. split.
    - intros [x [Hx E]]. apply nn_eqb_eq in E. subst. exact Hx.
    - intros H. exists ij. split; [exact H|]. apply nn_eqb_eq. reflexivity.
  Qed.

  (* to_hdf followed by from_hdf returns the counts, entry by entry, for EVERY array — also
     all-zero ones and arrays in which some bins of a stored pair are zero *)
  Theorem sparse_roundtrip_gen B N (f : arr3) b i j :
    (b < B)%nat -> (i < N)%nat -> (j < N)%nat ->
    eqv (sparse_dec zero (sparse_enc iszero B N f) b i j) (f b i j).
  Proof.
    intros Hb Hi Hj. unfold sparse_dec.
    rewrite (dec_functional (bin_row B f)) by (intros e He; apply (enc_functional _ _ _ _ He)).
    rewrite enc_keys.
    destruct (existsb (nn_eqb (i, j)) (filter (fun ij => any_nonzero iszero (bin_row B f ij)) (pairs N))) eqn:Ex.
    - rewrite bin_row_nth by exact Hb. apply eqv_refl.
    - (* pair not stored: all its bins are zero *)
      apply iszero_ok.
      destruct (iszero (f b i j)) eqn:Z; [reflexivity|]. exfalso.
      assert (In (i, j) (filter (fun ij => any_nonzero iszero (bin_row B f ij)) (pairs N))) as Hin.
      { apply filter_In. split.
        - unfold pairs. apply in_prod_iff. split; apply in_seq; lia.
        - unfold any_nonzero. apply existsb_exists. exists (f b i j). split.
          + unfold bin_row. apply in_map_iff. exists b. split; [reflexivity|apply in_seq; lia].
          + rewrite Z. reflexivity. }
      apply existsb_key_in in Hin. congruence.
  Qed.

  (* the writer stores exactly the pairs with a non-zero bin, each once, in row-major order *)
  Theorem sparse_enc_keys_spec B N f ij :
    In ij (map fst (sparse_enc iszero B N f)) <->
    (fst ij < N)%nat /\ (snd ij < N)%nat /\ exists b, (b < B)%nat /\ iszero (f b (fst ij) (snd ij)) = false.
  Proof.
    rewrite enc_keys, filter_In. destruct ij as [i j]; simpl. unfold pairs. rewrite in_prod_iff, !in_seq.
    unfold any_nonzero. rewrite existsb_exists. split.
    - intros [[Hi Hj] [x [Hx Hz]]]. unfold bin_row in Hx. apply in_map_iff in Hx.
      destruct Hx as [b [<- Hb]]. apply in_seq in Hb. simpl in Hz.
      repeat split; try lia. exists b. split; [lia|]. destruct (iszero (f b i j)); [discriminate|reflexivity].
    - intros [Hi [Hj [b [Hb Hz]]]]. split; [lia|]. exists (f b i j). split.
      + unfold bin_row. apply in_map_iff. exists b. split; [reflexivity|apply in_seq; lia].
      + simpl. rewrite Hz. reflexivity.
  Qed.

  Theorem sparse_enc_all_zero B N f :
    (forall b i j, iszero (f b i j) = true) -> sparse_enc iszero B N f = [].
  Proof.
    intros H. unfold sparse_enc. rewrite filter_none; [reflexivity|].
    intros ij _. unfold any_nonzero. destruct (existsb _ _) eqn:E; [|reflexivity].
    apply existsb_exists in E. destruct E as [x [Hx Hz]]. unfold bin_row in Hx.
    apply in_map_iff in Hx. destruct Hx as [b [<- _]]. rewrite H in Hz. discriminate.
  Qed.
End SparseP.

Lemma qzero_ok a : qzero a = true -> 0 == a.
Proof. unfold qzero, Qeqb. intros H. apply Qeq_bool_iff in H. symmetry. exact H. Qed.

Theorem sparse_counts_roundtrip B N (f : nat -> nat -> nat -> Q) b i j :
  (b < B)%nat -> (i < N)%nat -> (j < N)%nat ->
  sparse_dec 0 (sparse_enc qzero B N f) b i j == f b i j.
Proof. apply (sparse_roundtrip_gen 0 qzero Qeq); [intros; reflexivity|exact qzero_ok]. Qed.

Theorem sparse_counts_all_zero B N (f : nat -> nat -> nat -> Q) :
  (forall b i j, f b i j == 0) ->
  sparse_enc qzero B N f = [] /\ forall b i j, sparse_dec 0 (sparse_enc qzero B N f) b i j = 0.
Proof.
  intros H. assert (E : sparse_enc qzero B N f = []).
  { apply sparse_enc_all_zero. intros b i j. unfold qzero, Qeqb. apply Qeq_bool_iff. apply H. }
  split; [exact E|]. intros. rewrite E. reflexivity.
Qed.

(* =====================================================================================
   (b) CorrFunc members
   ===================================================================================== *)
Theorem corrfunc_members_roundtrip_all {A} (m : members A) :
  members_dec (members_enc m) = if members_valid m then Some m else None.
Proof. destruct m as [dd [dr|] [rd|] [rr|]]; reflexivity. Qed.

(* every object that can exist (the constructor refuses dr = rd = rr = None) reads back as itself *)
Theorem corrfunc_members_roundtrip {A} (m : members A) :
  members_valid m = true -> members_dec (members_enc m) = Some m.
Proof. intros H. rewrite corrfunc_members_roundtrip_all, H. reflexivity. Qed.

(* the writer as it stands pairs the names with the PRESENT members by position: a member
   that follows an absent one lands in the wrong group.  dd + dr + rr (Landy-Szalay without rd)
   comes back as dd + dr + rd. *)
Theorem corrfunc_members_current_refuted :
  exists m : members nat,
    members_valid m = true /\
    members_dec (members_enc_current m) = Some {| m_dd := m_dd m; m_dr := m_dr m; m_rd := m_rr m; m_rr := None |} /\
    members_dec (members_enc_current m) <> Some m.
Proof.
  exists {| m_dd := 0%nat; m_dr := Some 1%nat; m_rd := None; m_rr := Some 3%nat |}.
  split; [reflexivity|]. split; [reflexivity|]. vm_compute. discriminate.
Qed.

(* it is right exactly for the member sets that are a prefix of (dr, rd, rr): 100, 110, 111 *)
Theorem corrfunc_members_current_iff {A} (m : members A) :
  members_valid m = true ->
  (members_dec (members_enc_current m) = Some m <->
   (is_some (m_rd m) = true -> is_some (m_dr m) = true) /\ (is_some (m_rr m) = true -> is_some (m_rd m) = true)).
Proof.
  destruct m as [dd [dr|] [rd|] [rr|]]; vm_compute; intros V; split;
    try discriminate; try reflexivity;
    try (intros _; split; intros H; try reflexivity; try discriminate H);
    try (intros [H1 H2]; try (specialize (H1 eq_refl); discriminate H1); try (specialize (H2 eq_refl); discriminate H2)).
Qed.

(* =====================================================================================
   (c) fixed-width format
   ===================================================================================== *)
Open Scope Z_scope.

Lemma ndig_fuel_pos fuel n : 1 <= ndig_fuel fuel n.
Proof.
  revert n. induction fuel as [|f IH]; intros n; cbn [ndig_fuel]; [lia|].
  destruct (n <? 10); [lia|]. specialize (IH (n / 10)). lia.
Qed.

Lemma ndig_fuel_spec fuel n :
  0 <= n < 2 ^ Z.of_nat fuel ->
  (n = 0 -> ndig_fuel fuel n = 1) /\ (0 < n -> 10 ^ (ndig_fuel fuel n - 1) <= n < 10 ^ ndig_fuel fuel n).
Proof.
  revert n. induction fuel as [|f IH]; intros n Hn.
  - simpl in *. split; [reflexivity|lia].
  - cbn [ndig_fuel]. destruct (Z.ltb_spec n 10) as [Hlt|Hge].
    + split; [reflexivity|]. intros. simpl. lia.
    + split; [lia|]. intros _.
      assert (Hq : 0 <= n / 10 < 2 ^ Z.of_nat f).
      { split; [apply Z.div_pos; lia|].
        rewrite Nat2Z.inj_succ, Z.pow_succ_r in Hn by lia.
        apply Z.div_lt_upper_bound; lia. }
      destruct (IH _ Hq) as [_ IH2].
      assert (Hpos : 0 < n / 10) by (apply Z.div_str_pos; lia).
      specialize (IH2 Hpos). pose proof (ndig_fuel_pos f (n / 10)) as Hd.
      set (d := ndig_fuel f (n / 10)) in *.
      replace (1 + d - 1) with (Z.succ (d - 1)) by lia.
      replace (1 + d) with (Z.succ d) by lia.
      rewrite !Z.pow_succ_r by lia.
      pose proof (Z.div_mod n 10 ltac:(lia)) as Hdm.
      pose proof (Z.mod_pos_bound n 10 ltac:(lia)) as Hm. lia.
Qed.

(* int_digits is the length of the decimal numeral *)
Theorem int_digits_spec n :
  0 <= n ->
  1 <= int_digits n /\ (n = 0 -> int_digits n = 1) /\
  (0 < n -> 10 ^ (int_digits n - 1) <= n < 10 ^ int_digits n).
Proof.
  intros Hn. unfold int_digits. split; [apply ndig_fuel_pos|].
  apply ndig_fuel_spec. split; [exact Hn|].
  destruct (Z.eq_dec n 0) as [->|Hne]; [simpl; lia|].
  rewrite Nat2Z.inj_succ, Z2Nat.id by apply Z.log2_nonneg.
  apply Z.log2_spec. lia.
Qed.

Lemma fw_k_eq w ip : fw_k w ip = Z.max 0 (w - fw_ndigits ip - 1).
Proof. unfold fw_k, fw_len. lia. Qed.

Lemma fw_k_bounds w ip : 0 <= w -> 0 <= fw_k w ip <= w.
Proof.
  intros Hw. rewrite fw_k_eq. unfold fw_ndigits, int_digits.
  pose proof (ndig_fuel_pos (S (Z.to_nat (Z.log2 ip))) ip). lia.
Qed.

(* cutting a w-digit fraction to its first k digits: rounds towards zero by less than 10^-k *)
Lemma frac_trunc w k frac :
  0 <= k <= w -> 0 <= frac ->
  let q := frac / 10 ^ (w - k) in
  (0 <= q) /\
  ((q # Z.to_pos (10 ^ k)) <= (frac # Z.to_pos (10 ^ w)))%Q /\
  ((frac # Z.to_pos (10 ^ w)) - (q # Z.to_pos (10 ^ k)) < 1 # Z.to_pos (10 ^ k))%Q.
Proof.
  intros Hk Hf q.
  assert (Ha : 0 < 10 ^ k) by (apply Z.pow_pos_nonneg; lia).
  assert (Hc : 0 < 10 ^ (w - k)) by (apply Z.pow_pos_nonneg; lia).
  assert (Hw : 10 ^ w = 10 ^ k * 10 ^ (w - k)).
  { rewrite <- Z.pow_add_r by lia. f_equal. lia. }
  pose proof (Z.div_mod frac (10 ^ (w - k)) ltac:(lia)) as Hdm.
  pose proof (Z.mod_pos_bound frac (10 ^ (w - k)) Hc) as Hm.
  fold q in Hdm.
  assert (Hq : 0 <= q) by (apply Z.div_pos; lia).
  split; [exact Hq|].
  set (a := 10 ^ k) in *. set (c := 10 ^ (w - k)) in *. set (r := frac mod c) in *.
  rewrite Hw.
  split.
  - unfold Qle; simpl. rewrite !Z2Pos.id by nia. nia.
  - unfold Qlt, Qminus, Qplus, Qopp; simpl. rewrite Pos2Z.inj_mul, !Z2Pos.id by nia. nia.
Qed.

Close Scope Z_scope.

Lemma dec_value_abs neg ip num digits :
  (0 <= ip)%Z -> (0 <= num)%Z ->
  Qabs (dec_value neg ip num digits) == inject_Z ip + (num # Z.to_pos (10 ^ digits)).
Proof.
  intros Hi Hn. unfold dec_value.
  assert (0 <= inject_Z ip + (num # Z.to_pos (10 ^ digits))) as Hpos.
  { rewrite <- (Qplus_0_l 0). apply Qplus_le_compat.
    - unfold Qle; simpl. lia.
    - unfold Qle; simpl. lia. }
  destruct neg.
  - rewrite Qabs_opp. apply Qabs_pos. exact Hpos.
  - apply Qabs_pos. exact Hpos.
Qed.

(* The value parsed from the cut string: same sign, never larger in magnitude than the exactly
   rounded w-digit decimal D, and closer to it than 10^-k, k = max(0, w - ndigits - 1),
   ndigits = 1 (sign) + number of integer digits. Holds for all w >= 0 and all decimals. *)
Theorem fixed_width_error w neg ip frac :
  (0 <= w)%Z -> (0 <= ip)%Z -> (0 <= frac < 10 ^ w)%Z ->
  let k := fw_k w ip in
  let P := dec_value neg ip (frac / 10 ^ (w - k)) k in
  let D := dec_value neg ip frac w in
  fw_parse w (DFin neg ip frac) = XF P /\ dec_exact w (DFin neg ip frac) = XF D /\
  k = Z.max 0 (w - fw_ndigits ip - 1) /\ (0 <= k <= w)%Z /\
  Qabs P <= Qabs D /\ Qabs (D - P) < 1 # Z.to_pos (10 ^ k).
Proof.
  intros Hw Hi Hf k P D.
  pose proof (fw_k_bounds w ip Hw) as Hk. fold k in Hk.
  destruct (frac_trunc w k frac Hk (proj1 Hf)) as [Hq [Hle Hlt]].
  split; [reflexivity|]. split; [reflexivity|]. split; [apply fw_k_eq|]. split; [exact Hk|].
  split.
  - unfold P, D. rewrite !dec_value_abs by lia. apply Qplus_le_compat; [apply Qle_refl|exact Hle].
  - assert (E : Qabs (D - P) == (frac # Z.to_pos (10 ^ w)) - (frac / 10 ^ (w - k) # Z.to_pos (10 ^ k))).
    { unfold P, D, dec_value. destruct neg.
      - setoid_replace (- (inject_Z ip + (frac # Z.to_pos (10 ^ w))) - - (inject_Z ip + (frac / 10 ^ (w - k) # Z.to_pos (10 ^ k))))
          with (- ((frac # Z.to_pos (10 ^ w)) - (frac / 10 ^ (w - k) # Z.to_pos (10 ^ k)))) by ring.
        rewrite Qabs_opp. apply Qabs_pos.
        apply (Qplus_le_l _ _ (frac / 10 ^ (w - k) # Z.to_pos (10 ^ k))). ring_simplify. exact Hle.
      - setoid_replace ((inject_Z ip + (frac # Z.to_pos (10 ^ w))) - (inject_Z ip + (frac / 10 ^ (w - k) # Z.to_pos (10 ^ k))))
          with ((frac # Z.to_pos (10 ^ w)) - (frac / 10 ^ (w - k) # Z.to_pos (10 ^ k))) by ring.
        apply Qabs_pos.
        apply (Qplus_le_l _ _ (frac / 10 ^ (w - k) # Z.to_pos (10 ^ k))). ring_simplify. exact Hle. }
    rewrite E. exact Hlt.
Qed.

(* with the rounding of the value x to w decimals (done by the float formatting, |x - D| <= 1/2 10^-w):
   the value read back differs from the value written by less than 10^-k + 1/2 10^-w *)
Theorem fixed_width_error_total w neg ip frac (x : Q) :
  (0 <= w)%Z -> (0 <= ip)%Z -> (0 <= frac < 10 ^ w)%Z ->
  let k := fw_k w ip in
  let P := dec_value neg ip (frac / 10 ^ (w - k)) k in
  let D := dec_value neg ip frac w in
  Qabs (x - D) <= 1 # (2 * Z.to_pos (10 ^ w)) ->
  Qabs (P - x) < (1 # Z.to_pos (10 ^ k)) + (1 # (2 * Z.to_pos (10 ^ w))).
Proof.
  intros Hw Hi Hf k P D Hx.
  destruct (fixed_width_error w neg ip frac Hw Hi Hf) as (_ & _ & _ & _ & _ & Hlt).
  fold k in Hlt. fold P in Hlt. fold D in Hlt.
  setoid_replace (P - x) with (- ((D - P) + (x - D))) by ring.
  rewrite Qabs_opp.
  eapply Qle_lt_trans; [apply Qabs_triangle|].
  apply Qplus_lt_le_compat; assumption.
Qed.

(* nan / inf are written as words and read back as the same special value *)
Theorem fixed_width_nonfinite w :
  fw_parse w DNaN = XNaN /\ fw_parse w DPInf = XPInf /\ fw_parse w DNInf = XNInf.
Proof. repeat split. Qed.

(* =====================================================================================
   (d) text tables
   ===================================================================================== *)
Section TableP.
  Context {V : Type} (dflt : V).

  Lemma transpose_map_seq (L : nat -> list V) nr nc :
    transpose dflt (A2 nr nc (map L (seq 0 nr))) =
    A2 nc nr (map (fun j => map (fun i => nth j (L i) dflt) (seq 0 nr)) (seq 0 nc)).
  Proof.
    simpl. f_equal. apply map_ext. intros j. apply map_ext_in. intros i Hi.
    apply in_seq in Hi. rewrite nth_map_seq by lia. reflexivity.
  Qed.

  Lemma edges_rebuild (edges : list V) :
    (2 <= length edges)%nat -> lefts edges ++ [last (rights edges) dflt] = edges.
  Proof.
    intros H. unfold lefts, rights.
    assert (last (tl edges) dflt = last edges dflt) as ->.
    { destruct edges as [|a [|b r]]; simpl in *; try lia. reflexivity. }
    symmetry. apply app_removelast_last. destruct edges; simpl in *; [lia|discriminate].
  Qed.

  Lemma lefts_length (edges : list V) : length (lefts edges) = num_bins edges.
  Proof.
    unfold lefts, num_bins. destruct edges as [|a r]; [reflexivity|].
    rewrite removelast_firstn_len, firstn_length. simpl. lia.
  Qed.
  Lemma rights_length (edges : list V) : length (rights edges) = num_bins edges.
  Proof. unfold rights, num_bins. destruct edges; simpl; lia. Qed.

  Lemma col_of (l : list V) n : length l = n -> map (fun i => nth i l dflt) (seq 0 n) = l.
  Proof. intros <-. apply map_nth_seq. Qed.

  (* repaired reader (ndmin=2): any number of bins >= 1, any number of samples *)
  Theorem ascii_roundtrip (edges data err : list V) (samples : list (list V)) :
    (1 <= num_bins edges)%nat ->
    length data = num_bins edges -> length err = num_bins edges ->
    Forall (fun s => length s = num_bins edges) samples ->
    from_files_fixed dflt (dat_lines dflt edges data err) (smp_lines dflt edges samples)
    = Some (edges, data, samples).
  Proof.
    intros Hnb Hd He Hs.
    pose proof (lefts_length edges) as HL. pose proof (rights_length edges) as HR.
    assert (Hlen : length edges = S (num_bins edges)) by (unfold num_bins in *; lia).
    assert (Hreb : lefts edges ++ [last (rights edges) dflt] = edges) by (apply edges_rebuild; lia).
    unfold from_files_fixed, from_files, loadtxt2, dat_lines, smp_lines.
    remember (num_bins edges) as nb eqn:Enb.
    assert (Hhd : forall L : nat -> list V, hd [] (map L (seq 0 nb)) = L 0%nat)
      by (intros L; destruct nb; [lia|reflexivity]).
    rewrite !map_length, !seq_length, !Hhd. cbn [length]. rewrite map_length.
    rewrite !transpose_map_seq.
    (* .dat: four columns *)
    cbn [seq map nth load_data].
    rewrite !col_of by assumption.
    (* .smp: two edge columns, then one column per sample *)
    cbn [load_samples skipn].
    rewrite Hreb, Hd, Hlen. replace (S nb - 1)%nat with nb by lia. rewrite !Nat.eqb_refl.
    cbn [andb]. do 2 f_equal.
    rewrite <- seq_shift, <- seq_shift, !map_map.
    transitivity (map (fun m => nth m samples []) (seq 0 (length samples))); [|apply map_nth_seq].
    apply map_ext_in. intros m Hm. apply in_seq in Hm.
    transitivity (map (fun i => nth i (nth m samples []) dflt) (seq 0 nb)).
    - apply map_ext. intros i.
      rewrite (nth_indep _ dflt (nth i [] dflt)) by (rewrite map_length; lia).
      rewrite (map_nth (fun s => nth i s dflt)). reflexivity.
    - apply col_of. rewrite Forall_forall in Hs. apply Hs. apply nth_In. lia.
  Qed.

  (* current reader: with one bin both files have one line, loadtxt returns 1-D arrays and
     load_data fails — for every single-bin product *)
  Theorem ascii_single_bin_fails (edges data err : list V) (samples : list (list V)) :
    num_bins edges = 1%nat ->
    from_files_current dflt (dat_lines dflt edges data err) (smp_lines dflt edges samples) = None.
  Proof.
    intros H. unfold from_files_current, from_files, dat_lines. rewrite H. reflexivity.
  Qed.

  (* with two or more bins the current reader is the repaired one *)
  Theorem ascii_current_multi_bin (edges data err : list V) (samples : list (list V)) :
    (2 <= num_bins edges)%nat ->
    from_files_current dflt (dat_lines dflt edges data err) (smp_lines dflt edges samples)
    = from_files_fixed dflt (dat_lines dflt edges data err) (smp_lines dflt edges samples).
  Proof.
    intros H. unfold from_files_current, from_files_fixed, from_files.
    assert (E1 : loadtxt dflt (dat_lines dflt edges data err) = loadtxt2 (dat_lines dflt edges data err)).
    { unfold loadtxt, loadtxt2, dat_lines. rewrite map_length, seq_length.
      destruct (num_bins edges) as [|[|n]]; try lia. reflexivity. }
    assert (E2 : loadtxt dflt (smp_lines dflt edges samples) = loadtxt2 (smp_lines dflt edges samples)).
    { unfold loadtxt, loadtxt2, smp_lines. rewrite map_length, seq_length.
      destruct (num_bins edges) as [|[|n]]; try lia. reflexivity. }
    rewrite E1, E2. reflexivity.
  Qed.
End TableP.

Theorem ascii_single_bin_refuted :
  exists (edges data err : list nat) (samples : list (list nat)),
    num_bins edges = 1%nat /\ length data = 1%nat /\ length err = 1%nat /\
    Forall (fun s => length s = 1%nat) samples /\
    from_files_current 0%nat (dat_lines 0%nat edges data err) (smp_lines 0%nat edges samples) = None /\
    from_files_fixed 0%nat (dat_lines 0%nat edges data err) (smp_lines 0%nat edges samples)
    = Some (edges, data, samples).
Proof.
  exists [1; 2]%nat, [3]%nat, [4]%nat, [[5]; [6]]%nat.
  repeat split; try reflexivity. repeat constructor.
Qed.

(* =====================================================================================
   (e) configuration
   ===================================================================================== *)
Section ConfigP.
  Context {E C Sc : Type} (gen : C -> bmethod -> E -> E -> nat -> list E) (dflt : E).

  (* a configuration that can exist: generated edges come from the generator *)
  Definition wf_config (c : config (E := E) (C := C) (Sc := Sc)) : Prop :=
    match c_binning c with
    | Auto m e _ => exists a b n, e = gen (c_cosmo c) m a b n /\ endpoints_exact_at gen dflt (c_cosmo c) m a b n
    | Custom _ _ => True
    end.

  Theorem config_roundtrip_at (s : Sc) cosmo m a b n cl wk :
    endpoints_exact_at gen dflt cosmo m a b n ->
    from_dict_fixed gen (to_dict dflt (create gen s cosmo m a b n cl wk)) = Some (create gen s cosmo m a b n cl wk)
    /\ from_dict_current gen (to_dict dflt (create gen s cosmo m a b n cl wk)) = Some (create gen s cosmo m a b n cl wk).
  Proof.
    intros (H1 & H2 & H3).
    unfold from_dict_fixed, from_dict_current, from_dict, to_dict, create, binning_from_dict_fixed,
      binning_from_dict_current, regenerate; simpl.
    rewrite H1, H2, H3. simpl. rewrite Nat.sub_0_r. split; reflexivity.
  Qed.

  Theorem config_roundtrip_custom (s : Sc) cosmo e cl wk :
    from_dict_fixed gen (to_dict dflt (create_custom s cosmo e cl wk)) = Some (create_custom s cosmo e cl wk)
    /\ from_dict_current gen (to_dict dflt (create_custom s cosmo e cl wk)) = None.
  Proof. split; reflexivity. Qed.

  (* ASSUMES: gen is a function of (cosmology, method, zmin, zmax, num_bins) and nothing else
     (built into its type), and hits the requested end points with num_bins+1 edges on the
     parameters of this configuration (endpoints_exact_at, inside wf_config).  Then the YAML
     round trip through the repaired from_dict is the identity on every configuration. *)
  Theorem config_roundtrip (c : config) :
    wf_config c -> from_dict_fixed gen (to_dict dflt c) = Some c.
  Proof.
    destruct c as [s [m e cl|e cl] cosmo wk]; unfold wf_config; simpl.
    - intros (a & b & n & -> & H). apply (config_roundtrip_at s cosmo m a b n cl wk H).
    - intros _. reflexivity.
  Qed.

  (* the regenerated edges are the generator's output on (hd, last, length - 1) of the old ones:
     the round trip is the identity exactly when the edges are a fixed point of that map *)
  Theorem config_roundtrip_iff (s : Sc) (cosmo : C) m e cl wk :
    let c := {| c_scales := s; c_binning := Auto m e cl; c_cosmo := cosmo; c_workers := wk |} in
    from_dict_fixed gen (to_dict dflt c) = Some c <-> gen cosmo m (hd dflt e) (last e dflt) (length e - 1) = e.
  Proof.
    simpl. unfold from_dict_fixed, from_dict, to_dict, binning_from_dict_fixed, regenerate; simpl. split.
    - intros H. inversion H as [H1]. rewrite H1. exact H1.
    - intros ->. reflexivity.
  Qed.
End ConfigP.

Lemma last_cons_snoc {A} (a : A) l b d : last (a :: l ++ [b]) d = b.
Proof. change (a :: l ++ [b]) with ((a :: l) ++ [b]). apply last_last. Qed.

(* the hypothesis is satisfiable: exact linspace (numpy sets the last element to stop) *)
Theorem linear_endpoints_exact cosmo m a b n :
  (1 <= n)%nat -> endpoints_exact_at gen_linear 0 cosmo m a b n.
Proof.
  intros Hn. unfold endpoints_exact_at, gen_linear, linspace_snap.
  destruct n as [|n']; [lia|].
  cbn [seq map app]. repeat split.
  - apply last_cons_snoc.
  - simpl. rewrite app_length, map_length, seq_length. simpl. lia.
Qed.

(* and it is needed: a generator whose first edge drifts off zmin changes the edges at every
   write/read cycle *)
Theorem config_roundtrip_needs_endpoints :
  exists a b n,
    let c := create (Sc := unit) gen_drift tt tt Linear a b n false None in
    from_dict_fixed gen_drift (to_dict 0 c) <> Some c.
Proof.
  exists (1 # 10), (1 # 2), 4%nat. vm_compute. intros H. discriminate H.
Qed.

(* =====================================================================================
   (f) patch metadata
   ===================================================================================== *)
Theorem metadata_roundtrip {F} (m : metadata F) : meta_from_dict (meta_to_dict m) = Some m.
Proof. destruct m as [n s [a b] r]. reflexivity. Qed.
