From Verif Require Import Relocate.
From Coq Require Import List Arith Bool.

Section RelocateP.
  Context {R : Type}.
  Implicit Types (f : @fs R) (r : R).

  Theorem reopen_in_place f p r : reopen (create f p r) p = Some r.
  Proof. unfold reopen, create. rewrite Nat.eqb_refl. reflexivity. Qed.

  (* moved (or renamed), and the old place taken by another catalog: the moved cache still holds what it was created from *)
  Theorem reopen_after_move f p q r r' : p <> q -> reopen (create (move (create f p r) p q) p r') q = Some r.
  Proof.
    intro H. unfold reopen, create, move.
    assert (E : Nat.eqb q p = false) by (apply Nat.eqb_neq; congruence).
    rewrite E, !Nat.eqb_refl. reflexivity.
  Qed.

  Theorem reopen_after_copy f p q r r' : p <> q -> reopen (create (copy (create f p r) p q) p r') q = Some r.
  Proof.
    intro H. unfold reopen, create, copy.
    assert (E : Nat.eqb q p = false) by (apply Nat.eqb_neq; congruence).
    rewrite E, !Nat.eqb_refl. reflexivity.
  Qed.

  (* other caches are not touched by creating, moving or copying elsewhere *)
  Theorem reopen_frame f p q x r : x <> p -> x <> q ->
    reopen (create f p r) x = reopen f x /\ reopen (move f p q) x = reopen f x /\ reopen (copy f p q) x = reopen f x.
  Proof.
    intros Hp Hq. unfold reopen, create, move, copy.
    apply Nat.eqb_neq in Hp. apply Nat.eqb_neq in Hq. rewrite Hp, Hq. repeat split; reflexivity.
  Qed.

  (* following the stored paths is right as long as nothing moved ... *)
  Theorem reopen_stored_in_place f p r : reopen_stored (create f p r) p = Some r.
  Proof. unfold reopen_stored, create. rewrite Nat.eqb_refl. cbn. rewrite Nat.eqb_refl. reflexivity. Qed.
End RelocateP.

(* ... and hands out the records of whatever lives at the old place afterwards *)
Theorem reopen_stored_after_move_refuted :
  exists (f : @fs nat) p q r r', p <> q /\ reopen_stored (create (move (create f p r) p q) p r') q = Some r' /\ r <> r'.
Proof. exists (fun _ => None), 1, 2, 10, 20. vm_compute. repeat split; discriminate. Qed.
