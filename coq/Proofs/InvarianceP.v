From Verif Require Import Prelude PairCount PairCountP Invariance.
From Coq Require Import Permutation Qring Qfield Setoid Morphisms.
Open Scope Q_scope.

Lemma qsum_perm l l' : Permutation l l' -> qsum l == qsum l'.
Proof. induction 1; simpl; try rewrite IHPermutation; try ring. rewrite IHPermutation1. exact IHPermutation2. Qed.

Lemma w_in_perm lo hi ps ps' : Permutation ps ps' -> w_in lo hi ps == w_in lo hi ps'.
Proof. intro H. unfold w_in. apply qsum_perm. apply Permutation_map. exact H. Qed.

Lemma w_in_app lo hi ps qs : w_in lo hi (ps ++ qs) == w_in lo hi ps + w_in lo hi qs.
Proof. unfold w_in. rewrite map_app. apply qsum_app. Qed.

Section InvP.
  Context {P : Type} (ang : P -> P -> Q).
  Notation lobj := (lobj P).

  Lemma lpairs_perm_r A (B B' : list lobj) : Permutation B B' -> Permutation (lpairs ang A B) (lpairs ang A B').
  Proof.
    intro H. unfold lpairs. induction A as [|a A IH]; simpl; [constructor|].
    apply Permutation_app; [apply Permutation_map; exact H|exact IH].
  Qed.
  Lemma lpairs_perm_l (A A' B : list lobj) : Permutation A A' -> Permutation (lpairs ang A B) (lpairs ang A' B).
  Proof.
    intro H. unfold lpairs. induction H; simpl.
    - constructor.
    - apply Permutation_app_head. assumption.
    - rewrite !app_assoc. apply Permutation_app_tail. apply Permutation_app_comm.
    - etransitivity; eassumption.
  Qed.

  (* reordering the input rows of either catalog leaves every count unchanged *)
  Theorem count_row_perm lo hi (A A' B B' : list lobj) :
    Permutation A A' -> Permutation B B' -> count ang lo hi A B == count ang lo hi A' B'.
  Proof.
    intros HA HB. unfold count. apply w_in_perm.
    etransitivity; [apply lpairs_perm_l; exact HA|apply lpairs_perm_r; exact HB].
  Qed.

  (* a common isometry (rotation of the sphere) leaves every count unchanged *)
  Theorem count_isometry (phi : P -> P) lo hi (A B : list lobj) :
    (forall a b, ang (phi a) (phi b) = ang a b) ->
    count ang lo hi (map (move phi) A) (map (move phi) B) = count ang lo hi A B.
  Proof.
    intro H. unfold count. f_equal. unfold lpairs.
    induction A as [|a A IH]; simpl; [reflexivity|]. rewrite IH. f_equal.
    rewrite map_map. apply map_ext. intro b. simpl. rewrite H. reflexivity.
  Qed.

  (* patch labels do not enter the counts; jackknife samples permute with the relabelling *)
  Lemma lpairs_relabel pi (A B : list lobj) : lpairs ang (map (relabel pi) A) (map (relabel pi) B) = lpairs ang A B.
  Proof.
    unfold lpairs. induction A as [|a A IH]; simpl; [reflexivity|]. rewrite IH. f_equal.
    rewrite map_map. reflexivity.
  Qed.
  Lemma without_relabel pi k (A : list lobj) :
    (forall i j, pi i = pi j -> i = j) ->
    without (pi k) (map (relabel pi) A) = map (relabel pi) (without k A).
  Proof.
    intro Hinj. unfold without. induction A as [|a A IH]; simpl; [reflexivity|].
    assert (E : (pi (lpatch a) =? pi k)%nat = (lpatch a =? k)%nat).
    { destruct (Nat.eqb_spec (lpatch a) k) as [->|Hne]; [apply Nat.eqb_refl|].
      apply Nat.eqb_neq. intro C. apply Hne, Hinj, C. }
    rewrite E. destruct (lpatch a =? k)%nat; simpl; rewrite IH; reflexivity.
  Qed.
  Theorem count_patch_relabel pi lo hi (A B : list lobj) :
    count ang lo hi (map (relabel pi) A) (map (relabel pi) B) = count ang lo hi A B.
  Proof. unfold count. rewrite lpairs_relabel. reflexivity. Qed.
  Theorem loo_patch_relabel pi lo hi k (A B : list lobj) :
    (forall i j, pi i = pi j -> i = j) ->
    loo_count ang lo hi (pi k) (map (relabel pi) A) (map (relabel pi) B) = loo_count ang lo hi k A B.
  Proof.
    intro Hinj. unfold loo_count. rewrite !without_relabel by exact Hinj. apply count_patch_relabel.
  Qed.

  (* counts are additive over a split of the second catalog into two disjoint catalogs *)
  Theorem count_additive lo hi (A B1 B2 : list lobj) :
    count ang lo hi A (B1 ++ B2) == count ang lo hi A B1 + count ang lo hi A B2.
  Proof.
    unfold count. induction A as [|a A IH]; simpl; [unfold w_in; simpl; ring|].
    rewrite !w_in_app, map_app, w_in_app, IH. ring.
  Qed.

  (* multiplying all weights of one catalog by k scales the counts and the total weight by k,
     so the normalised term is unchanged (k <> 0) *)
  Lemma count_scale_l k lo hi (A B : list lobj) :
    count ang lo hi (map (scale k) A) B == k * count ang lo hi A B.
  Proof.
    unfold count, w_in, lpairs. induction A as [|a A IH]; simpl; [ring|].
    rewrite !map_app, !qsum_app, IH.
    assert (E : qsum (map (fun p : Q * Q => if in_range lo hi (fst p) then snd p else 0)
                       (map (fun b : lobj => (ang (lp a) (lp b), k * lw a * lw b)) B))
                == k * qsum (map (fun p : Q * Q => if in_range lo hi (fst p) then snd p else 0)
                       (map (fun b : lobj => (ang (lp a) (lp b), lw a * lw b)) B))).
    { clear IH. induction B as [|b B IHB]; simpl; [ring|].
      destruct (in_range lo hi (ang (lp a) (lp b))); rewrite IHB; ring. }
    rewrite E. ring.
  Qed.

  Lemma totw_scale k (A : list lobj) : totw (map (scale k) A) == k * totw A.
  Proof. unfold totw. induction A as [|a A IH]; simpl; [ring|]. rewrite IH. ring. Qed.

  Theorem norm_weight_scale k lo hi (A B : list lobj) :
    ~ k == 0 -> ~ totw A * totw B == 0 ->
    norm_count ang lo hi (map (scale k) A) B == norm_count ang lo hi A B.
  Proof.
    intros Hk Hw. unfold norm_count. rewrite count_scale_l, totw_scale.
    assert (H1 : ~ totw A == 0) by (intro E; apply Hw; rewrite E; ring).
    assert (H2 : ~ totw B == 0) by (intro E; apply Hw; rewrite E; ring).
    field. repeat split; assumption.
  Qed.
End InvP.
