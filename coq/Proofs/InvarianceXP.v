From Verif Require Import Prelude PairCount PairCountP Invariance InvarianceP Rotation Jackknife JackknifeP.
From Coq Require Import Permutation Qring Qfield Setoid Morphisms.
Open Scope Q_scope.

(* ================================================================== *)
(* 1. rotations preserve dot products and squared chords               *)
(* ================================================================== *)
Lemma dot3_rot R u v : orth R -> dot3 (mv R u) (mv R v) == dot3 u v.
Proof.
  destruct R as [[[[r11 r12] r13] [[r21 r22] r23]] [[r31 r32] r33]].
  destruct u as [[a b] c]. destruct v as [[x y] z].
  unfold orth, col3, mv, dot3. intros (H00 & H11 & H22 & H01 & H02 & H12).
  transitivity ((r11 * r11 + r21 * r21 + r31 * r31) * (a * x)
                + (r12 * r12 + r22 * r22 + r32 * r32) * (b * y)
                + (r13 * r13 + r23 * r23 + r33 * r33) * (c * z)
                + (r11 * r12 + r21 * r22 + r31 * r32) * (a * y + b * x)
                + (r11 * r13 + r21 * r23 + r31 * r33) * (a * z + c * x)
                + (r12 * r13 + r22 * r23 + r32 * r33) * (b * z + c * y)); [ring|].
  rewrite H00, H11, H22, H01, H02, H12. ring.
Qed.

Lemma mv_sub R u v : let '(p, q, r) := sub3 (mv R u) (mv R v) in
                     let '(p', q', r') := mv R (sub3 u v) in p == p' /\ q == q' /\ r == r'.
Proof.
  destruct R as [[[[r11 r12] r13] [[r21 r22] r23]] [[r31 r32] r33]].
  destruct u as [[a b] c]. destruct v as [[x y] z]. unfold mv, sub3, dot3. repeat split; ring.
Qed.

Theorem chord2_rot R u v : orth R -> chord2 (mv R u) (mv R v) == chord2 u v.
Proof.
  intros H. unfold chord2. rewrite <- (dot3_rot R (sub3 u v) (sub3 u v) H).
  destruct R as [[[[r11 r12] r13] [[r21 r22] r23]] [[r31 r32] r33]].
  destruct u as [[a b] c]. destruct v as [[x y] z]. unfold mv, sub3, dot3. ring.
Qed.

(* a rotation keeps unit vectors on the sphere *)
Theorem unit_rot R u : orth R -> dot3 u u == 1 -> dot3 (mv R u) (mv R u) == 1.
Proof. intros H Hu. rewrite dot3_rot by exact H. exact Hu. Qed.

(* ================================================================== *)
(* 2. counts under a map that preserves distances up to ==             *)
(* ================================================================== *)
Lemma in_range_qeq lo hi x y : x == y -> in_range lo hi x = in_range lo hi y.
Proof.
  intros E. unfold in_range.
  assert (A : Qltb lo x = Qltb lo y).
  { destruct (Qltb lo x) eqn:E1, (Qltb lo y) eqn:E2; try reflexivity.
    - apply Qltb_lt in E1. rewrite E in E1. apply Qltb_lt in E1. congruence.
    - apply Qltb_lt in E2. rewrite <- E in E2. apply Qltb_lt in E2. congruence. }
  assert (B : Qleb x hi = Qleb y hi).
  { destruct (Qleb x hi) eqn:E1, (Qleb y hi) eqn:E2; try reflexivity.
    - apply Qleb_le in E1. rewrite E in E1. apply Qleb_le in E1. congruence.
    - apply Qleb_le in E2. rewrite <- E in E2. apply Qleb_le in E2. congruence. }
  rewrite A, B. reflexivity.
Qed.

Section IsoEq.
  Context {P : Type} (ang : P -> P -> Q).
  Notation lobj := (lobj P).

  Theorem count_isometry_eq (phi : P -> P) lo hi (A B : list lobj) :
    (forall a b, ang (phi a) (phi b) == ang a b) ->
    count ang lo hi (map (move phi) A) (map (move phi) B) == count ang lo hi A B.
  Proof.
    intro H. unfold count, w_in, lpairs.
    induction A as [|a A IH]; cbn [map flat_map]; [reflexivity|].
    rewrite !map_app, !qsum_app, IH. apply Qplus_comp; [|reflexivity].
    clear IH. induction B as [|b B IHB]; cbn [map qsum]; [reflexivity|].
    cbn [fst snd move lp lw]. rewrite (in_range_qeq lo hi _ _ (H (lp a) (lp b))).
    rewrite IHB. reflexivity.
  Qed.

  (* jackknife samples too: removing a patch commutes with moving the points *)
  Lemma without_move phi k (A : list lobj) : without k (map (move phi) A) = map (move phi) (without k A).
  Proof.
    unfold without. induction A as [|a A IH]; cbn [map filter]; [reflexivity|].
    cbn [move lpatch]. destruct (negb (lpatch a =? k)%nat); cbn [map]; rewrite IH; reflexivity.
  Qed.
  Theorem loo_isometry_eq (phi : P -> P) lo hi k (A B : list lobj) :
    (forall a b, ang (phi a) (phi b) == ang a b) ->
    loo_count ang lo hi k (map (move phi) A) (map (move phi) B) == loo_count ang lo hi k A B.
  Proof. intro H. unfold loo_count. rewrite !without_move. apply count_isometry_eq. exact H. Qed.

  Lemma totw_move phi (A : list lobj) : totw (map (move phi) A) = totw A.
  Proof. unfold totw. rewrite map_map. reflexivity. Qed.

  (* additivity in the first catalog, and for any interleaving of the two parts *)
  Theorem count_additive_l lo hi (A1 A2 B : list lobj) :
    count ang lo hi (A1 ++ A2) B == count ang lo hi A1 B + count ang lo hi A2 B.
  Proof. unfold count, lpairs. rewrite flat_map_app. apply w_in_app. Qed.
  Theorem count_additive_split lo hi (A B B1 B2 : list lobj) :
    Permutation B (B1 ++ B2) ->
    count ang lo hi A B == count ang lo hi A B1 + count ang lo hi A B2.
  Proof.
    intro H. rewrite (count_row_perm ang lo hi A A B (B1 ++ B2) (Permutation_refl A) H).
    apply count_additive.
  Qed.

  (* weight scale in the second catalog and in both at once (autocorrelation: k^2 cancels) *)
  Lemma count_scale_r k lo hi (A B : list lobj) :
    count ang lo hi A (map (scale k) B) == k * count ang lo hi A B.
  Proof.
    unfold count, w_in, lpairs. induction A as [|a A IH]; cbn [flat_map map qsum]; [ring|].
    rewrite !map_app, !qsum_app, IH.
    assert (E : qsum (map (fun p : Q * Q => if in_range lo hi (fst p) then snd p else 0)
                       (map (fun b : lobj => (ang (lp a) (lp b), lw a * lw b)) (map (scale k) B)))
                == k * qsum (map (fun p : Q * Q => if in_range lo hi (fst p) then snd p else 0)
                       (map (fun b : lobj => (ang (lp a) (lp b), lw a * lw b)) B))).
    { clear IH. induction B as [|b B IHB]; cbn [map qsum]; [ring|].
      cbn [fst snd scale lp lw]. destruct (in_range lo hi (ang (lp a) (lp b))); rewrite IHB; ring. }
    rewrite E. ring.
  Qed.
  Theorem norm_weight_scale_r k lo hi (A B : list lobj) :
    ~ k == 0 -> ~ totw A * totw B == 0 ->
    norm_count ang lo hi A (map (scale k) B) == norm_count ang lo hi A B.
  Proof.
    intros Hk Hw. unfold norm_count. rewrite count_scale_r, totw_scale.
    assert (H1 : ~ totw A == 0) by (intro E; apply Hw; rewrite E; ring).
    assert (H2 : ~ totw B == 0) by (intro E; apply Hw; rewrite E; ring).
    field. repeat split; assumption.
  Qed.
  Theorem norm_weight_scale_both k lo hi (A : list lobj) :
    ~ k == 0 -> ~ totw A == 0 ->
    norm_count ang lo hi (map (scale k) A) (map (scale k) A) == norm_count ang lo hi A A.
  Proof.
    intros Hk Hw. unfold norm_count. rewrite count_scale_l, count_scale_r, !totw_scale.
    field. repeat split; assumption.
  Qed.
End IsoEq.

(* ================================================================== *)
(* 3. the rotation instance: squared chords of 3-vectors               *)
(* ================================================================== *)
Theorem count_rotation R lo hi (A B : list (lobj v3)) :
  orth R ->
  count chord2 lo hi (map (move (mv R)) A) (map (move (mv R)) B) == count chord2 lo hi A B.
Proof. intro H. apply count_isometry_eq. intros a b. apply chord2_rot. exact H. Qed.

Theorem loo_rotation R lo hi k (A B : list (lobj v3)) :
  orth R ->
  loo_count chord2 lo hi k (map (move (mv R)) A) (map (move (mv R)) B) == loo_count chord2 lo hi k A B.
Proof. intro H. apply loo_isometry_eq. intros a b. apply chord2_rot. exact H. Qed.

Theorem norm_rotation R lo hi (A B : list (lobj v3)) :
  orth R ->
  norm_count chord2 lo hi (map (move (mv R)) A) (map (move (mv R)) B) == norm_count chord2 lo hi A B.
Proof.
  intro H. unfold norm_count. rewrite (count_rotation R lo hi A B H), !totw_move. reflexivity.
Qed.

(* ================================================================== *)
(* 4. the jackknife covariance does not depend on the order of samples *)
(* ================================================================== *)
Lemma col_perm X X' i : Permutation X X' -> Permutation (col X i) (col X' i).
Proof. intro H. unfold col. apply Permutation_map. exact H. Qed.

Lemma mean_col_perm X X' i : Permutation X X' -> mean_col X i == mean_col X' i.
Proof.
  intro H. unfold mean_col. rewrite (qsum_perm _ _ (col_perm X X' i H)), (Permutation_length H). reflexivity.
Qed.

Lemma sumprod_perm X X' i j : Permutation X X' -> sumprod X i j == sumprod X' i j.
Proof.
  intro H. unfold sumprod.
  rewrite (qsum_perm _ _ (Permutation_map (fun r => dev X r i * dev X r j) H)).
  apply qsum_ext_all. intro r. unfold dev.
  rewrite (mean_col_perm X X' i H), (mean_col_perm X X' j H). reflexivity.
Qed.

Theorem cov_sample_order X X' i j : Permutation X X' -> cov_code X i j == cov_code X' i j.
Proof.
  intro H. unfold cov_code. rewrite (sumprod_perm X X' i j H), (Permutation_length H). reflexivity.
Qed.

(* ================================================================== *)
(* 5. the stored form of a count table and the weight scale            *)
(* ================================================================== *)
Notation roweq := (Forall2 Qeq).

Lemma roweq_refl r : roweq r r.
Proof. induction r; constructor; [reflexivity|assumption]. Qed.
Lemma roweq_sym r s : roweq r s -> roweq s r.
Proof. induction 1; constructor; [symmetry|]; assumption. Qed.
Lemma roweq_trans r s t : roweq r s -> roweq s t -> roweq r t.
Proof.
  intro H. revert t. induction H; intros t Ht; inversion Ht; subst; constructor.
  - etransitivity; eassumption.
  - apply IHForall2. assumption.
Qed.
Lemma roweq_map (f g : Q -> Q) r s :
  (forall x y, x == y -> f x == g y) -> roweq r s -> roweq (map f r) (map g s).
Proof. intros Hf H. induction H; simpl; constructor; [apply Hf|]; assumption. Qed.

Lemma any_nonzero_false row : any_nonzero row = false -> roweq (repeat 0 (length row)) row.
Proof.
  unfold any_nonzero. induction row as [|x row IH]; simpl; intro H; [constructor|].
  apply Bool.orb_false_iff in H. destruct H as [Hx Hr]. constructor; [|apply IH; exact Hr].
  apply Bool.negb_false_iff in Hx. unfold Qeqb in Hx. apply Qeq_bool_iff in Hx. symmetry. exact Hx.
Qed.

(* what is read back is what was written: rows the file leaves out hold zeros only, whatever the magnitudes *)
Theorem roundtrip_row_id row : roweq (roundtrip_row any_nonzero row) row.
Proof.
  unfold roundtrip_row, store_row. destruct (any_nonzero row) eqn:E; simpl.
  - apply roweq_refl.
  - apply any_nonzero_false. exact E.
Qed.
Theorem roundtrip_id T : Forall2 roweq (roundtrip any_nonzero T) T.
Proof. unfold roundtrip. induction T; simpl; constructor; [apply roundtrip_row_id|assumption]. Qed.

(* hence reading back commutes with a weight factor ... *)
Theorem roundtrip_row_scale k row :
  roweq (roundtrip_row any_nonzero (scale_row k row)) (scale_row k (roundtrip_row any_nonzero row)).
Proof.
  eapply roweq_trans; [apply roundtrip_row_id|]. unfold scale_row.
  apply roweq_map; [intros x y E; rewrite E; reflexivity|]. apply roweq_sym, roundtrip_row_id.
Qed.
(* ... and the normalised counts computed from a table that went through a file do not depend on the factor *)
Theorem roundtrip_row_norm_scale k n row : ~ k == 0 -> ~ n == 0 ->
  roweq (map (fun x => x / (k * n)) (roundtrip_row any_nonzero (scale_row k row)))
        (map (fun x => x / n) (roundtrip_row any_nonzero row)).
Proof.
  intros Hk Hn.
  apply roweq_trans with (map (fun x => x / (k * n)) (scale_row k row)).
  { apply roweq_map; [intros x y E; rewrite E; reflexivity|]. apply roundtrip_row_id. }
  apply roweq_trans with (map (fun x => x / n) row).
  { unfold scale_row. rewrite map_map. apply roweq_map; [|apply roweq_refl].
    intros x y E. rewrite E. field. split; assumption. }
  apply roweq_map; [intros x y E; rewrite E; reflexivity|]. apply roweq_sym, roundtrip_row_id.
Qed.

(* a selection with an absolute threshold, however small, is not compatible with the weight scale: some table
   is read back differently after all its weights were multiplied by a positive factor *)
Theorem roundtrip_threshold_refuted eps : 0 < eps ->
  exists row k, 0 < k /\
    ~ roweq (roundtrip_row (any_above eps) (scale_row k row)) (scale_row k (roundtrip_row (any_above eps) row)).
Proof.
  intro He. exists [2 * eps], (1 # 2). split; [reflexivity|].
  assert (P2 : 0 <= 2 * eps) by (apply Qmult_le_0_compat; [discriminate|apply Qlt_le_weak; exact He]).
  assert (P1 : 0 <= (1 # 2) * (2 * eps)) by (apply Qmult_le_0_compat; [discriminate|exact P2]).
  assert (A : Qltb eps (Qabs (2 * eps)) = true).
  { apply Qltb_lt. rewrite Qabs_pos by exact P2.
    setoid_replace eps with (1 * eps) at 1 by ring. apply Qmult_lt_compat_r; [exact He|reflexivity]. }
  assert (B : Qltb eps (Qabs ((1 # 2) * (2 * eps))) = false).
  { destruct (Qltb eps (Qabs ((1 # 2) * (2 * eps)))) eqn:E; [|reflexivity].
    apply Qltb_lt in E. rewrite Qabs_pos in E by exact P1.
    setoid_replace ((1 # 2) * (2 * eps)) with eps in E by ring. exfalso. exact (Qlt_irrefl _ E). }
  unfold roundtrip_row, store_row, any_above, scale_row. cbn [map existsb length]. rewrite A, B.
  cbn [orb restore_row repeat map length]. intro H. inversion H as [|x y l l' Hxy Hl]; subst.
  assert (E : eps == 0) by (setoid_replace eps with ((1 # 2) * (2 * eps)) by ring; symmetry; exact Hxy).
  rewrite E in He. exact (Qlt_irrefl _ He).
Qed.

From Coq Require Import Qround.
(* ================================================================== *)
(* the coordinate convention of the input                               *)
(* ================================================================== *)
Section ConvP.
  Context {P : Type} (pos : Q -> Q -> P) (T : Q).
  Context (pos_ext : forall a a' d d', a == a' -> d == d' -> pos a d = pos a' d').
  Context (pos_per : forall a d, pos (a + T) d = pos a d).

  Lemma pos_shift_nat (n : nat) a d : pos (a + inject_Z (Z.of_nat n) * T) d = pos a d.
  Proof.
    induction n as [|n IH].
    - apply pos_ext; [simpl; ring|reflexivity].
    - rewrite <- IH, <- (pos_per (a + inject_Z (Z.of_nat n) * T) d).
      apply pos_ext; [|reflexivity]. rewrite Nat2Z.inj_succ. unfold Z.succ. rewrite inject_Z_plus. ring.
  Qed.
  Lemma pos_shift (k : Z) a d : pos (a + inject_Z k * T) d = pos a d.
  Proof.
    destruct (Z_le_gt_dec 0 k) as [H|H].
    - rewrite <- (Z2Nat.id k H). apply pos_shift_nat.
    - assert (H' : (0 <= - k)%Z) by lia.
      rewrite <- (pos_shift_nat (Z.to_nat (- k)) (a + inject_Z k * T) d).
      apply pos_ext; [|reflexivity]. rewrite (Z2Nat.id _ H'), inject_Z_opp. ring.
  Qed.

  (* the right ascension moved by whole periods of the unit (T' = T / c), an own number per object *)
  Lemma read_shift c T' k o : c * T' == T -> read pos c (shift_ra T' k o) = read pos c o.
  Proof.
    intro HT. unfold read, shift_ra. cbn [cra cdec cw cpatch]. f_equal.
    rewrite <- (pos_shift (k o) (c * cra o) (c * cdec o)).
    apply pos_ext; [|reflexivity]. rewrite <- HT. ring.
  Qed.
  (* the same coordinates in another unit, read with the factor of that unit *)
  Lemma read_unit c u o : ~ u == 0 -> read pos (c / u) (in_unit u o) = read pos c o.
  Proof.
    intro Hu. unfold read, in_unit. cbn [cra cdec cw cpatch]. f_equal.
    apply pos_ext; field; exact Hu.
  Qed.
  Theorem read_convention c u T' k (A : list cobj) : c * T' == T -> ~ u == 0 ->
    map (read pos (c / u)) (map (in_unit u) (map (shift_ra T' k) A)) = map (read pos c) A.
  Proof.
    intros HT Hu. rewrite !map_map. apply map_ext. intro o.
    rewrite read_unit by exact Hu. apply read_shift. exact HT.
  Qed.

  (* a wrap of the right ascension into [0, W) is harmless exactly when W is a period in the unit of the input *)
  Theorem read_wrapped_period W c o : c * W == T -> read_wrapped pos W c o = read pos c o.
  Proof.
    intros HT. unfold read_wrapped, read, wrap. f_equal.
    rewrite <- (pos_shift (- Qfloor (cra o / W)) (c * cra o) (c * cdec o)).
    apply pos_ext; [|reflexivity]. rewrite inject_Z_opp, <- HT. ring.
  Qed.

  Section Counts.
    Context (ang : P -> P -> Q).
    (* every catalog in a convention of its own: unit uA / uB, period shifts kA / kB *)
    Theorem count_ra_convention c uA uB T' kA kB lo hi (A B : list cobj) : c * T' == T -> ~ uA == 0 -> ~ uB == 0 ->
      count ang lo hi (map (read pos (c / uA)) (map (in_unit uA) (map (shift_ra T' kA) A)))
                      (map (read pos (c / uB)) (map (in_unit uB) (map (shift_ra T' kB) B)))
      = count ang lo hi (map (read pos c) A) (map (read pos c) B).
    Proof. intros HT HA HB. rewrite !read_convention by assumption. reflexivity. Qed.
    Theorem loo_ra_convention c uA uB T' kA kB lo hi p (A B : list cobj) : c * T' == T -> ~ uA == 0 -> ~ uB == 0 ->
      loo_count ang lo hi p (map (read pos (c / uA)) (map (in_unit uA) (map (shift_ra T' kA) A)))
                            (map (read pos (c / uB)) (map (in_unit uB) (map (shift_ra T' kB) B)))
      = loo_count ang lo hi p (map (read pos c) A) (map (read pos c) B).
    Proof. intros HT HA HB. rewrite !read_convention by assumption. reflexivity. Qed.
    Theorem norm_ra_convention c uA uB T' kA kB lo hi (A B : list cobj) : c * T' == T -> ~ uA == 0 -> ~ uB == 0 ->
      norm_count ang lo hi (map (read pos (c / uA)) (map (in_unit uA) (map (shift_ra T' kA) A)))
                           (map (read pos (c / uB)) (map (in_unit uB) (map (shift_ra T' kB) B)))
      = norm_count ang lo hi (map (read pos c) A) (map (read pos c) B).
    Proof. intros HT HA HB. rewrite !read_convention by assumption. reflexivity. Qed.
  End Counts.
End ConvP.

(* ---------------- the circle: a concrete periodic reading ---------------- *)
Lemma Qfloor_plus1 x : Qfloor (x + 1) = (Qfloor x + 1)%Z.
Proof.
  destruct x as [n d]. unfold Qplus, Qfloor. cbn [Qnum Qden].
  rewrite Z.mul_1_r, Pos.mul_1_r, Z.mul_1_l.
  replace (n + Z.pos d)%Z with (n + 1 * Z.pos d)%Z by ring.
  apply Z.div_add. discriminate.
Qed.
Lemma wrap_comp W x y : x == y -> wrap W x == wrap W y.
Proof.
  intro E. unfold wrap.
  assert (F : Qfloor (x / W) = Qfloor (y / W)) by (apply Qfloor_comp; rewrite E; reflexivity).
  rewrite F, E. reflexivity.
Qed.
Lemma wrap_period W x : ~ W == 0 -> wrap W (x + W) == wrap W x.
Proof.
  intro HW. unfold wrap.
  assert (E : (x + W) / W == x / W + 1) by (field; exact HW).
  rewrite (Qfloor_comp _ _ E), Qfloor_plus1, inject_Z_plus. change (inject_Z 1) with 1. ring.
Qed.
Lemma circle_pos_ext T a a' d d' : a == a' -> d == d' -> circle_pos T a d = circle_pos T a' d'.
Proof.
  intros Ea Ed. unfold circle_pos. f_equal; apply Qred_complete; [apply wrap_comp; exact Ea|exact Ed].
Qed.
Lemma circle_pos_per T a d : ~ T == 0 -> circle_pos T (a + T) d = circle_pos T a d.
Proof. intro HT. unfold circle_pos. f_equal. apply Qred_complete. apply wrap_period. exact HT. Qed.

(* the wrap of the code under test's unit applied whatever the unit: a period of 360 on coordinates whose period is not a
   divisor of 360 (radian: 2 pi; here 7) moves the objects given with a negative right ascension *)
Theorem wrap_before_unit_refuted :
  exists (T W : Q) (A B : list cobj) lo hi,
    (forall a a' d d', a == a' -> d == d' -> circle_pos T a d = circle_pos T a' d') /\
    (forall a d, circle_pos T (a + T) d = circle_pos T a d) /\
    ~ count (circle_ang T) lo hi (map (read_wrapped (circle_pos T) W 1) A) (map (read_wrapped (circle_pos T) W 1) B)
      == count (circle_ang T) lo hi (map (read (circle_pos T) 1) A) (map (read (circle_pos T) 1) B).
Proof.
  exists 7, 360, [{| cra := - (1); cdec := 0; cw := 2; cpatch := 0%nat |}], [{| cra := 0; cdec := 0; cw := 3; cpatch := 0%nat |}], 0, (3 # 2).
  split; [apply circle_pos_ext|]. split; [intros a d; apply circle_pos_per; discriminate|]. vm_compute. discriminate.
Qed.

(* ================================================================== *)
(* 7. counting over linked patch pairs, catalogs with extents of their own *)
(* ================================================================== *)
Section LinkedP.
  Context {P : Type} (ang : P -> P -> Q).
  Notation lobj := (lobj P).

  Lemma w_in_filter_far lo hi (f : lobj -> Q * Q) (keep : lobj -> bool) (B : list lobj) :
    (forall b, In b B -> in_range lo hi (fst (f b)) = true -> keep b = true) ->
    w_in lo hi (map f (filter keep B)) == w_in lo hi (map f B).
  Proof.
    induction B as [|b B IH]; intro H; [reflexivity|].
    assert (IH' : w_in lo hi (map f (filter keep B)) == w_in lo hi (map f B)).
    { apply IH. intros x Hx. apply H. right. exact Hx. }
    cbn [filter]. destruct (keep b) eqn:K.
    - cbn [map]. change (f b :: map f (filter keep B)) with ([f b] ++ map f (filter keep B)).
      change (f b :: map f B) with ([f b] ++ map f B). rewrite !w_in_app, IH'. reflexivity.
    - cbn [map]. change (f b :: map f B) with ([f b] ++ map f B). rewrite w_in_app, IH'.
      assert (E : in_range lo hi (fst (f b)) = false).
      { destruct (in_range lo hi (fst (f b))) eqn:E; [|reflexivity].
        rewrite (H b (or_introl eq_refl) E) in K. discriminate. }
      unfold w_in at 2. cbn [map qsum]. rewrite E. ring.
  Qed.

  (* counting over the linked patch pairs only loses nothing when no unlinked patch pair holds a pair in (lo, hi] *)
  Theorem linked_count_sound link lo hi (A B : list lobj) :
    (forall a b, In a A -> In b B -> in_range lo hi (ang (lp a) (lp b)) = true -> link (lpatch a) (lpatch b) = true) ->
    linked_count ang link lo hi A B == count ang lo hi A B.
  Proof.
    unfold linked_count, count, lpairs_linked, lpairs.
    induction A as [|a A IH]; intro H; [reflexivity|].
    cbn [flat_map]. rewrite !w_in_app. rewrite IH by (intros x b Hx; apply H; right; exact Hx).
    apply Qplus_comp; [|reflexivity].
    apply (w_in_filter_far lo hi (fun b => (ang (lp a) (lp b), lw a * lw b))).
    intros b Hb Hr. apply (H a b (or_introl eq_refl) Hb). exact Hr.
  Qed.

  Context (ang_sym : forall a b, ang a b == ang b a)
          (ang_tri : forall a b c, ang a c <= ang a b + ang b c).

  Lemma covers_in c R (A : list lobj) o : covers ang c R A = true -> In o A -> ang (lp o) (c (lpatch o)) <= R (lpatch o).
  Proof. unfold covers. rewrite forallb_forall. intros H Ho. apply Qleb_le. apply H. exact Ho. Qed.

  (* the symmetric test made from radii that cover both catalogs links every patch pair that holds a counted pair *)
  Theorem link_sym_sound c R M lo hi (A B : list lobj) :
    covers ang c R A = true -> covers ang c R B = true -> hi <= M ->
    forall a b, In a A -> In b B -> in_range lo hi (ang (lp a) (lp b)) = true -> link_sym ang c R M (lpatch a) (lpatch b) = true.
  Proof.
    intros HA HB HM a b Ha Hb Hr. apply in_range_spec in Hr as [_ Hr].
    unfold link_sym. apply Qleb_le.
    pose proof (covers_in c R A a HA Ha) as Ca. pose proof (covers_in c R B b HB Hb) as Cb.
    pose proof (ang_tri (c (lpatch a)) (lp a) (c (lpatch b))) as T1.
    pose proof (ang_tri (lp a) (lp b) (c (lpatch b))) as T2.
    pose proof (ang_sym (c (lpatch a)) (lp a)) as S1.
    eapply Qle_trans; [exact T1|]. rewrite S1.
    eapply Qle_trans; [apply Qplus_le_compat; [exact Ca|exact T2]|].
    eapply Qle_trans; [apply Qplus_le_compat; [apply Qle_refl|apply Qplus_le_compat; [eapply Qle_trans; [exact Hr|exact HM]|exact Cb]]|].
    setoid_replace (R (lpatch a) + (M + R (lpatch b))) with (R (lpatch a) + R (lpatch b) + M) by ring. apply Qle_refl.
  Qed.

  Theorem linked_count_covering c R M lo hi (A B : list lobj) :
    covers ang c R A = true -> covers ang c R B = true -> hi <= M ->
    linked_count ang (link_sym ang c R M) lo hi A B == count ang lo hi A B.
  Proof. intros HA HB HM. apply linked_count_sound. apply (link_sym_sound c R M lo hi A B HA HB HM). Qed.

  (* two measurements of the same objects under other labels, each with centres and radii of its own - taken from
     whichever catalog is the largest there, enlarged over whichever others - count the same *)
  Theorem linked_count_relabel_extents pi c R M c' R' M' lo hi (A B : list lobj) :
    covers ang c R A = true -> covers ang c R B = true -> hi <= M ->
    covers ang c' R' (map (relabel pi) A) = true -> covers ang c' R' (map (relabel pi) B) = true -> hi <= M' ->
    linked_count ang (link_sym ang c' R' M') lo hi (map (relabel pi) A) (map (relabel pi) B)
    == linked_count ang (link_sym ang c R M) lo hi A B.
  Proof.
    intros HA HB HM HA' HB' HM'.
    rewrite (linked_count_covering c' R' M' lo hi _ _ HA' HB' HM'), (linked_count_covering c R M lo hi A B HA HB HM).
    rewrite count_patch_relabel. reflexivity.
  Qed.

  (* the measurements of the two parts of a split catalog have geometries of their own (another catalog may be the
     largest there): the counts still add up *)
  Theorem linked_count_additive_extents c R M c1 R1 M1 c2 R2 M2 lo hi (A B1 B2 : list lobj) :
    covers ang c R A = true -> covers ang c R (B1 ++ B2) = true -> hi <= M ->
    covers ang c1 R1 A = true -> covers ang c1 R1 B1 = true -> hi <= M1 ->
    covers ang c2 R2 A = true -> covers ang c2 R2 B2 = true -> hi <= M2 ->
    linked_count ang (link_sym ang c R M) lo hi A (B1 ++ B2)
    == linked_count ang (link_sym ang c1 R1 M1) lo hi A B1 + linked_count ang (link_sym ang c2 R2 M2) lo hi A B2.
  Proof.
    intros HA HB HM HA1 HB1 HM1 HA2 HB2 HM2.
    rewrite (linked_count_covering c R M lo hi _ _ HA HB HM), (linked_count_covering c1 R1 M1 lo hi _ _ HA1 HB1 HM1),
            (linked_count_covering c2 R2 M2 lo hi _ _ HA2 HB2 HM2).
    apply count_additive.
  Qed.
  Theorem linked_count_additive_extents_first c R M c1 R1 M1 c2 R2 M2 lo hi (A1 A2 B : list lobj) :
    covers ang c R (A1 ++ A2) = true -> covers ang c R B = true -> hi <= M ->
    covers ang c1 R1 A1 = true -> covers ang c1 R1 B = true -> hi <= M1 ->
    covers ang c2 R2 A2 = true -> covers ang c2 R2 B = true -> hi <= M2 ->
    linked_count ang (link_sym ang c R M) lo hi (A1 ++ A2) B
    == linked_count ang (link_sym ang c1 R1 M1) lo hi A1 B + linked_count ang (link_sym ang c2 R2 M2) lo hi A2 B.
  Proof.
    intros HA HB HM HA1 HB1 HM1 HA2 HB2 HM2.
    rewrite (linked_count_covering c R M lo hi _ _ HA HB HM), (linked_count_covering c1 R1 M1 lo hi _ _ HA1 HB1 HM1),
            (linked_count_covering c2 R2 M2 lo hi _ _ HA2 HB2 HM2).
    apply count_additive_l.
  Qed.

  (* the radii the code uses - per patch the farthest object of ANY catalog of the measurement - cover every one of them,
     whichever is the largest *)
  Theorem reach_covers c (cats : list (list lobj)) A : In A cats -> covers ang c (reach ang c cats) A = true.
  Proof.
    intro HA. unfold covers. apply forallb_forall. intros o Ho. apply Qleb_le. unfold reach.
    apply qmax_list_ge. apply in_map_iff. exists o. split; [reflexivity|].
    apply filter_In. split; [|apply Nat.eqb_refl].
    apply in_concat. exists A. split; assumption.
  Qed.

  (* an autocorrelation visits a patch pair once, from the lower id: with a symmetric test nothing is lost *)
  Theorem auto_link_sym_complete c R M i j :
    link_sym ang c R M i j = true -> (i < j)%nat -> auto_link (link_sym ang c R M) i j = true.
  Proof. intros H L. unfold auto_link. rewrite H. apply Nat.ltb_lt in L. rewrite L. reflexivity. Qed.
  Theorem link_sym_symmetric c R M i j : link_sym ang c R M i j = link_sym ang c R M j i.
  Proof.
    unfold link_sym.
    destruct (Qleb (ang (c i) (c j)) (R i + R j + M)) eqn:E1, (Qleb (ang (c j) (c i)) (R j + R i + M)) eqn:E2; try reflexivity.
    - apply Qleb_le in E1. rewrite ang_sym in E1. setoid_replace (R i + R j + M) with (R j + R i + M) in E1 by ring.
      apply Qleb_le in E1. congruence.
    - apply Qleb_le in E2. rewrite ang_sym in E2. setoid_replace (R j + R i + M) with (R i + R j + M) in E2 by ring.
      apply Qleb_le in E2. congruence.
  Qed.
End LinkedP.

Lemma line_ang_sym a b : line_ang a b == line_ang b a.
Proof. unfold line_ang. setoid_replace (a - b) with (- (b - a)) by ring. apply Qabs_opp. Qed.
Lemma line_ang_tri a b c : line_ang a c <= line_ang a b + line_ang b c.
Proof. unfold line_ang. setoid_replace (a - c) with ((a - b) + (b - c)) by ring. apply Qabs_triangle. Qed.

(* the one-sided test - the own radius r of the largest catalog for the patch being linked, the radius R enlarged over all
   catalogs for the other one - on the line: patches 0 and 1 with centres 0 and 4, the largest catalog within 1 of either
   centre, a smaller catalog D reaching to 17/10 in patch 0 and to 3 in patch 1 (separation 13/10 <= 16/10 = M = hi).
   (1) the pair is lost from the cross-correlation counts; (2) the autocorrelation counts it or not depending on which of
   the two patches carries the lower id; (3) a catalog U that is the largest itself (its own radii are the enlarged ones)
   counts the pair, its two parts - measured with the radii of another catalog - do not: the counts do not add up.
   The symmetric test on the same radii counts the pair in all of them. *)
Theorem link_own_refuted :
  exists (c c' : nat -> Q) (r R r' R' : nat -> Q) (M lo hi : Q) (D U1 U2 : list (lobj Q)),
    covers line_ang c R D = true /\ covers line_ang c R (U1 ++ U2) = true /\ hi <= M /\
    covers line_ang c' R' (map (relabel swap01) D) = true /\
    (forall i, c' (swap01 i) = c i /\ r' (swap01 i) = r i /\ R' (swap01 i) = R i) /\
    ~ linked_count line_ang (link_own line_ang c r R M) lo hi D (U1 ++ U2) == count line_ang lo hi D (U1 ++ U2) /\
    ~ linked_count line_ang (auto_link (link_own line_ang c' r' R' M)) lo hi (map (relabel swap01) D) (map (relabel swap01) D)
      == linked_count line_ang (auto_link (link_own line_ang c r R M)) lo hi D D /\
    ~ linked_count line_ang (link_own line_ang c R R M) lo hi D (U1 ++ U2)
      == linked_count line_ang (link_own line_ang c r R M) lo hi D U1 + linked_count line_ang (link_own line_ang c r R M) lo hi D U2 /\
    linked_count line_ang (auto_link (link_sym line_ang c' R' M)) lo hi (map (relabel swap01) D) (map (relabel swap01) D)
      == linked_count line_ang (auto_link (link_sym line_ang c R M)) lo hi D D.
Proof.
  pose (o := fun (x w : Q) (k : nat) => {| lp := x; lw := w; lpatch := k |}).
  exists (fun i => match i with O => 0 | _ => 4 end), (fun i => match i with O => 4 | S O => 0 | _ => 4 end),
         (fun _ => 1), (fun i => match i with O => 17 # 10 | _ => 1 end),
         (fun _ => 1), (fun i => match i with O => 1 | S O => 17 # 10 | _ => 1 end),
         (16 # 10), 0, (16 # 10),
         [o (17 # 10) 2 0%nat; o 3 3 1%nat], [o 3 5 1%nat], [o 5 7 1%nat].
  split; [vm_compute; reflexivity|]. split; [vm_compute; reflexivity|]. split; [discriminate|].
  split; [vm_compute; reflexivity|].
  split; [intros [|[|i]]; repeat split; reflexivity|].
  split; [vm_compute; discriminate|]. split; [vm_compute; discriminate|]. split; [vm_compute; discriminate|].
  vm_compute. reflexivity.
Qed.
