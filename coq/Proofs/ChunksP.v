(* Proofs about the chunk cursor, the Parquet row-group cache, array_split and groupby. *)
From Verif Require Import Prelude Chunks.
From Coq Require Import Permutation.
Open Scope nat_scope.

(* ---------- slices ---------- *)
Lemma slices_from_cover fuel s n cs :
  1 <= cs -> n - s <= fuel -> concat (map range (slices_from fuel s n cs)) = seq s (n - s).
Proof.
  intros Hcs. revert s. induction fuel as [|f IH]; intros s Hf; simpl.
  - replace (n - s) with 0 by lia. reflexivity.
  - destruct (Nat.leb_spec n s) as [Hle|Hlt]; simpl.
    + replace (n - s) with 0 by lia. reflexivity.
    + rewrite IH by lia. unfold range; simpl.
      destruct (Nat.min_spec (s + cs) n) as [[H1 H2]|[H1 H2]]; rewrite H2.
      * replace (n - s) with ((s + cs - s) + (n - (s + cs))) by lia.
        rewrite seq_app. f_equal. f_equal. lia.
      * replace (n - (s + cs)) with 0 by lia. simpl. rewrite app_nil_r. reflexivity.
Qed.

Theorem slices_cover n cs : 1 <= cs -> concat (map range (slices n cs)) = seq 0 n.
Proof.
  intros H. unfold slices. rewrite slices_from_cover by lia. f_equal. lia.
Qed.

Lemma slices_from_bound fuel s n cs :
  1 <= cs -> Forall (fun se => 1 <= slice_len se <= cs /\ snd se <= n) (slices_from fuel s n cs).
Proof.
  intros Hcs. revert s. induction fuel as [|f IH]; intros s; simpl; [constructor|].
  destruct (Nat.leb_spec n s) as [Hle|Hlt]; [constructor|].
  constructor; [|apply IH]. unfold slice_len; simpl. lia.
Qed.

Theorem slices_bound n cs :
  1 <= cs -> Forall (fun se => 1 <= slice_len se <= cs /\ snd se <= n) (slices n cs).
Proof. intros; apply slices_from_bound; assumption. Qed.

(* consecutive: every slice starts where the previous one ended, the first at 0 *)
Fixpoint consecutive (s : nat) (l : list (nat * nat)) : Prop :=
  match l with [] => True | (a, b) :: r => a = s /\ consecutive b r end.

Lemma slices_from_consecutive fuel s n cs :
  consecutive s (slices_from fuel s n cs).
Proof. revert s. induction fuel as [|f IH]; intros s; simpl; [exact I|].
  destruct (Nat.leb_spec n s) as [Hle|Hlt]; simpl; [exact I|]. split; [reflexivity|].
  destruct (Nat.min_spec (s + cs) n) as [[H1 H2]|[H1 H2]]; rewrite H2.
  - apply IH.
  - destruct f; simpl; [exact I|]. destruct (Nat.leb_spec n (s + cs)); [exact I|lia].
Qed.

Lemma slices_from_length fuel s n cs :
  1 <= cs -> n - s <= fuel -> length (slices_from fuel s n cs) = (n - s + cs - 1) / cs.
Proof.
  intros Hcs. revert s. induction fuel as [|f IH]; intros s Hf; simpl.
  - replace (n - s + cs - 1) with (cs - 1) by lia. symmetry. apply Nat.div_small. lia.
  - destruct (Nat.leb_spec n s) as [Hle|Hlt]; simpl.
    + replace (n - s + cs - 1) with (cs - 1) by lia. symmetry. apply Nat.div_small. lia.
    + rewrite IH by lia.
      destruct (Nat.le_gt_cases n (s + cs)) as [Hl|Hg].
      * replace (n - (s + cs) + cs - 1) with (cs - 1) by lia.
        rewrite Nat.div_small by lia.
        assert (E : (n - s + cs - 1) / cs = 1).
        { symmetry. apply Nat.div_unique with (r := n - s - 1); lia. }
        lia.
      * replace (n - s + cs - 1) with ((n - (s + cs) + cs - 1) + 1 * cs) by lia.
        rewrite Nat.div_add by lia. lia.
Qed.

Theorem slices_length n cs : 1 <= cs -> length (slices n cs) = (n + cs - 1) / cs.
Proof. intros H. unfold slices. rewrite slices_from_length by lia. f_equal. lia. Qed.

(* ---------- chunks of a list ---------- *)
Lemma sub_firstn_skipn {A} (l : list A) s cs :
  sub (s, Nat.min (s + cs) (length l)) l = firstn cs (skipn s l).
Proof.
  unfold sub; simpl.
  destruct (Nat.min_spec (s + cs) (length l)) as [[H1 H2]|[H1 H2]]; rewrite H2.
  - f_equal. lia.
  - rewrite !firstn_all2; [reflexivity| |]; rewrite skipn_length; lia.
Qed.

Fixpoint chop {A} (fuel s n cs : nat) (rows : list A) : list (list A) :=
  match fuel with
  | O => []
  | S f => if n <=? s then [] else firstn cs rows :: chop f (s + cs) n cs (skipn cs rows)
  end.

Lemma skipn_skipn' {A} a b (l : list A) : skipn a (skipn b l) = skipn (b + a) l.
Proof.
  revert l; induction b as [|b IH]; intros l; simpl; [reflexivity|].
  destruct l; [destruct a; reflexivity|]. apply IH.
Qed.

Lemma chop_slices {A} (l : list A) fuel s cs :
  chop fuel s (length l) cs (skipn s l) = map (fun se => sub se l) (slices_from fuel s (length l) cs).
Proof.
  revert s. induction fuel as [|f IH]; intros s; simpl; [reflexivity|].
  destruct (Nat.leb_spec (length l) s); simpl; [reflexivity|].
  rewrite sub_firstn_skipn. f_equal. rewrite skipn_skipn'. apply IH.
Qed.

Lemma concat_chop {A} fuel s n cs (rows : list A) :
  1 <= cs -> length rows = n - s -> n - s <= fuel -> concat (chop fuel s n cs rows) = rows.
Proof.
  intros Hcs. revert s rows. induction fuel as [|f IH]; intros s rows Hl Hf; simpl.
  - destruct rows; [reflexivity|simpl in Hl; lia].
  - destruct (Nat.leb_spec n s); simpl.
    + destruct rows; [reflexivity|simpl in Hl; lia].
    + rewrite IH; [apply firstn_skipn| |lia]. rewrite skipn_length. lia.
Qed.

Theorem chunks_concat {A} cs (l : list A) : 1 <= cs -> concat (chunks cs l) = l.
Proof.
  intros H. unfold chunks, slices.
  rewrite <- (chop_slices l (length l) 0 cs). simpl skipn.
  apply concat_chop; lia.
Qed.

Theorem chunks_bound {A} cs (l : list A) :
  1 <= cs -> Forall (fun c => 1 <= length c <= cs) (chunks cs l).
Proof.
  intros H. unfold chunks. apply Forall_map.
  eapply Forall_impl; [|apply (slices_bound (length l) cs H)].
  intros [a b] [[H1 H2] H3]. unfold sub, slice_len in *; simpl in *.
  rewrite firstn_length, skipn_length. lia.
Qed.

(* ---------- parquet ---------- *)
Lemma load_groups_spec {A} cs (file cache : list (list A)) :
  let '(c1, f1) := load_groups cs cache file in
  concat c1 ++ concat f1 = concat cache ++ concat file /\
  (cs <= cache_size c1 \/ f1 = []).
Proof.
  revert cache. induction file as [|g rest IH]; intros cache; simpl.
  - split; [reflexivity|right; reflexivity].
  - destruct (Nat.ltb_spec (cache_size cache) cs) as [Hlt|Hge].
    + specialize (IH (cache ++ [g])). destruct (load_groups cs (cache ++ [g]) rest) as [c1 f1].
      destruct IH as [E D]. split; [|exact D].
      rewrite E, concat_app. simpl. rewrite app_nil_r, <- app_assoc. reflexivity.
    + split; [reflexivity|left; exact Hge].
Qed.

Lemma pop_groups_spec {A} cs (cache : list (list A)) acc :
  let '(taken, lft) := pop_groups cs acc cache in
  concat taken ++ concat lft = concat cache /\
  (cs <= acc + length (concat taken) \/ lft = []).
Proof.
  revert acc. induction cache as [|g rest IH]; intros acc; simpl.
  - split; [reflexivity|right; reflexivity].
  - destruct (Nat.ltb_spec acc cs) as [Hlt|Hge].
    + specialize (IH (acc + length g)). destruct (pop_groups cs (acc + length g) rest) as [taken lft].
      destruct IH as [E D]. simpl. split.
      * rewrite <- app_assoc, E. reflexivity.
      * rewrite app_length. destruct D as [D|D]; [left; lia|right; exact D].
    + simpl. split; [reflexivity|left; lia].
Qed.

Lemma extract_chunk_spec {A} cs (cache : list (list A)) (rest : list A) :
  (cs <= cache_size cache \/ rest = []) ->
  let '(chunk, cache2) := extract_chunk cs cache in
  chunk = firstn cs (concat cache ++ rest) /\
  concat cache2 ++ rest = skipn cs (concat cache ++ rest).
Proof.
  intros Hc. unfold extract_chunk.
  pose proof (pop_groups_spec cs cache 0) as P. destruct (pop_groups cs 0 cache) as [taken lft].
  destruct P as [E D]. simpl in D.
  assert (Hcat : concat (match skipn cs (concat taken) with [] => lft | _ => skipn cs (concat taken) :: lft end)
                 = skipn cs (concat taken) ++ concat lft).
  { destruct (skipn cs (concat taken)); reflexivity. }
  rewrite Hcat, <- E.
  destruct D as [D|D].
  - split.
    + rewrite <- app_assoc, firstn_app. replace (cs - length (concat taken)) with 0 by lia.
      simpl. rewrite app_nil_r. reflexivity.
    + rewrite <- !app_assoc, skipn_app. replace (cs - length (concat taken)) with 0 by lia.
      reflexivity.
  - subst lft. simpl. rewrite !app_nil_r.
    destruct (Nat.le_gt_cases cs (length (concat taken))) as [Hle|Hgt].
    + split.
      * rewrite firstn_app. replace (cs - length (concat taken)) with 0 by lia. simpl.
        rewrite app_nil_r. reflexivity.
      * rewrite skipn_app. replace (cs - length (concat taken)) with 0 by lia. reflexivity.
    + assert (rest = []) as ->.
      { destruct Hc as [Hc|Hc]; [|exact Hc]. unfold cache_size in Hc.
        rewrite <- E in Hc. simpl in Hc. rewrite app_nil_r in Hc. lia. }
      rewrite !app_nil_r. split; reflexivity.
Qed.

Lemma parquet_chop {A} fuel s n cs (cache file : list (list A)) :
  parquet_from fuel s n cs cache file = chop fuel s n cs (concat cache ++ concat file).
Proof.
  revert s cache file. induction fuel as [|f IH]; intros s cache file; simpl; [reflexivity|].
  destruct (Nat.leb_spec n s); [reflexivity|].
  pose proof (load_groups_spec cs file cache) as L.
  destruct (load_groups cs cache file) as [c1 f1]. destruct L as [E D].
  assert (D' : cs <= cache_size c1 \/ concat f1 = []).
  { destruct D as [D|D]; [left; exact D|right; subst; reflexivity]. }
  pose proof (extract_chunk_spec cs c1 (concat f1) D') as X.
  destruct (extract_chunk cs c1) as [chunk c2]. destruct X as [X1 X2].
  rewrite IH, X2, X1, E. reflexivity.
Qed.

(* the Parquet reader yields exactly the chunks of the concatenated row groups, for
   every row-group size list (also groups of size 0, groups larger than a chunk) *)
Theorem parquet_chunks_eq {A} cs (groups : list (list A)) :
  parquet_chunks cs groups = chunks cs (concat groups).
Proof.
  unfold parquet_chunks, chunks, slices. rewrite parquet_chop. simpl.
  rewrite <- (chop_slices (concat groups) (length (concat groups)) 0). reflexivity.
Qed.

(* ---------- array_split ---------- *)
Lemma split_sizes_concat {A} sizes (l : list A) :
  fold_right Nat.add 0 sizes = length l -> concat (split_sizes sizes l) = l.
Proof.
  revert l. induction sizes as [|s r IH]; intros l H; simpl in *.
  - destruct l; [reflexivity|discriminate].
  - rewrite IH; [apply firstn_skipn|]. rewrite skipn_length. lia.
Qed.

Lemma sum_ind_seq r a k :
  fold_right Nat.add 0 (map (fun i => if i <? r then 1 else 0) (seq a k)) = Nat.min (a + k) r - Nat.min a r.
Proof.
  revert a. induction k as [|k IH]; intros a; simpl.
  - rewrite Nat.add_0_r. lia.
  - rewrite IH. destruct (Nat.ltb_spec a r); lia.
Qed.

Lemma sum_add_const q (f : nat -> nat) l :
  fold_right Nat.add 0 (map (fun i => q + f i) l) = length l * q + fold_right Nat.add 0 (map f l).
Proof. induction l as [|x l IH]; simpl; [reflexivity|]. rewrite IH. lia. Qed.

Lemma array_split_sizes_sum n k : 1 <= k -> fold_right Nat.add 0 (array_split_sizes n k) = n.
Proof.
  intros Hk. unfold array_split_sizes. rewrite sum_add_const, seq_length, sum_ind_seq.
  pose proof (Nat.mod_upper_bound n k ltac:(lia)).
  pose proof (Nat.div_mod n k ltac:(lia)). simpl. lia.
Qed.

Theorem array_split_concat {A} k (l : list A) : 1 <= k -> concat (array_split k l) = l.
Proof. intros H. apply split_sizes_concat. apply array_split_sizes_sum. exact H. Qed.

Theorem array_split_length {A} k (l : list A) : length (array_split k l) = k.
Proof.
  unfold array_split, array_split_sizes. generalize (length l) at 1 2 as n. intros n.
  generalize (fun i : nat => n / k + (if i <? n mod k then 1 else 0)) as f. intros f.
  generalize 0 as a. revert l. induction k as [|k IH]; intros l a; simpl; [reflexivity|].
  f_equal. apply IH.
Qed.

(* ---------- groupby ---------- *)
Lemma insert_key_in k x l : In x (insert_key k l) <-> x = k \/ In x l.
Proof.
  induction l as [|y l IH]; simpl.
  - split; intros [H|H]; auto.
  - destruct (Nat.ltb_spec k y); simpl.
    + split; intros [H0|H0]; auto.
    + destruct (Nat.eqb_spec k y); simpl.
      * subst. split; [intros [H0|H0]; auto|intros [H0|[H0|H0]]; auto].
      * rewrite IH. split; [intros [H0|[H0|H0]]; auto|intros [H0|[H0|H0]]; auto].
Qed.

Lemma sorted_keys_in x ks : In x (sorted_keys ks) <-> In x ks.
Proof.
  induction ks as [|k ks IH]; simpl; [tauto|]. rewrite insert_key_in, IH. split; intros [H|H]; auto.
Qed.

Lemma lookup_map {A} p (F : nat -> list A) ks :
  lookup p (map (fun k => (k, F k)) ks) = if existsb (fun k => k =? p) ks then F p else [].
Proof.
  induction ks as [|k ks IH]; simpl; [reflexivity|].
  destruct (Nat.eqb_spec k p); simpl; [subst; reflexivity|]. exact IH.
Qed.

Theorem lookup_groupby {A} (key : A -> nat) p (l : list A) :
  lookup p (groupby key l) = filter (fun x => key x =? p) l.
Proof.
  unfold groupby. rewrite lookup_map.
  destruct (existsb (fun k => k =? p) (sorted_keys (map key l))) eqn:E; [reflexivity|].
  symmetry.
  assert (H : forall x, In x l -> key x =? p = false).
  { intros x Hx. destruct (Nat.eqb_spec (key x) p) as [Heq|]; [|reflexivity].
    exfalso. assert (Hin : In p (sorted_keys (map key l))).
    { apply sorted_keys_in. rewrite <- Heq. apply in_map. exact Hx. }
    assert (Ht : existsb (fun k => k =? p) (sorted_keys (map key l)) = true).
    { apply existsb_exists. exists p. split; [exact Hin|apply Nat.eqb_refl]. }
    congruence. }
  clear E. induction l as [|x l IH]; simpl; [reflexivity|].
  rewrite (H x (or_introl eq_refl)). apply IH. intros y Hy. apply H. right. exact Hy.
Qed.

(* ---------- get_probe bookkeeping ---------- *)
(* chunk-wise selection returns, for non-negative ascending-or-not indices below the total
   length, exactly the indices themselves (as absolute positions), each once *)
Lemma probe_run_spec lens off idx :
  Forall (fun len => (0 <= len)%Z) lens ->
  Permutation (probe_run lens off idx)
    (map (fun i => (i + off)%Z) (filter (fun i => ((0 <=? i) && (i <? fold_right Z.add 0 lens))%Z) idx)).
Proof.
  intros Hl. revert off idx. induction Hl as [|len r Hlen Hr IH]; intros off idx; simpl.
  - replace (filter _ idx) with (@nil Z); [constructor|].
    induction idx as [|i idx IHi]; simpl; [reflexivity|].
    destruct (0 <=? i)%Z eqn:E1; simpl; [|exact IHi].
    destruct (i <? 0)%Z eqn:E2; [lia|exact IHi].
  - rewrite IH. clear IH.
    induction idx as [|i idx IHi]; simpl; [constructor|].
    destruct (0 <=? i)%Z eqn:E1; simpl.
    + destruct (i <? len)%Z eqn:E2; simpl.
      * assert (E3 : (i <? len + fold_right Z.add 0 r)%Z = true).
        { assert (0 <= fold_right Z.add 0 r)%Z.
          { clear -Hr. induction Hr; simpl; lia. } lia. }
        rewrite E3. simpl.
        assert (E4 : (0 <=? i - len)%Z = false) by lia. rewrite E4. simpl.
        constructor. exact IHi.
      * assert (E4 : (0 <=? i - len)%Z = true) by lia. rewrite E4. simpl.
        destruct (i - len <? fold_right Z.add 0 r)%Z eqn:E5.
        -- assert (E3 : (i <? len + fold_right Z.add 0 r)%Z = true) by lia. rewrite E3. simpl.
           etransitivity; [apply Permutation_middle|] || idtac.
           replace (i - len + (off + len))%Z with (i + off)%Z by lia.
           apply Permutation_sym. etransitivity; [|apply Permutation_middle].
           constructor. apply Permutation_sym. exact IHi.
        -- assert (E3 : (i <? len + fold_right Z.add 0 r)%Z = false) by lia. rewrite E3. exact IHi.
    + exact IHi.
Qed.
