From Verif Require Import Prelude Containers ContainersP ContainersAcc.
Open Scope Q_scope.

Lemma pc_add_wf a b r : pc_wf a -> pc_wf b -> pc_add a b = Some r -> pc_wf r.
Proof.
  intros Wa Wb H.
  destruct (add_counts a b r Wa Wb H) as (Hbin & _ & Hnb & Hnp & _).
  rewrite (pc_add_is_spec a b Wa Wb) in H. unfold pc_add_spec in H.
  destruct (pc_compat a b); [|discriminate]. injection H as Hr.
  constructor.
  - rewrite Hbin. apply (pcw_bin _ Wa).
  - rewrite Hnb, Hbin. apply (pcw_nb _ Wa).
  - intros b0 Hb0. rewrite Hnp. rewrite Hnb in Hb0. rewrite <- Hr. simpl.
    rewrite nth_tab by exact Hb0. apply tab_length.
  - intros b0 i Hb0 Hi. rewrite Hnp. rewrite Hnb in Hb0. rewrite Hnp in Hi. rewrite <- Hr. simpl.
    rewrite nth_tab by exact Hb0. rewrite nth_tab by exact Hi. apply tab_length.
Qed.

(* the running total keeps binning / auto / shape of its first operand and every entry is the first
   operand's entry plus the sum of the entries of all further operands, for any number of operands *)
Theorem accum_from_counts : forall l a r,
  pc_wf a -> Forall pc_wf l -> pc_accum_from a l = Some r ->
  pc_wf r /\ pc_bin r = pc_bin a /\ pc_auto r = pc_auto a /\ pc_nb r = pc_nb a /\ pc_np r = pc_np a /\
  forall bi i j, (bi < pc_nb a)%nat -> (i < pc_np a)%nat -> (j < pc_np a)%nat ->
    nth3 (pc_counts r) bi i j == nth3 (pc_counts a) bi i j + qsum (map (fun c => nth3 (pc_counts c) bi i j) l).
Proof.
  induction l as [|x t IH]; intros a r Wa Wl H; cbn [pc_accum_from] in H.
  - inversion H; subst r.
    refine (conj Wa (conj eq_refl (conj eq_refl (conj eq_refl (conj eq_refl _))))).
    intros bi i j _ _ _. cbn [map qsum]. ring.
  - destruct (pc_add a x) as [ax|] eqn:E; [|discriminate].
    inversion Wl as [|x' t' Wx Wt]; subst.
    pose proof (pc_add_wf a x ax Wa Wx E) as Wax.
    destruct (add_counts a x ax Wa Wx E) as (Hbin & Hauto & Hnb & Hnp & Hcell).
    destruct (IH ax r Wax Wt H) as (Wr & Rbin & Rauto & Rnb & Rnp & Rcell).
    refine (conj Wr (conj _ (conj _ (conj _ (conj _ _))))); try congruence.
    intros bi i j Hb Hi Hj. rewrite Rcell by congruence. rewrite Hcell by assumption.
    cbn [map qsum]. ring.
Qed.

Theorem accum_counts : forall l r,
  Forall (fun c => pc_wfb c = true) l -> pc_accum l = Some r ->
  exists a t, l = a :: t /\
  pc_bin r = pc_bin a /\ pc_auto r = pc_auto a /\ pc_nb r = pc_nb a /\ pc_np r = pc_np a /\
  forall bi i j, (bi < pc_nb a)%nat -> (i < pc_np a)%nat -> (j < pc_np a)%nat ->
    nth3 (pc_counts r) bi i j == qsum (map (fun c => nth3 (pc_counts c) bi i j) l).
Proof.
  intros [|a t] r Wl H; [discriminate|]. cbn [pc_accum] in H.
  inversion Wl as [|a' t' Wa Wt]; subst.
  assert (Wt' : Forall pc_wf t).
  { apply Forall_forall. intros c Hc. apply pc_wfb_wf. rewrite Forall_forall in Wt. apply Wt. exact Hc. }
  destruct (accum_from_counts t a r (pc_wfb_wf _ Wa) Wt' H) as (_ & Rbin & Rauto & Rnb & Rnp & Rcell).
  exists a, t. refine (conj eq_refl (conj Rbin (conj Rauto (conj Rnb (conj Rnp _))))).
  intros bi i j Hb Hi Hj. rewrite Rcell by assumption. cbn [map qsum]. reflexivity.
Qed.

(* the running total is defined exactly when every operand is compatible with the first one *)
Theorem accum_defined_iff : forall t a,
  pc_wf a -> Forall pc_wf t ->
  ((exists r, pc_accum_from a t = Some r) <-> Forall (fun c => pc_compat a c = true) t).
Proof.
  induction t as [|x t IH]; intros a Wa Wl; cbn [pc_accum_from].
  - split; [constructor | intros _; eexists; reflexivity].
  - inversion Wl as [|x' t' Wx Wt]; subst.
    unfold pc_add at 1. destruct (pc_compat a x) eqn:E.
    + set (ax := {| pc_bin := pc_bin a; pc_auto := pc_auto a;
                    pc_counts := map2 (map2 (map2 Qplus)) (pc_counts a) (pc_counts x) |}).
      assert (Eadd : pc_add a x = Some ax) by (unfold pc_add; rewrite E; reflexivity).
      pose proof (pc_add_wf a x ax Wa Wx Eadd) as Wax.
      destruct (pc_add_np a x ax Wa Wx Eadd) as [Pax Bax].
      rewrite (IH ax Wax Wt).
      assert (Hc : forall c, pc_compat ax c = pc_compat a c).
      { intros c. unfold pc_compat. rewrite Bax, Pax. reflexivity. }
      split; intros H.
      * constructor; [exact E|]. eapply Forall_impl; [|exact H]. intros c Hcc. rewrite <- Hc. exact Hcc.
      * inversion H as [|y t'' _ Ht]; subst. eapply Forall_impl; [|exact Ht]. intros c Hcc. rewrite Hc. exact Hcc.
    + split.
      * intros [r Hr]. discriminate.
      * intros H. inversion H as [|y t'' Hy _]; subst. congruence.
Qed.
