(* C05 — history independence of what a long-lived process remembers (Model/MemoHistory.v). *)
From Coq Require Import List Arith Bool Lia.
From Verif Require Import MemoHistory.
Import ListNotations.
Set Implicit Arguments.

Section HeapFacts.
  Variable V : Type.

  Lemma hget_hdel_same : forall (h : heap V) i, hget (hdel h i) i = None.
  Proof.
    induction h as [|[j v] t IH]; intros i; simpl; auto.
    destruct (j =? i) eqn:E; simpl; auto.
    rewrite Nat.eqb_sym, E. apply IH.
  Qed.

  Lemma hget_hdel_other : forall (h : heap V) i j, j <> i -> hget (hdel h i) j = hget h j.
  Proof.
    induction h as [|[k v] t IH]; intros i j Hn; simpl; auto.
    destruct (k =? i) eqn:E; simpl.
    - apply Nat.eqb_eq in E; subst k. destruct (j =? i) eqn:E2.
      + apply Nat.eqb_eq in E2; contradiction.
      + apply IH; auto.
    - destruct (j =? k); auto.
  Qed.

  Lemma hget_hdel_some : forall (h : heap V) i j v, hget (hdel h i) j = Some v -> j <> i /\ hget h j = Some v.
  Proof.
    intros h i j v H. destruct (Nat.eq_dec j i) as [->|Hn].
    - rewrite hget_hdel_same in H; discriminate.
    - split; auto. rewrite hget_hdel_other in H; auto.
  Qed.
End HeapFacts.

Section Proofs.
  Variables V P A R : Type.
  Variable prep : V -> P.
  Variable finish : P -> A -> R.
  Variable veqb : V -> V -> bool.
  (* the key comparison of a value-keyed memo only has to be sound (a miss recomputes) *)
  Hypothesis veqb_sound : forall a b, veqb a b = true -> a = b.

  Definition compute (v : V) (a : A) : R := finish (prep v) a.

  Notation run_ := (@run V P A R finish).
  Notation nomemo := (no_memo (P:=P) prep).
  Notation vmemo := (value_memo prep veqb).
  Notation imemo := (id_memo (V:=V) prep).
  Notation imemo_inv := (id_memo_inv (V:=V) prep).

  (* ---------------- general facts about spec ---------------- *)
  Lemma spec_app : forall (c : V -> A -> R) es1 es2 h,
    spec c h (es1 ++ es2) = spec c h es1 ++ spec c (heap_after h es1) es2.
  Proof.
    induction es1 as [|e t IH]; intros es2 h; simpl; auto.
    destruct e as [i v|i|i a]; simpl; auto.
    destruct (hget h i); simpl; auto. f_equal; auto.
  Qed.

  Lemma spec_new_object : forall (c : V -> A -> R) h i v a, spec c h [Alloc i v; Use i a] = [c v a].
  Proof. intros; simpl. rewrite Nat.eqb_refl. reflexivity. Qed.

  Lemma wf_app : forall es1 es2 (h : heap V),
    wf (A:=A) h (es1 ++ es2) = wf h es1 && wf (heap_after h es1) es2.
  Proof.
    induction es1 as [|e t IH]; intros es2 h; simpl; auto.
    destruct e as [i v|i|i a]; simpl; destruct (hget h i); auto.
  Qed.

  (* ---------------- no memo ---------------- *)
  Lemma no_memo_spec : forall es h tb, run_ nomemo tb h es = spec compute h es.
  Proof.
    induction es as [|e t IH]; intros h tb; simpl; auto.
    destruct e as [i v|i|i a]; simpl; auto.
    destruct (hget h i); simpl; auto. f_equal; auto.
  Qed.

  (* ---------------- memo keyed by the value ---------------- *)
  Definition vt_ok (tb : list (V * P)) : Prop := forall v p, vfind veqb tb v = Some p -> p = prep v.

  Lemma value_memo_spec : forall es h tb, vt_ok tb -> run_ vmemo tb h es = spec compute h es.
  Proof.
    induction es as [|e t IH]; intros h tb Hok; simpl; auto.
    destruct e as [i v|i|i a]; simpl; auto.
    destruct (hget h i) as [v|]; simpl; auto.
    destruct (vfind veqb tb v) as [p|] eqn:E.
    - rewrite (Hok _ _ E). f_equal. apply IH; auto.
    - f_equal. apply IH. intros w q Hq. simpl in Hq.
      destruct (veqb w v) eqn:Ew.
      + apply veqb_sound in Ew; subst w. inversion Hq; auto.
      + apply Hok; auto.
  Qed.

  Theorem value_memo_history_free : forall es, run_ vmemo [] [] es = spec compute [] es.
  Proof. intros. apply value_memo_spec. intros v p H; discriminate. Qed.

  (* ---------------- memo keyed by the identity ---------------- *)
  Lemma ifind_idrop_some : forall (tb : list (nat * P)) i j p, ifind (idrop tb i) j = Some p -> j <> i /\ ifind tb j = Some p.
  Proof.
    induction tb as [|[k q] t IH]; intros i j p H; simpl in *; try discriminate.
    destruct (k =? i) eqn:E; simpl in H.
    - apply Nat.eqb_eq in E; subst k. destruct (IH _ _ _ H) as [Hn Hf]. split; auto.
      destruct (j =? i) eqn:E2; auto. apply Nat.eqb_eq in E2; contradiction.
    - destruct (j =? k) eqn:E2.
      + apply Nat.eqb_eq in E2; subst j. split; auto. intros ->. rewrite Nat.eqb_refl in E; discriminate.
      + apply IH; auto.
  Qed.

  (* ... invalidated when the object is discarded: every entry belongs to a live object and holds its derived data *)
  Definition it_ok (tb : list (nat * P)) (h : heap V) : Prop :=
    forall i p, ifind tb i = Some p -> exists v, hget h i = Some v /\ p = prep v.

  Lemma id_memo_inv_spec : forall es h tb, it_ok tb h -> wf (A:=A) h es = true -> run_ imemo_inv tb h es = spec compute h es.
  Proof.
    induction es as [|e t IH]; intros h tb Hok Hwf; simpl; auto.
    destruct e as [i v|i|i a]; simpl in *.
    - destruct (hget h i) eqn:Eh; try discriminate. apply IH; auto.
      intros j p Hj. destruct (Hok _ _ Hj) as [w [Hw Hp]]. exists w; split; auto. simpl.
      destruct (j =? i) eqn:E; auto. apply Nat.eqb_eq in E; subst j. rewrite Eh in Hw; discriminate.
    - destruct (hget h i) eqn:Eh; try discriminate. apply IH; auto.
      intros j p Hj. apply ifind_idrop_some in Hj. destruct Hj as [Hn Hj].
      destruct (Hok _ _ Hj) as [w [Hw Hp]]. exists w; split; auto. rewrite hget_hdel_other; auto.
    - destruct (hget h i) as [v|] eqn:Eh; try discriminate.
      unfold id_use. destruct (ifind tb i) as [p|] eqn:E.
      + destruct (Hok _ _ E) as [w [Hw Hp]]. rewrite Eh in Hw; inversion Hw; subst w p.
        f_equal. apply IH; auto.
      + f_equal. apply IH; auto. intros j p Hj. simpl in Hj. destruct (j =? i) eqn:E2.
        * apply Nat.eqb_eq in E2; subst j. inversion Hj; subst p. exists v; auto.
        * apply Hok; auto.
  Qed.

  Theorem id_memo_invalidated_history_free : forall es, wf (V:=V) (A:=A) [] es = true -> run_ imemo_inv [] [] es = spec compute [] es.
  Proof. intros. apply id_memo_inv_spec; auto. intros i p H'; discriminate. Qed.

  (* ... never invalidated: right as long as the allocator never hands an identity out twice *)
  Lemma id_memo_fresh_spec : forall es h tb used,
    (forall i p, ifind tb i = Some p -> In i used) ->
    (forall i p v, ifind tb i = Some p -> hget h i = Some v -> p = prep v) ->
    (forall i v, hget h i = Some v -> In i used) ->
    NoDup (alloc_ids es) -> (forall i, In i (alloc_ids es) -> ~ In i used) ->
    wf (A:=A) h es = true -> run_ imemo tb h es = spec compute h es.
  Proof.
    induction es as [|e t IH]; intros h tb used H1 H2 H3 Hnd Hfr Hwf; simpl; auto.
    destruct e as [i v|i|i a]; simpl in *.
    - destruct (hget h i) eqn:Eh; try discriminate. inversion Hnd; subst.
      apply IH with (used := i :: used); auto.
      + intros j p Hj; right; eauto.
      + intros j p w Hj Hw. simpl in Hw. destruct (j =? i) eqn:E.
        * apply Nat.eqb_eq in E; subst j. exfalso. apply (Hfr i); auto. eapply H1; eauto.
        * eapply H2; eauto.
      + intros j w Hw. simpl in Hw. destruct (j =? i) eqn:E.
        * apply Nat.eqb_eq in E; left; auto.
        * right; eauto.
      + intros j Hj [->|Hu]; auto. apply (Hfr j); auto.
    - destruct (hget h i) eqn:Eh; try discriminate. apply IH with (used := used); auto.
      + intros j p w Hj Hw. apply hget_hdel_some in Hw. destruct Hw; eapply H2; eauto.
      + intros j w Hw. apply hget_hdel_some in Hw. destruct Hw; eauto.
    - destruct (hget h i) as [v|] eqn:Eh; try discriminate.
      unfold id_use. destruct (ifind tb i) as [p|] eqn:E.
      + rewrite (H2 _ _ _ E Eh). f_equal. eapply IH; eauto.
      + f_equal. apply IH with (used := used); auto.
        * intros j p Hj. simpl in Hj. destruct (j =? i) eqn:E2; eauto.
          apply Nat.eqb_eq in E2; subst j; eauto.
        * intros j p w Hj Hw. simpl in Hj. destruct (j =? i) eqn:E2; eauto.
          apply Nat.eqb_eq in E2; subst j. rewrite Eh in Hw. inversion Hj; inversion Hw; subst; auto.
  Qed.

  Theorem id_memo_without_reuse_history_free : forall es,
    NoDup (alloc_ids es) -> wf (V:=V) (A:=A) [] es = true -> run_ imemo [] [] es = spec compute [] es.
  Proof.
    intros es Hnd Hwf. apply id_memo_fresh_spec with (used := []); auto.
    - intros i p H; discriminate.
    - intros i p v H; discriminate.
    - intros i v H; discriminate.
  Qed.

  (* ... and wrong as soon as the identity of a discarded object is handed out again: the history
     create a, measure, discard, create b (at the address of a), measure  answers the second measurement with a's data *)
  Definition reuse_history (a b : V) (x : A) : list (@event V A) := [Alloc 0 a; Use 0 x; Free 0; Alloc 0 b; Use 0 x].

  Theorem id_memo_reuse_refuted : forall (a b : V) (x : A),
    compute a x <> compute b x ->
    wf [] (reuse_history a b x) = true /\
    has_dup (alloc_ids (reuse_history a b x)) = true /\
    run_ imemo [] [] (reuse_history a b x) = [compute a x; compute a x] /\
    spec compute [] (reuse_history a b x) = [compute a x; compute b x] /\
    run_ imemo [] [] (reuse_history a b x) <> spec compute [] (reuse_history a b x).
  Proof.
    intros a b x Hd. unfold reuse_history.
    assert (Hr : run_ imemo [] [] [Alloc 0 a; Use 0 x; Free 0; Alloc 0 b; Use 0 x] = [compute a x; compute a x]) by reflexivity.
    assert (Hs : spec compute [] [Alloc 0 a; Use 0 x; Free 0; Alloc 0 b; Use 0 x] = [compute a x; compute b x]) by reflexivity.
    repeat split; auto.
    rewrite Hr, Hs. intros H; inversion H; contradiction.
  Qed.

  (* ---------------- worker count: the parent after ANY history against a fresh worker ---------------- *)
  Lemma fresh_worker_no_memo : forall j v a, in_fresh_worker finish nomemo j v a = [compute v a].
  Proof. intros; unfold in_fresh_worker. rewrite no_memo_spec. apply spec_new_object. Qed.
  Lemma fresh_worker_value_memo : forall j v a, in_fresh_worker finish vmemo j v a = [compute v a].
  Proof. intros; unfold in_fresh_worker. rewrite value_memo_history_free. apply spec_new_object. Qed.
  Lemma fresh_worker_id_memo : forall j v a, in_fresh_worker finish imemo j v a = [compute v a].
  Proof. intros; unfold in_fresh_worker; simpl. rewrite Nat.eqb_refl. reflexivity. Qed.
  Lemma fresh_worker_id_memo_inv : forall j v a, in_fresh_worker finish imemo_inv j v a = [compute v a].
  Proof. intros; unfold in_fresh_worker; simpl. rewrite Nat.eqb_refl. reflexivity. Qed.

  (* one worker (the parent, which has seen the history es and remembers) returns, for a new object of value v, what a
     worker process without history returns: for every history, every identity the allocator picks *)
  Theorem no_memo_worker_count_free : forall es i j v a,
    after_history finish nomemo es i v a = spec compute [] es ++ in_fresh_worker finish nomemo j v a.
  Proof.
    intros. unfold after_history. rewrite no_memo_spec, spec_app, spec_new_object, fresh_worker_no_memo. reflexivity.
  Qed.

  Theorem value_memo_worker_count_free : forall es i j v a,
    after_history finish vmemo es i v a = spec compute [] es ++ in_fresh_worker finish vmemo j v a.
  Proof.
    intros. unfold after_history. rewrite value_memo_history_free, spec_app, spec_new_object, fresh_worker_value_memo. reflexivity.
  Qed.

  Theorem id_memo_invalidated_worker_count_free : forall es i j v a,
    wf [] (es ++ [Alloc i v; Use i a]) = true ->
    after_history finish imemo_inv es i v a = spec compute [] es ++ in_fresh_worker finish imemo_inv j v a.
  Proof.
    intros. unfold after_history. rewrite id_memo_invalidated_history_free; auto.
    rewrite spec_app, spec_new_object, fresh_worker_id_memo_inv. reflexivity.
  Qed.

  Theorem id_memo_without_reuse_worker_count_free : forall es i j v a,
    NoDup (alloc_ids (es ++ [Alloc i v; Use i a])) -> wf [] (es ++ [Alloc i v; Use i a]) = true ->
    after_history finish imemo es i v a = spec compute [] es ++ in_fresh_worker finish imemo j v a.
  Proof.
    intros. unfold after_history. rewrite id_memo_without_reuse_history_free; auto.
    rewrite spec_app, spec_new_object, fresh_worker_id_memo. reflexivity.
  Qed.

  (* the identity-keyed memo that is never invalidated: a history of ONE discarded object is enough for the parent to
     answer differently from a fresh worker *)
  Theorem id_memo_worker_count_refuted : forall (a b : V) (x : A),
    compute a x <> compute b x ->
    exists es i,
      wf [] (es ++ [Alloc i b; Use i x]) = true /\
      forall j, after_history finish imemo es i b x <> spec compute [] es ++ in_fresh_worker finish imemo j b x.
  Proof.
    intros a b x Hd. exists [Alloc 0 a; Use 0 x; Free 0], 0. split; [reflexivity|].
    intros j. rewrite fresh_worker_id_memo.
    assert (Hr : after_history finish imemo [Alloc 0 a; Use 0 x; Free 0] 0 b x = [compute a x; compute a x]) by reflexivity.
    assert (Hs : spec compute [] [Alloc 0 a; Use 0 x; Free 0] = [compute a x]) by reflexivity.
    rewrite Hr, Hs. simpl. intros H; inversion H; contradiction.
  Qed.
End Proofs.

(* ---------------- the checker of logged histories is sound ---------------- *)
Lemma spec_as_map : forall (R : Type) (f : nat -> nat -> R) es h,
  spec f h es = map (fun k => f (fst k) (snd k)) (spec (fun (v a : nat) => (v, a)) h es).
Proof.
  induction es as [|e t IH]; intros h; simpl; auto.
  destruct e as [i v|i|i a]; simpl; auto.
  destruct (hget h i); simpl; auto. f_equal; auto.
Qed.

Lemma keyeqb_eq : forall p q, keyeqb p q = true <-> p = q.
Proof.
  intros [a b] [c d]; unfold keyeqb; simpl. rewrite andb_true_iff, !Nat.eqb_eq. split.
  - intros [-> ->]; auto.
  - intros H; inversion H; auto.
Qed.

Definition lookup (obs : list ((nat * nat) * nat)) (v a : nat) : nat :=
  match find (fun o => keyeqb (fst o) (v, a)) obs with
  | Some o => snd o
  | None => 0
  end.

Lemma functional_lookup : forall obs, functionalb obs = true ->
  forall o, In o obs -> lookup obs (fst (fst o)) (snd (fst o)) = snd o.
Proof.
  intros obs Hf o Hin. unfold lookup. rewrite <- surjective_pairing.
  destruct (find (fun o' => keyeqb (fst o') (fst o)) obs) as [o'|] eqn:E.
  - apply find_some in E. destruct E as [Hin' Hk].
    unfold functionalb in Hf. rewrite forallb_forall in Hf. specialize (Hf _ Hin').
    rewrite forallb_forall in Hf. specialize (Hf _ Hin). rewrite Hk in Hf. simpl in Hf.
    apply Nat.eqb_eq; auto.
  - exfalso. pose proof (find_none _ _ E _ Hin) as Hn. simpl in Hn.
    assert (keyeqb (fst o) (fst o) = true) by (apply keyeqb_eq; auto). congruence.
Qed.

Lemma map_lookup_combine : forall (keys : list (nat * nat)) (outs : list nat) (f : nat -> nat -> nat),
  length keys = length outs ->
  (forall o, In o (combine keys outs) -> f (fst (fst o)) (snd (fst o)) = snd o) ->
  map (fun k => f (fst k) (snd k)) keys = outs.
Proof.
  induction keys as [|k t IH]; intros [|o outs] f Hl Hf; simpl in *; try discriminate; auto.
  f_equal.
  - apply (Hf (k, o)); auto.
  - apply IH; auto.
Qed.

(* a log the checker accepts IS a history of the allocator model whose results are a function of (value, arguments) —
   i.e. there is a `compute` for which the log is exactly the statement `spec` *)
Theorem c05_history_case_sound : forall es outs,
  c05_history_case es outs = 0 -> wf [] es = true /\ exists f : nat -> nat -> nat, outs = spec f [] es.
Proof.
  intros es outs H. unfold c05_history_case in H.
  destruct (wf [] es) eqn:Hwf; simpl in H; try discriminate.
  destruct (length (used_keys es) =? length outs) eqn:Hl; simpl in H; try discriminate.
  destruct (functionalb (combine (used_keys es) outs)) eqn:Hf; simpl in H; try discriminate.
  split; auto. apply Nat.eqb_eq in Hl.
  exists (lookup (combine (used_keys es) outs)).
  rewrite spec_as_map. symmetry. apply map_lookup_combine; auto.
  intros o Ho. apply functional_lookup; auto.
Qed.

(* and it rejects what an identity-keyed memo produces under reuse *)
Example c05_history_case_examples :
  c05_history_case [Alloc 0 7; Use 0 1; Free 0; Alloc 0 8; Use 0 1; Alloc 1 7; Use 1 1] [5; 6; 5] = 0 /\
  c05_history_reuses [Alloc 0 7; Use 0 1; Free 0; Alloc 0 8; Use 0 1; Alloc 1 7; Use 1 1] = true /\
  c05_history_case [Alloc 0 7; Use 0 1; Free 0; Alloc 0 8; Use 0 1; Alloc 1 8; Use 1 1] [5; 5; 6] = 3 /\
  c05_history_case [Alloc 0 7; Alloc 0 8] [] = 1 /\
  c05_history_case [Alloc 0 7; Use 0 1] [] = 2.
Proof. vm_compute. repeat split; reflexivity. Qed.
