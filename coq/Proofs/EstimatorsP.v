(* Proofs for Model/Estimators.v (C04 and the estimator part of C03).  Over Q, no axioms. *)
From Verif Require Import Prelude Jackknife JackknifeP Estimators.
From Coq Require Import Setoid Morphisms Lqa Qfield.
Open Scope Q_scope.

(* ================================================================== the estimators *)
(* Landy-Szalay as coded = as documented (no side condition: same numerator, same denominator) *)
Theorem ls_def dd dr rd rr : ls dd dr rd rr == (dd - dr - rd + rr) / rr.
Proof. unfold ls, Qdiv. ring. Qed.

(* Davis-Peebles as coded = DD/mixed - 1 *)
Theorem dp_def dd mixed : ~ mixed == 0 -> dp dd mixed == dd / mixed - 1.
Proof. intros H. unfold dp. field. exact H. Qed.

(* which estimator CorrFunc.sample applies, and with which arguments *)
Theorem estimate_cases dd dr rd rr :
  (forall r d x, rr = Some r -> dr = Some d -> rd = Some x -> estimate dd dr rd rr = ls dd d x r)
  /\ (forall r d, rr = Some r -> dr = Some d -> rd = None -> estimate dd dr rd rr = ls dd d d r)   (* rd defaults to dr *)
  /\ (forall x, rr = None -> rd = Some x -> estimate dd dr rd rr = dp dd x)                       (* rd preferred *)
  /\ (forall d, rr = None -> rd = None -> dr = Some d -> estimate dd dr rd rr = dp dd d).
Proof. repeat split; intros; subst; reflexivity. Qed.

Theorem uses_ls_iff_rr {A} (rr : option A) : uses_ls rr = true <-> rr <> None.
Proof. destruct rr; simpl; split; intros H; congruence. Qed.

(* the coded estimator equals the documented one wherever the documented one is defined *)
Definition mixed_nonzero (dr rd rr : option Q) : Prop :=
  match rr with Some _ => True | None => ~ opt_or rd (opt_or dr 0) == 0 end.

Theorem estimate_is_doc dd dr rd rr :
  mixed_nonzero dr rd rr -> estimate dd dr rd rr == estimate_doc dd dr rd rr.
Proof.
  unfold estimate, estimate_doc, mixed_nonzero. destruct rr as [r|]; intros H.
  - unfold ls_doc. apply ls_def.
  - unfold dp_doc. apply dp_def. exact H.
Qed.

(* option-wise equality of estimator arguments *)
Definition oeq (x y : option Q) : Prop :=
  match x, y with Some a, Some b => a == b | None, None => True | _, _ => False end.

Lemma opt_or_comp x y a b : oeq x y -> a == b -> opt_or x a == opt_or y b.
Proof. destruct x, y; simpl; intros H E; try contradiction; assumption. Qed.

Lemma estimate_doc_comp dd dd' dr dr' rd rd' rr rr' :
  dd == dd' -> oeq dr dr' -> oeq rd rd' -> oeq rr rr' ->
  estimate_doc dd dr rd rr == estimate_doc dd' dr' rd' rr'.
Proof.
  intros Hdd Hdr Hrd Hrr. unfold estimate_doc.
  assert (Ed : opt_or dr 0 == opt_or dr' 0) by (apply opt_or_comp; [exact Hdr|reflexivity]).
  assert (Ex : opt_or rd (opt_or dr 0) == opt_or rd' (opt_or dr' 0)) by (apply opt_or_comp; assumption).
  destruct rr as [r|], rr' as [r'|]; simpl in Hrr; try contradiction; cbv zeta.
  - unfold ls_doc. rewrite Ex, Ed, Hdd, Hrr. reflexivity.
  - unfold dp_doc. rewrite Ex, Hdd. reflexivity.
Qed.

(* ================================================================== normalisation term *)
(* each term of the estimator = total pair count / product of the two total weights
   (cross) or / half the squared total weight (auto) *)
Theorem norm_term_cross (M : mat) u v :
  total M / total (weights_array false u v) == total M / (qsum u * qsum v).
Proof. rewrite weights_total. reflexivity. Qed.

Theorem norm_term_auto (M : mat) w :
  total M / total (weights_array true w w) == total M / ((1 # 2) * (qsum w * qsum w)).
Proof. rewrite weights_total. simpl. rewrite upper_half_sum_sq. reflexivity. Qed.

Theorem norm_term auto (M : mat) u v :
  total M / total (weights_array auto u v) == total M / norm_denominator auto u v.
Proof. rewrite weights_total. reflexivity. Qed.

(* ================================================================== sample k = recount *)
(* one bin; a pair-count term is (auto, counts matrix, weights 1, weights 2) *)
Definition term := (bool * mat * list Q * list Q)%type.
Definition t_wf (N : nat) (x : term) : Prop :=
  let '(a, M, u, v) := x in square N M /\ length u = N /\ length v = N.
(* what NormalisedCounts.sample_patch_sum computes for sample k / for the value *)
Definition t_sample (k : nat) (x : term) : Q :=
  let '(a, M, u, v) := x in sample M k / sample (weights_array a u v) k.
Definition t_value (x : term) : Q :=
  let '(a, M, u, v) := x in total M / total (weights_array a u v).
(* the documented term of the data with patch k deleted / of the full data *)
Definition t_recount (k : nat) (x : term) : Q :=
  let '(a, M, u, v) := x in nc_stat a (del k M) (remove_nth k u) (remove_nth k v).
Definition t_doc (x : term) : Q := let '(a, M, u, v) := x in nc_stat a M u v.
Definition owf (N : nat) (x : option term) : Prop := match x with Some t => t_wf N t | None => True end.

Lemma t_sample_recount N k x : t_wf N x -> (k < N)%nat -> t_sample k x == t_recount k x.
Proof.
  destruct x as [[[a M] u] v]. intros [HM [Hu Hv]] Hk.
  apply (normalised_sample_is_recount N); assumption.
Qed.

Lemma t_value_doc x : t_value x == t_doc x.
Proof. destruct x as [[[a M] u] v]. apply normalised_data_is_doc. Qed.

Lemma oeq_map (f g : term -> Q) (x : option term) (P : term -> Prop) :
  (forall t, P t -> f t == g t) -> match x with Some t => P t | None => True end ->
  oeq (option_map f x) (option_map g x).
Proof. intros H W. destruct x as [t|]; simpl; [apply H; exact W|exact I]. Qed.

(* C03 for correlation functions: jackknife sample k of CorrFunc.sample() (the coded estimator
   on total - row - col + diag of counts and weight products) is the documented estimator of
   the documented normalised pair counts recomputed WITHOUT PATCH k, for every available
   combination of dr / rd / rr *)
Theorem corr_sample_is_recount N k dd dr rd rr :
  (k < N)%nat -> t_wf N dd -> owf N dr -> owf N rd -> owf N rr ->
  mixed_nonzero (option_map (t_sample k) dr) (option_map (t_sample k) rd) (option_map (t_sample k) rr) ->
  estimate (t_sample k dd) (option_map (t_sample k) dr) (option_map (t_sample k) rd) (option_map (t_sample k) rr)
  == estimate_doc (t_recount k dd) (option_map (t_recount k) dr) (option_map (t_recount k) rd)
                  (option_map (t_recount k) rr).
Proof.
  intros Hk Wdd Wdr Wrd Wrr NZ. rewrite estimate_is_doc by exact NZ.
  apply estimate_doc_comp.
  - apply (t_sample_recount N); assumption.
  - apply (oeq_map _ _ dr (t_wf N)); [intros t Ht; apply (t_sample_recount N); assumption | exact Wdr].
  - apply (oeq_map _ _ rd (t_wf N)); [intros t Ht; apply (t_sample_recount N); assumption | exact Wrd].
  - apply (oeq_map _ _ rr (t_wf N)); [intros t Ht; apply (t_sample_recount N); assumption | exact Wrr].
Qed.

(* C04 for the value: coded estimator of the coded normalisation = documented formula *)
Theorem corr_value_is_doc dd dr rd rr :
  mixed_nonzero (option_map t_value dr) (option_map t_value rd) (option_map t_value rr) ->
  estimate (t_value dd) (option_map t_value dr) (option_map t_value rd) (option_map t_value rr)
  == estimate_doc (t_doc dd) (option_map t_doc dr) (option_map t_doc rd) (option_map t_doc rr).
Proof.
  intros NZ. rewrite estimate_is_doc by exact NZ.
  apply estimate_doc_comp.
  - apply t_value_doc.
  - apply (oeq_map _ _ dr (fun _ => True)); [intros t _; apply t_value_doc | destruct dr; exact I].
  - apply (oeq_map _ _ rd (fun _ => True)); [intros t _; apply t_value_doc | destruct rd; exact I].
  - apply (oeq_map _ _ rr (fun _ => True)); [intros t _; apply t_value_doc | destruct rr; exact I].
Qed.

(* ================================================================== n(z) *)
Lemma qsgn_pos x : 0 < x -> qsgn x = 1%Z.
Proof. intros H. unfold qsgn. apply Qltb_lt in H. rewrite H. reflexivity. Qed.
Lemma qsgn_neg x : x < 0 -> qsgn x = (-1)%Z.
Proof.
  intros H. unfold qsgn. destruct (Qltb 0 x) eqn:E; [apply Qltb_lt in E; lra|].
  apply Qltb_lt in H. rewrite H. reflexivity.
Qed.
Lemma qsgn_zero x : x == 0 -> qsgn x = 0%Z.
Proof.
  intros H. unfold qsgn. destruct (Qltb 0 x) eqn:E; [apply Qltb_lt in E; lra|].
  destruct (Qltb x 0) eqn:E'; [apply Qltb_lt in E'; lra|reflexivity].
Qed.
Lemma qsgn_cases x : (0 < x /\ qsgn x = 1%Z) \/ (x == 0 /\ qsgn x = 0%Z) \/ (x < 0 /\ qsgn x = (-1)%Z).
Proof.
  destruct (Q_dec 0 x) as [[H|H]|H].
  - left. split; [exact H|apply qsgn_pos; exact H].
  - right. right. split; [exact H|apply qsgn_neg; exact H].
  - right. left. split; [symmetry; exact H|apply qsgn_zero; symmetry; exact H].
Qed.

Lemma div_pos_sign w r : 0 < r -> qsgn (w / r) = qsgn w.
Proof.
  intros Hr. assert (Hi : 0 < / r) by (apply Qinv_lt_0_compat; exact Hr).
  destruct (qsgn_cases w) as [[H E]|[[H E]|[H E]]]; rewrite E.
  - apply qsgn_pos. unfold Qdiv. apply Qmult_lt_0_compat; assumption.
  - apply qsgn_zero. rewrite H. unfold Qdiv. ring.
  - apply qsgn_neg. unfold Qdiv.
    assert (0 < (- w) * / r) by (apply Qmult_lt_0_compat; [lra|exact Hi]). lra.
Qed.

(* nz = w_sp / sqrt(dz^2 w_ss w_pp): for ANY r that is the positive root of the radicand,
   w_sp / r satisfies the squared relation and has the sign of w_sp ... *)
Theorem nz_def dz wsp wss wpp r :
  0 < r -> r * r == nz_radicand dz wss wpp ->
  let nz := wsp / r in
  nz * nz * nz_radicand dz wss wpp == wsp * wsp /\ qsgn nz = qsgn wsp.
Proof.
  intros Hr Hrr nz. split.
  - unfold nz. rewrite <- Hrr. field. lra.
  - apply div_pos_sign. exact Hr.
Qed.

(* ... and the squared relation together with the sign determines the value, so comparing in
   squared form loses nothing *)
Theorem nz_sq_unique D w x y :
  0 < D -> x * x * D == w * w -> y * y * D == w * w -> qsgn x = qsgn y -> x == y.
Proof.
  intros HD Hx Hy Hs.
  assert (E : (x * x - y * y) * D == 0) by lra.
  apply Qmult_integral in E. destruct E as [E|E]; [|lra].
  assert (P : (x - y) * (x + y) == 0) by lra.
  apply Qmult_integral in P. destruct P as [P|P]; [lra|].
  destruct (qsgn_cases x) as [[H1 E1]|[[H1 E1]|[H1 E1]]], (qsgn_cases y) as [[H2 E2]|[[H2 E2]|[H2 E2]]];
    rewrite E1, E2 in Hs; try discriminate; lra.
Qed.

(* absent autocorrelations count as 1: the radicand reduces accordingly *)
Theorem nz_no_autocorr dz : nz_radicand dz 1 1 == dz * dz.
Proof. unfold nz_radicand. ring. Qed.

(* the checker's relation at tolerance 0 is exactly the squared form with the sign *)
Theorem nz_rel_exact dz wsp wss wpp nz :
  nz_rel 0 dz wsp wss wpp nz = true <->
  (qsgn nz = qsgn wsp /\ nz * nz * nz_radicand dz wss wpp == wsp * wsp).
Proof.
  unfold nz_rel, Qclose. rewrite andb_true_iff, Z.eqb_eq, Qleb_le. split; intros [H1 H2]; split; try exact H1.
  - assert (A : Qabs (nz * nz * nz_radicand dz wss wpp - wsp * wsp) <= 0) by lra.
    apply Qabs_Qle_condition in A. lra.
  - rewrite H2. setoid_replace (wsp * wsp - wsp * wsp) with 0 by ring. simpl. lra.
Qed.

(* ================================================================== normalisation *)
Lemma map2_oscale_integral c dz (data : list oq) :
  ointegral dz (oscale c data) == ointegral dz data / c.
Proof.
  unfold ointegral, oscale. revert data; induction dz as [|d dz IH]; intros data.
  - simpl. unfold Qdiv. ring.
  - destruct data as [|x data]; simpl; [unfold Qdiv; ring|].
    rewrite IH. destruct x as [q|]; simpl; unfold Qdiv; ring.
Qed.

(* RedshiftData.normalised(): the integral over the binning (finite entries) becomes 1 *)
Theorem nz_normalised_integral dz (data : list oq) :
  ~ ointegral dz data == 0 -> ointegral dz (nz_normalised dz data) == 1.
Proof.
  intros H. unfold nz_normalised. rewrite map2_oscale_integral. field. exact H.
Qed.

(* HistData.normalised(): whatever the width correction does, the result integrates to 1 *)
Theorem hist_normalised_integral edges dz (data : list oq) :
  ~ hist_norm edges dz data == 0 -> ointegral dz (hist_normalised edges dz data) == 1.
Proof.
  intros H. unfold hist_normalised, hist_norm in *. rewrite map2_oscale_integral. field. exact H.
Qed.

(* all-finite version on plain rationals: sum_b dz_b * normalised_b = 1 *)
Lemma integral_scale c dz (data : list Q) :
  integral dz (map (fun x => x / c) data) == integral dz data / c.
Proof.
  unfold integral. revert data; induction dz as [|d dz IH]; intros data.
  - simpl. unfold Qdiv. ring.
  - destruct data as [|x data]; simpl; [unfold Qdiv; ring|].
    rewrite IH. unfold Qdiv. ring.
Qed.

Theorem nz_normalised_integral_q dz (data : list Q) :
  ~ integral dz data == 0 -> integral dz (nz_normalised_q dz data) == 1.
Proof.
  intros H. unfold nz_normalised_q. rewrite integral_scale. field. exact H.
Qed.

(* samples are divided by the same norm as the data: scaling commutes with the integral *)
Theorem normalised_samples_same_factor c dz (row : list oq) :
  ointegral dz (oscale c row) == ointegral dz row / c.
Proof. apply map2_oscale_integral. Qed.

From Coq Require Import Lia.

(* ------------------------------------------------ histories of public calls *)
Theorem run_calls_erase_observers h s : run_calls h s = run_calls (filter is_set h) s.
Proof.
  unfold run_calls. revert s. induction h as [|c h IH]; intro s; simpl; [reflexivity|].
  destruct c as [o k|k i j v]; simpl; apply IH.
Qed.

Theorem run_calls_observers_only h s : observers_only h = true -> run_calls h s = s.
Proof.
  unfold run_calls, observers_only. revert s. induction h as [|c h IH]; intros s H; simpl in *; [reflexivity|].
  apply andb_prop in H. destruct H as [Hc Hh]. destruct c as [o k|k i j v]; simpl in *; [apply IH; exact Hh|discriminate].
Qed.

Theorem run_calls_app h1 h2 s : run_calls (h1 ++ h2) s = run_calls h2 (run_calls h1 s).
Proof. unfold run_calls. apply fold_left_app. Qed.

(* CorrFunc.sample() after any history = CorrFunc.sample() after its set_patch_pair calls alone;
   after read-only calls alone = CorrFunc.sample() of the containers as constructed *)
Theorem sample_after_history N h s :
  cfs_data (run_calls h s) = cfs_data (run_calls (filter is_set h) s)
  /\ cfs_samples N (run_calls h s) = cfs_samples N (run_calls (filter is_set h) s).
Proof. rewrite <- run_calls_erase_observers. split; reflexivity. Qed.

Theorem sample_after_observers N h s : observers_only h = true ->
  cfs_data (run_calls h s) = cfs_data s /\ cfs_samples N (run_calls h s) = cfs_samples N s.
Proof. intro H. rewrite (run_calls_observers_only h s H). split; reflexivity. Qed.

(* set_patch_pair stores v[b] at [b, i, j] and nothing else *)
Lemma nth_set_nth_eq {A} k (x d : A) l : (k < length l)%nat -> nth k (set_nth k x l) d = x.
Proof.
  revert k. induction l as [|a l IH]; intros k H; simpl in *; [lia|].
  destruct k; simpl; [reflexivity|]. apply IH. lia.
Qed.
Lemma nth_set_nth_neq {A} k k' (x d : A) l : k <> k' -> nth k' (set_nth k x l) d = nth k' l d.
Proof.
  revert k k'. induction l as [|a l IH]; intros k k' H; simpl; [destruct k; reflexivity|].
  destruct k, k'; simpl; try reflexivity; [congruence|]. apply IH. congruence.
Qed.
Lemma length_set_nth {A} k (x : A) l : length (set_nth k x l) = length l.
Proof. revert k. induction l as [|a l IH]; intro k; simpl; [destruct k; reflexivity|]. destruct k; simpl; [reflexivity|]. f_equal. apply IH. Qed.

Definition entry (M : mat) (i j : nat) : Q := nth j (nth i M []) 0.
Theorem mat_set_same i j x M : (i < length M)%nat -> (j < length (nth i M []))%nat -> entry (mat_set i j x M) i j = x.
Proof. intros Hi Hj. unfold entry, mat_set. rewrite nth_set_nth_eq by exact Hi. apply nth_set_nth_eq. exact Hj. Qed.
Theorem mat_set_other i j x M i' j' : (i', j') <> (i, j) -> entry (mat_set i j x M) i' j' = entry M i' j'.
Proof.
  intro H. unfold entry, mat_set. destruct (PeanoNat.Nat.eq_dec i i') as [E|E].
  - subst i'. destruct (PeanoNat.Nat.lt_ge_cases i (length M)) as [Hi|Hi].
    + rewrite nth_set_nth_eq by exact Hi. apply nth_set_nth_neq. intro E. apply H. subst. reflexivity.
    + assert (Hs : forall (l : list (list Q)) k y, (length l <= k)%nat -> set_nth k y l = l).
      { induction l as [|a l IH]; intros k y Hk; simpl; [destruct k; reflexivity|].
        destruct k; simpl in *; [lia|]. f_equal. apply IH. lia. }
      rewrite Hs by exact Hi. reflexivity.
  - rewrite nth_set_nth_neq by exact E. reflexivity.
Qed.

(* the history quantifier is not vacuous: an implementation whose get_array normalises the stored
   counts in place agrees with the code on every freshly constructed CorrFunc (empty history),
   yet after one read-only call its sample() is a different number *)
Theorem inplace_fresh_agrees s : run_calls_inplace [] s = run_calls [] s.
Proof. reflexivity. Qed.

Definition ex_pc (c : Q) : pc := {| pc_auto := false; pc_counts := [[[c; 1]; [2; 3]]]; pc_w1 := [[1; 2]]; pc_w2 := [[2; 2]] |}.
Definition ex_cfs : cfs := {| cf_dd := ex_pc 6; cf_dr := Some (ex_pc 2); cf_rd := None; cf_rr := None |}.
Definition res_values (l : list res) : list Q := map (fun r => Qred (fst (fst r))) l.

Theorem inplace_history_refuted : exists s h, observers_only h = true
  /\ res_values (cfs_data (run_calls h s)) = res_values (cfs_data s)
  /\ res_values (cfs_data (run_calls_inplace h s)) <> res_values (cfs_data s).
Proof.
  exists ex_cfs, [H_obs 0 K_dd]. split; [reflexivity|]. split; [reflexivity|].
  vm_compute. discriminate.
Qed.

(* ================================================================== magnitudes *)
(* the estimate does not depend on a common factor of all normalised terms (a smaller pair
   fraction inside the scale cut, the same for data and randoms): both estimators are homogeneous
   of degree 0, so no magnitude of the terms may change the result or the choice of estimator *)
Theorem ls_scale c dd dr rd rr : ~ c == 0 -> ~ rr == 0 ->
  ls (c * dd) (c * dr) (c * rd) (c * rr) == ls dd dr rd rr.
Proof. intros Hc Hr. unfold ls. field. split; assumption. Qed.

Theorem dp_scale c dd mixed : ~ c == 0 -> ~ mixed == 0 -> dp (c * dd) (c * mixed) == dp dd mixed.
Proof. intros Hc Hm. unfold dp. field. split; assumption. Qed.

Definition den_nonzero (dr rd rr : option Q) : Prop :=
  match rr with Some r => ~ r == 0 | None => ~ opt_or rd (opt_or dr 0) == 0 end.

Theorem estimate_scale c dd dr rd rr : ~ c == 0 -> den_nonzero dr rd rr ->
  estimate (c * dd) (oscaleq c dr) (oscaleq c rd) (oscaleq c rr) == estimate dd dr rd rr.
Proof.
  intros Hc H. unfold estimate, den_nonzero, oscaleq in *.
  destruct rr as [r|], dr as [d|], rd as [x|]; simpl in *;
    try (exfalso; apply H; reflexivity);
    unfold ls, dp; field; repeat split; assumption.
Qed.

(* with rr present the estimate is Landy-Szalay for EVERY value of rr (no side condition: where
   rr is zero both sides are the same undefined quotient), a missing rd replaced by dr *)
Theorem estimate_ls_any_rr dd d rd r :
  estimate dd (Some d) rd (Some r) == (dd - d - opt_or rd d + r) / r.
Proof. unfold estimate. simpl. apply ls_def. Qed.

(* the contrast implementation (rr with |rr| <= eps treated as absent) cannot be told from the
   code on inputs whose rr exceeds eps ... *)
Theorem thr_fallback_agrees_above eps dd dr rd r : eps < Qabs r ->
  estimate_thr eps dd dr rd (Some r) = estimate dd dr rd (Some r).
Proof.
  intros H. unfold estimate_thr. destruct (Qleb (Qabs r) eps) eqn:E; [|reflexivity].
  apply Qleb_le in E. exfalso. apply (Qlt_not_le _ _ H). exact E.
Qed.

(* ... and for every eps > 0 there are pair counts with rr present and non-zero on which it is not
   the documented estimator: DD = 4 eps, DR = 2 eps, RD = RR = eps gives (DD-DR-RD+RR)/RR = 2, the
   fallback gives DD/RD - 1 = 3 *)
Theorem thr_fallback_refuted eps : 0 < eps ->
  exists dd d x r, ~ r == 0 /\ Qabs r <= eps
    /\ estimate_doc dd (Some d) (Some x) (Some r) == 2
    /\ estimate_thr eps dd (Some d) (Some x) (Some r) == 3.
Proof.
  intros He. exists (4 * eps), (2 * eps), eps, eps.
  assert (Hn : ~ eps == 0) by (intro E; rewrite E in He; discriminate).
  assert (Ha : Qabs eps <= eps) by (rewrite Qabs_pos; [apply Qle_refl | apply Qlt_le_weak; exact He]).
  repeat split.
  - exact Hn.
  - exact Ha.
  - unfold estimate_doc. simpl. unfold ls_doc. field. exact Hn.
  - unfold estimate_thr. apply Qleb_le in Ha. rewrite Ha. unfold estimate. simpl. unfold dp. field. exact Hn.
Qed.

(* ================================================================== measurements on catalogs *)
(* the total weight of a sample in a bin does not depend on how its records are grouped in patches:
   the per-patch weights that the jackknife uses add up to the weight of the whole catalog *)
Lemma weight_of_app l1 l2 : weight_of (l1 ++ l2) == weight_of l1 + weight_of l2.
Proof. unfold weight_of. rewrite map_app. apply qsum_app. Qed.

Lemma cell_members_app right binned lo hi l1 l2 :
  cell_members right binned lo hi (l1 ++ l2)
  = cell_members right binned lo hi l1 ++ cell_members right binned lo hi l2.
Proof. unfold cell_members, bin_members. destruct binned; [apply filter_app | reflexivity]. Qed.

Theorem side_total_partition right binned lo hi (patches : list (list cobj)) :
  qsum (map (cell_weight right binned lo hi) patches) == cell_weight right binned lo hi (concat patches).
Proof.
  induction patches as [|l ps IH]; simpl.
  - unfold cell_weight, cell_members, bin_members. destruct binned; reflexivity.
  - unfold cell_weight in *. rewrite cell_members_app, weight_of_app, IH. reflexivity.
Qed.

(* the denominator of a term of a measured cross-correlation container = product of the two catalogs'
   total weights in the bin ... *)
Theorem meas_denominator_cross right (s1 s2 : side) lo hi :
  norm_denominator false (bin_weights right s1 lo hi) (bin_weights right s2 lo hi)
  == side_total right s1 lo hi * side_total right s2 lo hi.
Proof. unfold norm_denominator, bin_weights, side_total. rewrite !side_total_partition. reflexivity. Qed.

(* ... of an autocorrelation container = half the squared total weight of the catalog in the bin ... *)
Theorem meas_denominator_auto right (s : side) lo hi :
  norm_denominator true (bin_weights right s lo hi) (bin_weights right s lo hi)
  == (1 # 2) * (side_total right s lo hi * side_total right s lo hi).
Proof.
  unfold norm_denominator. rewrite upper_half_sum_sq. unfold bin_weights, side_total.
  rewrite !side_total_partition. reflexivity.
Qed.

(* ... and a side read without binning contributes the weight of the whole catalog in every bin *)
Theorem side_total_unbinned right ps lo hi :
  side_total right {| sd_binned := false; sd_patches := ps |} lo hi = weight_of (concat ps).
Proof. reflexivity. Qed.

Theorem side_total_binned right ps lo hi :
  side_total right {| sd_binned := true; sd_patches := ps |} lo hi
  = weight_of (filter (fun o => in_bin right lo hi (fst o)) (concat ps)).
Proof. reflexivity. Qed.

(* the documented terms of a measured container, bin by bin *)
Lemma map2_map_l {A B C D} (f : B -> C -> D) (g : A -> B) l1 l2 :
  map2 f (map g l1) l2 = map2 (fun a c => f (g a) c) l1 l2.
Proof. revert l2. induction l1 as [|a l1 IH]; intros [|c l2]; simpl; try reflexivity. f_equal. apply IH. Qed.
Lemma map2_map_r {A B C D} (f : A -> C -> D) (g : B -> C) l1 l2 :
  map2 f l1 (map g l2) = map2 (fun a b => f a (g b)) l1 l2.
Proof. revert l2. induction l1 as [|a l1 IH]; intros [|c l2]; simpl; try reflexivity. f_equal. apply IH. Qed.
Lemma map2_diag {A B} (f : A -> A -> B) l : map2 f l l = map (fun a => f a a) l.
Proof. induction l as [|a l IH]; simpl; [reflexivity | f_equal; exact IH]. Qed.

Theorem meas_doc_denominators right edges m :
  map2 (norm_denominator (mc_auto m)) (pc_w1 (meas_pc right edges m)) (pc_w2 (meas_pc right edges m))
  = map (fun lh => norm_denominator (mc_auto m) (bin_weights right (mc_s1 m) (fst lh) (snd lh))
                                    (bin_weights right (mc_s2 m) (fst lh) (snd lh))) (bin_bounds edges).
Proof. simpl. unfold side_weights. rewrite map2_map_l, map2_map_r, map2_diag. reflexivity. Qed.

(* a term determines the product of weights it was normalised with: wherever pairs were counted, any
   other denominator (a weight missing from a total) gives a different term *)
Theorem term_determines_denominator c d d' :
  ~ c == 0 -> ~ d == 0 -> ~ d' == 0 -> c / d == c / d' -> d == d'.
Proof.
  intros Hc Hd Hd' H.
  assert (E : c * d' == c * d).
  { transitivity (c / d * (d * d')); [field; exact Hd|]. rewrite H. field. exact Hd'. }
  apply Qmult_inj_l in E; [symmetry; exact E | exact Hc].
Qed.

(* the contrast implementation agrees with the catalogs' weights whenever no (bin, patch) cell of
   either catalog is empty ... *)
Definition all_cells_populated (right : bool) (edges : list Q) (s : side) : Prop :=
  forall lh l, In lh (bin_bounds edges) -> In l (sd_patches s) ->
               cell_empty right (sd_binned s) (fst lh) (snd lh) l = false.

Lemma mask_row_id right binned lo hi partner w :
  length partner = length w -> (forall l, In l partner -> cell_empty right binned lo hi l = false) ->
  mask_row right binned lo hi partner w = w.
Proof.
  unfold mask_row. revert w. induction partner as [|l ps IH]; intros [|x w] Hlen H; simpl in *; try reflexivity; try discriminate.
  rewrite (H l (or_introl eq_refl)). f_equal. apply IH; [lia | intros l' Hl'; apply H; right; exact Hl'].
Qed.

Lemma side_weights_skip_id right edges partner mine :
  length (sd_patches partner) = length (sd_patches mine) -> all_cells_populated right edges partner ->
  side_weights_skip right edges partner mine = side_weights right edges mine.
Proof.
  intros Hlen H. unfold side_weights_skip, side_weights. apply map_ext_in. intros lh Hlh.
  apply mask_row_id; [unfold bin_weights; rewrite map_length; exact Hlen | intros l Hl; apply H; assumption].
Qed.

Theorem skip_agrees_populated right edges m :
  length (sd_patches (mc_s1 m)) = length (sd_patches (mc_s2 m)) ->
  all_cells_populated right edges (mc_s1 m) -> all_cells_populated right edges (mc_s2 m) ->
  meas_pc_skip right edges m = meas_pc right edges m.
Proof.
  intros Hlen H1 H2. unfold meas_pc_skip, meas_pc. f_equal; apply side_weights_skip_id; auto.
Qed.

(* ... and is not the documented estimator on a sparse reference sample: three unlinked patches, two
   bins (0, 1], (1, 2]; the reference sample has no object of the second bin in patch 0 and none of the
   first bin in patch 2; the unknown sample (weights 1, 2, 1) and the reference randoms populate
   everything.  DD/RD - 1 of the second bin is (2/(2*4)) / (6/(3*4)) - 1 = -1/2, with the unknown weight
   of patch 0 dropped from the DD denominator it is (2/(2*3)) / (6/(3*4)) - 1 = -1/3; of the first bin
   (3/(2*4)) / (4/(3*4)) - 1 = 1/8 resp. (3/(2*3)) / (4/(3*4)) - 1 = 1/2. *)
Definition ex_ref : side := {| sd_binned := true; sd_patches := [[(1 # 2, 1)]; [(1 # 2, 1); (3 # 2, 1)]; [(3 # 2, 1)]] |}.
Definition ex_rand : side := {| sd_binned := true; sd_patches := [[(1 # 2, 1); (3 # 2, 1)]; [(1 # 2, 1); (3 # 2, 1)]; [(1 # 2, 1); (3 # 2, 1)]] |}.
Definition ex_unk : side := {| sd_binned := false; sd_patches := [[(0, 1)]; [(0, 2)]; [(0, 1)]] |}.
Definition ex_dd : mcounts :=
  {| mc_auto := false; mc_counts := [[[1; 0; 0]; [0; 2; 0]; [0; 0; 0]]; [[0; 0; 0]; [0; 1; 0]; [0; 0; 1]]];
     mc_s1 := ex_ref; mc_s2 := ex_unk |}.
Definition ex_rd : mcounts :=
  {| mc_auto := false; mc_counts := [[[1; 0; 0]; [0; 2; 0]; [0; 0; 1]]; [[2; 0; 0]; [0; 2; 0]; [0; 0; 2]]];
     mc_s1 := ex_rand; mc_s2 := ex_unk |}.

Theorem skip_refuted : exists right edges dd rd,
  res_values (corr_data_doc (meas_pc right edges dd) None (Some (meas_pc right edges rd)) None) = [1 # 8; -(1 # 2)]
  /\ res_values (corr_data (meas_pc right edges dd) None (Some (meas_pc right edges rd)) None) = [1 # 8; -(1 # 2)]
  /\ res_values (corr_data (meas_pc_skip right edges dd) None (Some (meas_pc_skip right edges rd)) None) = [1 # 2; -(1 # 3)].
Proof. exists true, [0; 1; 2], ex_dd, ex_rd. vm_compute. repeat split; reflexivity. Qed.

(* ================================================================== weights that are not positive *)
(* an object of weight 0 weighs nothing: masking by weight is removing from the total, in every cell *)
Lemma weight_of_weighted l : weight_of (weighted l) == weight_of l.
Proof.
  unfold weight_of, weighted. induction l as [|o l IH]; simpl; [reflexivity|].
  destruct (Qeqb (snd o) 0) eqn:E; simpl.
  - apply Qeq_bool_iff in E. rewrite IH, E. ring.
  - rewrite IH. reflexivity.
Qed.

Lemma cell_members_weighted right binned lo hi l :
  cell_members right binned lo hi (weighted l) = weighted (cell_members right binned lo hi l).
Proof.
  unfold cell_members, bin_members, weighted. destruct binned; [|reflexivity].
  induction l as [|o l IH]; simpl; [reflexivity|].
  destruct (Qeqb (snd o) 0) eqn:Ew; destruct (in_bin right lo hi (fst o)) eqn:Eb; simpl; rewrite ?Ew, ?Eb; simpl; rewrite ?IH; reflexivity.
Qed.

Theorem masked_objects_weigh_nothing right binned lo hi l :
  cell_weight right binned lo hi (weighted l) == cell_weight right binned lo hi l.
Proof. unfold cell_weight. rewrite cell_members_weighted. apply weight_of_weighted. Qed.

(* weights of both signs: a cell whose weights cancel leaves the total of the others *)
Theorem cancelling_cell_leaves_total right binned lo hi (l : list cobj) (others : list (list cobj)) :
  cell_weight right binned lo hi l == 0 ->
  cell_weight right binned lo hi (concat (l :: others)) == cell_weight right binned lo hi (concat others).
Proof.
  intro H. simpl. unfold cell_weight in *. rewrite cell_members_app, weight_of_app, H. ring.
Qed.

(* the contrast implementation agrees with the catalogs' weights whenever no populated cell of the
   catalog weighs nothing ... *)
Definition no_weightless_cell (right : bool) (edges : list Q) (s : side) : Prop :=
  forall lh l, In lh (bin_bounds edges) -> In l (sd_patches s) ->
               cell_empty right (sd_binned s) (fst lh) (snd lh) l = true
               \/ ~ cell_weight right (sd_binned s) (fst lh) (snd lh) l == 0.

Lemma side_weights_or_id right edges s :
  no_weightless_cell right edges s -> side_weights_or right edges s = side_weights right edges s.
Proof.
  intro H. unfold side_weights_or, side_weights, bin_weights. apply map_ext_in. intros lh Hlh.
  apply map_ext_in. intros l Hl. unfold cell_weight_or, cell_weight.
  destruct (H lh l Hlh Hl) as [He | Hn].
  - unfold cell_empty in He. destruct (cell_members right (sd_binned s) (fst lh) (snd lh) l); [reflexivity | discriminate].
  - unfold cell_weight in Hn.
    destruct (Qeqb (weight_of (cell_members right (sd_binned s) (fst lh) (snd lh) l)) 0) eqn:E; [|reflexivity].
    apply Qeq_bool_iff in E. contradiction.
Qed.

Theorem orcount_agrees_weighted right edges m :
  no_weightless_cell right edges (mc_s1 m) -> no_weightless_cell right edges (mc_s2 m) ->
  meas_pc_or right edges m = meas_pc right edges m.
Proof. intros H1 H2. unfold meas_pc_or, meas_pc. f_equal; apply side_weights_or_id; assumption. Qed.

(* ... in particular on every catalog whose weights are all positive ... *)
Lemma weight_of_pos (l : list cobj) : l <> [] -> (forall o, In o l -> 0 < snd o) -> 0 < weight_of l.
Proof.
  unfold weight_of. induction l as [|o l IH]; intros Hne Hp; [congruence|]. simpl.
  assert (Ho : 0 < snd o) by (apply Hp; left; reflexivity).
  destruct l as [|o' l'].
  - simpl. lra.
  - assert (0 < qsum (map snd (o' :: l'))) by (apply IH; [discriminate | intros x Hx; apply Hp; right; exact Hx]). lra.
Qed.

Theorem positive_weights_no_weightless_cell right edges s :
  (forall l o, In l (sd_patches s) -> In o l -> 0 < snd o) -> no_weightless_cell right edges s.
Proof.
  intros Hp lh l _ Hl. unfold cell_empty, cell_weight.
  destruct (cell_members right (sd_binned s) (fst lh) (snd lh) l) as [|o m] eqn:E; [left; reflexivity | right].
  assert (Hpos : 0 < weight_of (o :: m)).
  { apply weight_of_pos; [discriminate|]. intros x Hx. apply (Hp l x Hl).
    rewrite <- E in Hx. unfold cell_members, bin_members in Hx.
    destruct (sd_binned s); [apply filter_In in Hx; tauto | exact Hx]. }
  intro C. rewrite C in Hpos. apply Qlt_irrefl in Hpos. exact Hpos.
Qed.

(* ... and is not the documented estimator when objects are masked with weight 0 or weights cancel:
   three unlinked patches, two bins (0, 1], (1, 2]; the reference objects of patch 1 in the first bin
   carry weight 0 (two objects), those of patch 2 in the second bin weights 1, 1, -2; the unknown sample
   weighs 1, 2, 1; the reference randoms (weight 1) populate every cell with one object.
   Reference totals per bin: 2 + 0 + 1 = 3 and 1 + 2 + 0 = 3; with populated weightless cells counted by
   their objects: 2 + 2 + 1 = 5 and 1 + 2 + 3 = 6.
   The pair counts of patch 2 in the second bin are those of the two objects of weight 1 (the object of
   weight -2 lies outside the scale cut).
   DD/RD - 1 = (3/(3*4)) / (4/(3*4)) - 1 = -1/4 and (7/(3*4)) / (6/(3*4)) - 1 = 1/6, with the counted
   cells (3/(5*4)) / (4/(3*4)) - 1 = -11/20 and (7/(6*4)) / (6/(3*4)) - 1 = -5/12. *)
Definition exw_ref : side :=
  {| sd_binned := true;
     sd_patches := [[(1 # 2, 2); (3 # 2, 1)]; [(1 # 2, 0); (1 # 2, 0); (3 # 2, 2)];
                    [(1 # 2, 1); (3 # 2, 1); (3 # 2, 1); (3 # 2, -(2))]] |}.
Definition exw_dd : mcounts :=
  {| mc_auto := false; mc_counts := [[[2; 0; 0]; [0; 0; 0]; [0; 0; 1]]; [[1; 0; 0]; [0; 4; 0]; [0; 0; 2]]];
     mc_s1 := exw_ref; mc_s2 := ex_unk |}.

Theorem orcount_refuted : exists right edges dd rd,
  side_weights right edges (mc_s1 dd) = [[2; 0; 1]; [1; 2; 0]]
  /\ map (map Qred) (side_weights_or right edges (mc_s1 dd)) = [[2; 2; 1]; [1; 2; 3]]
  /\ res_values (corr_data_doc (meas_pc right edges dd) None (Some (meas_pc right edges rd)) None) = [-(1 # 4); 1 # 6]
  /\ res_values (corr_data (meas_pc right edges dd) None (Some (meas_pc right edges rd)) None) = [-(1 # 4); 1 # 6]
  /\ res_values (corr_data (meas_pc_or right edges dd) None (Some (meas_pc_or right edges rd)) None) = [-(11 # 20); -(5 # 12)].
Proof. exists true, [0; 1; 2], exw_dd, ex_rd. vm_compute. repeat split; reflexivity. Qed.
