(* C09 — proofs about Model/FailStop.v.
   Positive theorems are about the repaired algorithm (v_fix), for every scenario (any number of
   chunks, any fault, any pre-existing state of the target) and every interleaving of the main
   process and the writer process.  Each has a `_refuted` twin about the current algorithm (v_cur). *)
From Verif Require Import Prelude FailStop.
Open Scope nat_scope.

(* ------------------------------------------------------------------ lists of queue messages *)
Definition TI : True := I.
Definition ctl (x : qmsg) : Prop := match x with Msg _ => False | _ => True end.

Lemma ctl_unique : forall a b x y q1 q2, ctl x -> ctl y ->
  map Msg a ++ x :: q1 = map Msg b ++ y :: q2 -> a = b /\ x = y /\ q1 = q2.
Proof.
  induction a as [|a0 a IH]; intros [|b0 b] x y q1 q2 Hx Hy H; simpl in H.
  - injection H as -> ->. auto.
  - injection H as -> _. destruct Hx.
  - injection H as E _. rewrite <- E in Hy. destruct Hy.
  - injection H as -> H. destruct (IH _ _ _ _ _ Hx Hy H) as (-> & -> & ->). auto.
Qed.

Lemma ctl_in_queue : forall a b x t q, ctl x ->
  map Msg a ++ q = map Msg b ++ x :: t -> q <> [].
Proof.
  induction a as [|a0 a IH]; intros [|b0 b] x t q Hx H E; subst q; simpl in H.
  - discriminate.
  - discriminate.
  - injection H as E _. rewrite <- E in Hx. destruct Hx.
  - injection H as _ H. exact (IH _ _ _ _ Hx H eq_refl).
Qed.

Lemma firstn_snoc : forall (l : list nat) c, c < length l ->
  firstn (S c) l = firstn c l ++ [nth c l 0].
Proof.
  induction l as [|x l IH]; intros c H; simpl in H; [lia|].
  destruct c as [|c]; [reflexivity|].
  change (firstn (S (S c)) (x :: l)) with (x :: firstn (S c) l).
  rewrite IH by lia. reflexivity.
Qed.

Lemma fold_append : forall l o r i,
  fold_left append_rec l (TDir o r i) = TDir o (r ++ l) i.
Proof.
  induction l as [|x l IH]; intros; simpl; [rewrite app_nil_r; reflexivity|].
  rewrite IH, <- app_assoc. reflexivity.
Qed.

(* ------------------------------------------------------------------ facts about the scenario *)
Definition initok (sc : scen) : bool := snd (init_dir v_fix sc (pre sc)).
Definition dir0 (sc : scen) : target := fst (init_dir v_fix sc (pre sc)).

Lemma init_dir_eta sc : init_dir v_fix sc (pre sc) = (dir0 sc, initok sc).
Proof. unfold dir0, initok. destruct (init_dir v_fix sc (pre sc)); reflexivity. Qed.

Lemma initok_dir sc : initok sc = true -> dir0 sc = TDir false [] false.
Proof.
  unfold initok, dir0, init_dir. destruct (pre sc) as [| | |o r i]; simpl;
    repeat match goal with |- context [if ?b then _ else _] => destruct b; simpl end;
    intros; congruence.
Qed.

Lemma initfail_dir sc : initok sc = false -> dir0 sc = pre sc \/ dir0 sc = TAbsent.
Proof.
  unfold initok, dir0, init_dir. destruct (pre sc) as [| | |o r i]; simpl;
    repeat match goal with |- context [if ?b then _ else _] => destruct b; simpl end;
    intros; auto; congruence.
Qed.

Lemma must_stay_initfail sc : must_stay sc = true -> initok sc = false /\ dir0 sc = pre sc.
Proof.
  unfold must_stay, initok, dir0, init_dir. destruct (pre sc) as [| | |o r i]; simpl;
    destruct (overwrite sc); simpl; try destruct i; simpl;
    repeat match goal with |- context [if ?b then _ else _] => destruct b; simpl end;
    intros; auto; congruence.
Qed.

Lemma must_stay_must_raise sc : must_stay sc = true -> must_raise sc = true.
Proof.
  unfold must_stay, must_raise. destruct (pre sc) as [| | |o r i]; intros H;
    rewrite ?H, ?orb_true_r; try reflexivity; discriminate.
Qed.

Lemma must_raise_false_iff sc :
  must_raise sc = false <->
  (early sc = false /\ initok sc = true /\ mfault sc = None /\ wfault_final sc = false /\ empty_centre sc = false).
Proof.
  unfold must_raise, initok, init_dir.
  destruct (early sc), (mfault sc), (wfault_init sc), (wfault_final sc), (empty_centre sc);
    destruct (pre sc) as [| | |o r i]; simpl; try destruct (overwrite sc); simpl; try destruct i; simpl;
    intuition congruence.
Qed.

Lemma mfault_lt sc k : mfault sc = Some k -> k < length (input sc).
Proof.
  unfold mfault. destruct (flt sc) as [f|]; [|discriminate].
  destruct (where_ f); try discriminate;
    (destruct (at_chunk f <? length (input sc)) eqn:E; [|discriminate]);
    intros H; injection H as <-; apply Nat.ltb_lt; exact E.
Qed.

(* ------------------------------------------------------------------ the invariant of v_fix *)
Definition mf_ge (sc : scen) (c : nat) : Prop :=
  match mfault sc with Some k => c <= k | None => True end.

(* writer side, while the main process is still running *)
Definition Wr (sc : scen) (s : pst) : Prop :=
  match wp s with
  | WNot => False
  | WInit => qu s = snt s /\ dk s = pre sc
  | WLoop => initok sc = true /\ exists done, dk s = TDir false done false /\ snt s = map Msg done ++ qu s
  | WFinal => initok sc = true /\ exists done, dk s = TDir false done false /\
                snt s = map Msg done ++ Sentinel :: qu s
  | WExit true => initok sc = true /\ wfault_final sc = false /\ exists done,
                dk s = TDir false done true /\ snt s = map Msg done ++ Sentinel :: qu s
  | WExit false =>
      (initok sc = false /\ dk s = dir0 sc /\ qu s = snt s) \/
      (initok sc = true /\ exists done, dk s = TDir false done false /\
         ((wfault_final sc = true /\ snt s = map Msg done ++ Sentinel :: qu s) \/
          snt s = map Msg done ++ Abort :: qu s))
  end.

Definition Inv (sc : scen) (s : pst) : Prop :=
  (must_stay sc = true -> dk s = pre sc) /\
  match mp s with
  | MStart => wp s = WNot /\ qu s = [] /\ dk s = pre sc /\ snt s = []
  | MChunk c => early sc = false /\ c <= length (input sc) /\ mf_ge sc c /\
                snt s = map Msg (firstn c (input sc)) /\ Wr sc s
  | MPut => early sc = false /\ mfault sc = None /\ snt s = map Msg (input sc) /\ Wr sc s
  | MJoin false => early sc = false /\ mfault sc = None /\
                   snt s = map Msg (input sc) ++ [Sentinel] /\ Wr sc s
  | MJoin true => early sc = false /\
                  (exists c, mfault sc = Some c /\ snt s = map Msg (firstn c (input sc)) ++ [Abort]) /\ Wr sc s
  | MLoad => must_raise sc = false \/ empty_centre sc = true /\ early sc = false /\ initok sc = true
             /\ mfault sc = None /\ wfault_final sc = false
  | MRet d => d = (input sc, true) /\ must_raise sc = false
  | MExc => must_raise sc = true /\ (openable (dk s) = true -> dk s = pre sc)
  end /\
  match mp s with
  | MLoad | MRet _ => wp s = WExit true /\ dk s = TDir false (input sc) true
  | MExc => wp s = WNot \/ exists ok, wp s = WExit ok
  | _ => True
  end.

Lemma Wr_put sc s x e : Wr sc s -> Wr sc (put s x e).
Proof.
  unfold Wr, put; simpl. destruct (wp s) as [| | | |[|]]; auto.
  - intros [-> ->]. auto.
  - intros [H [done [H1 H2]]]. split; [exact H|]. exists done. split; [exact H1|].
    rewrite H2, <- app_assoc. reflexivity.
  - intros [H [done [H1 H2]]]. split; [exact H|]. exists done. split; [exact H1|].
    rewrite H2, <- app_assoc. reflexivity.
  - intros [H [H0 [done [H1 H2]]]]. split; [exact H|]. split; [exact H0|]. exists done. split; [exact H1|].
    rewrite H2, <- app_assoc. reflexivity.
  - intros [[H [H1 H2]]|[H [done [H1 H2]]]].
    + left. rewrite H2. auto.
    + right. split; [exact H|]. exists done. split; [exact H1|].
      destruct H2 as [[F H2]|H2]; [left; split; [exact F|]|right]; rewrite H2, <- app_assoc; reflexivity.
Qed.

Lemma inv_init sc : Inv sc (init sc).
Proof. unfold Inv, init; simpl. repeat split; auto. Qed.

(* a main step preserves the invariant *)
Ltac sp := cbn [mp wp qu dk snt put set_mp].

Lemma inv_main sc s s' : Inv sc s -> step_main v_fix sc s = Some s' -> Inv sc s'.
Proof.
  intros (G & I & J) H. unfold step_main in H.
  destruct (mp s) as [|c| |[|]| |d|] eqn:Em.
  - (* MStart *)
    destruct I as (Hw & Hq & Hd & Hs).
    destruct (early sc) eqn:Ee; injection H as <-; unfold Inv, set_mp; sp.
    + split; [exact G|]. split; [|left; exact Hw]. split.
      * unfold must_raise. rewrite Ee. reflexivity.
      * intros _. exact Hd.
    + split; [exact G|]. split; [|exact TI].
      split; [exact Ee|]. split; [lia|]. split.
      * unfold mf_ge. destruct (mfault sc); [lia|exact TI].
      * split; [rewrite Hs; reflexivity|]. unfold Wr; sp. rewrite Hq, Hs. auto.
  - (* MChunk c *)
    destruct I as (Ee & Hc & Hge & Hs & HW).
    destruct (c <? length (input sc)) eqn:Ec.
    + apply Nat.ltb_lt in Ec. unfold is_fault_chunk in H. unfold mf_ge in Hge.
      destruct (mfault sc) as [k|] eqn:Ef.
      * destruct (k =? c) eqn:Ek.
        -- apply Nat.eqb_eq in Ek. subst k. simpl in H. injection H as <-.
           unfold Inv. split; [exact G|]. sp. split; [|exact TI].
           split; [exact Ee|]. split.
           ++ exists c. rewrite Ef. split; [reflexivity|]. rewrite Hs. reflexivity.
           ++ apply Wr_put. exact HW.
        -- apply Nat.eqb_neq in Ek. injection H as <-.
           unfold Inv. split; [exact G|]. sp. split; [|exact TI].
           split; [exact Ee|]. split; [lia|]. split.
           ++ unfold mf_ge. rewrite Ef. lia.
           ++ split; [|apply Wr_put; exact HW].
              rewrite Hs, firstn_snoc by exact Ec. rewrite map_app. reflexivity.
      * injection H as <-.
        unfold Inv. split; [exact G|]. sp. split; [|exact TI].
        split; [exact Ee|]. split; [lia|]. split.
        -- unfold mf_ge. rewrite Ef. exact TI.
        -- split; [|apply Wr_put; exact HW].
           rewrite Hs, firstn_snoc by exact Ec. rewrite map_app. reflexivity.
    + apply Nat.ltb_ge in Ec. injection H as <-.
      assert (c = length (input sc)) by lia. subst c.
      unfold Inv, set_mp. split; [exact G|]. sp. split; [|exact TI].
      split; [exact Ee|]. split.
      * unfold mf_ge in Hge. destruct (mfault sc) as [k|] eqn:Ef; [|reflexivity].
        apply mfault_lt in Ef. lia.
      * split; [|exact HW]. rewrite Hs, firstn_all. reflexivity.
  - (* MPut *)
    destruct I as (Ee & Hf & Hs & HW). injection H as <-.
    unfold Inv. split; [exact G|]. sp. split; [|exact TI].
    split; [exact Ee|]. split; [exact Hf|]. split; [rewrite Hs; reflexivity|]. apply Wr_put. exact HW.
  - (* MJoin true *)
    destruct I as (Ee & (c & Hf & Hs) & HW). unfold Wr in HW.
    destruct (wp s) as [| | | |ok] eqn:Ew; try discriminate. injection H as <-.
    unfold Inv, set_mp. split; [exact G|]. sp. rewrite Ew. split; [|eauto].
    split.
    + unfold must_raise. rewrite Hf. sp. rewrite orb_true_r. reflexivity.
    + intros Ho. destruct ok.
      * destruct HW as (_ & _ & done & _ & Hs2). exfalso. rewrite Hs in Hs2.
        destruct (ctl_unique _ _ Abort Sentinel _ _ TI TI Hs2) as (_ & E & _). discriminate.
      * destruct HW as [(Hi & Hd & _)|(_ & done & Hd & _)].
        -- rewrite Hd in *. destruct (initfail_dir sc Hi) as [E|E]; [exact E|]. rewrite E in Ho. discriminate.
        -- rewrite Hd in Ho. discriminate.
  - (* MJoin false *)
    destruct I as (Ee & Hf & Hs & HW). unfold Wr in HW.
    destruct (wp s) as [| | | |ok] eqn:Ew; try discriminate. destruct ok; simpl in H; injection H as <-.
    + (* writer exited normally -> MLoad *)
      destruct HW as (Hi & Hff & done & Hd & Hs2). rewrite Hs in Hs2.
      destruct (ctl_unique _ _ Sentinel Sentinel _ _ TI TI Hs2) as (<- & _ & Hq).
      unfold Inv, set_mp. split; [exact G|]. sp. rewrite Ew. split; [|auto].
      destruct (empty_centre sc) eqn:Ec.
      * right. auto.
      * left. apply must_raise_false_iff. auto.
    + (* writer failed -> exception *)
      unfold Inv, set_mp. split; [exact G|]. sp. rewrite Ew. split; [|eauto].
      destruct HW as [(Hi & Hd & _)|(Hi & done & Hd & [(Hff & _)|Hs2])].
      * split.
        -- destruct (must_raise sc) eqn:Em'; [reflexivity|].
           apply must_raise_false_iff in Em'. destruct Em' as (_ & Hi' & _). congruence.
        -- intros Ho. rewrite Hd in *. destruct (initfail_dir sc Hi) as [E|E]; [exact E|].
           rewrite E in Ho. discriminate.
      * split.
        -- destruct (must_raise sc) eqn:Em'; [reflexivity|].
           apply must_raise_false_iff in Em'. destruct Em' as (_ & _ & _ & Hff' & _). congruence.
        -- rewrite Hd. discriminate.
      * exfalso. rewrite Hs in Hs2.
        destruct (ctl_unique _ _ Sentinel Abort _ _ TI TI Hs2) as (_ & E & _). discriminate.
  - (* MLoad *)
    destruct J as (Hw & Hd). rewrite Hd in H. unfold load in H.
    destruct (empty_centre sc) eqn:Ec; simpl in H; injection H as <-; unfold Inv; sp.
    + split.
      * intros Hst. destruct (must_stay_initfail sc Hst) as (Hi & _).
        destruct I as [I|(_ & _ & Hi' & _)]; [|congruence].
        apply must_raise_false_iff in I. destruct I as (_ & Hi' & _). congruence.
      * split; [|right; eauto]. split; [|discriminate].
        unfold must_raise. rewrite Ec. rewrite ?orb_true_r. reflexivity.
    + split; [rewrite <- Hd; exact G|]. split; [|auto].
      split; [reflexivity|]. destruct I as [I|(I & _)]; [exact I|discriminate].
  - discriminate.
  - discriminate.
Qed.

(* the parts of the invariant a writer step cannot disturb *)
Lemma writer_frame sc s s' : step_writer v_fix sc s = Some s' -> mp s' = mp s /\ snt s' = snt s.
Proof.
  unfold step_writer. destruct (wp s) as [| | | |ok]; try discriminate.
  - destruct (init_dir v_fix sc (dk s)). intros H; injection H as <-; auto.
  - destruct (qu s) as [|[d| |] r]; try discriminate; intros H; injection H as <-; auto.
  - destruct (wfault_final sc); intros H; injection H as <-; auto.
Qed.

Lemma Wr_writer sc s s' : Wr sc s -> step_writer v_fix sc s = Some s' ->
  Wr sc s' /\ (must_stay sc = true -> dk s = pre sc -> dk s' = pre sc).
Proof.
  unfold Wr, step_writer. destruct (wp s) as [| | | |ok] eqn:Ew; try discriminate.
  - (* WInit *)
    intros [Hq Hd]. rewrite Hd, init_dir_eta. intros H; injection H as <-; simpl.
    destruct (initok sc) eqn:Hi; simpl.
    + split.
      * split; [reflexivity|]. exists []. rewrite initok_dir by exact Hi. simpl. auto.
      * intros Hst. destruct (must_stay_initfail sc Hst). congruence.
    + split; [left; auto|]. intros Hst _. apply must_stay_initfail. exact Hst.
  - (* WLoop *)
    intros (Hi & done & Hd & Hs). destruct (qu s) as [|[d| |] r] eqn:Eq; try discriminate;
      intros H; injection H as <-; simpl; (split; [|intros Hst; destruct (must_stay_initfail sc Hst); congruence]).
    + split; [exact Hi|]. exists (done ++ [d]). rewrite Hd. simpl. split; [reflexivity|].
      rewrite Hs, map_app, <- app_assoc. reflexivity.
    + split; [exact Hi|]. exists done. auto.
    + right. split; [exact Hi|]. exists done. auto.
  - (* WFinal *)
    intros (Hi & done & Hd & Hs). destruct (wfault_final sc) eqn:Ef; intros H; injection H as <-; simpl;
      (split; [|intros Hst; destruct (must_stay_initfail sc Hst); congruence]).
    + right. split; [exact Hi|]. exists done. auto.
    + split; [exact Hi|]. split; [reflexivity|]. exists done. rewrite Hd. simpl. auto.
Qed.

Lemma inv_writer sc s s' : Inv sc s -> step_writer v_fix sc s = Some s' -> Inv sc s'.
Proof.
  intros (G & I & J) H. destruct (writer_frame _ _ _ H) as (Em & Es).
  unfold Inv. rewrite Em, Es.
  destruct (mp s) as [|c| |[|]| |d|] eqn:Em0.
  - destruct I as (Hw & _). unfold step_writer in H. rewrite Hw in H. discriminate.
  - destruct I as (I1 & I2 & I3 & I4 & HW). destruct (Wr_writer _ _ _ HW H) as (HW' & HG). tauto.
  - destruct I as (I1 & I2 & I3 & HW). destruct (Wr_writer _ _ _ HW H) as (HW' & HG). tauto.
  - destruct I as (I1 & I2 & HW). destruct (Wr_writer _ _ _ HW H) as (HW' & HG). tauto.
  - destruct I as (I1 & I2 & I3 & HW). destruct (Wr_writer _ _ _ HW H) as (HW' & HG). tauto.
  - destruct J as (Hw & _). unfold step_writer in H. rewrite Hw in H. discriminate.
  - destruct J as (Hw & _). unfold step_writer in H. rewrite Hw in H. discriminate.
  - unfold step_writer in H. destruct J as [Hw|[ok Hw]]; rewrite Hw in H; discriminate.
Qed.

Theorem inv_reach sc s : reach v_fix sc s -> Inv sc s.
Proof.
  induction 1 as [|s s' _ IH [H|H]].
  - apply inv_init.
  - exact (inv_main _ _ _ IH H).
  - exact (inv_writer _ _ _ IH H).
Qed.

(* ------------------------------------------------------------------ theorems about v_fix *)

(* never blocks: no reachable state is stuck, for any fault, any number of chunks, any interleaving *)
Theorem no_hang sc s : reach v_fix sc s -> ~ stuck v_fix sc s.
Proof.
  intros R [Hf Hst]. apply inv_reach in R. destruct R as (G & I & J).
  assert (Hm : step_main v_fix sc s = None).
  { destruct (step_main v_fix sc s) eqn:E; [|reflexivity]. exfalso. apply (Hst p). left. exact E. }
  assert (Hw : step_writer v_fix sc s = None).
  { destruct (step_writer v_fix sc s) eqn:E; [|reflexivity]. exfalso. apply (Hst p). right. exact E. }
  unfold final in Hf. unfold step_main in Hm.
  destruct (mp s) as [|c| |pend| |d|] eqn:Em; try discriminate.
  - destruct (early sc); discriminate.
  - destruct (c <? length (input sc)); [destruct (is_fault_chunk sc c)|]; discriminate.
  - (* MJoin: the writer can move, or has exited *)
    assert (HW : Wr sc s /\ exists a x, ctl x /\ snt s = map Msg a ++ [x]).
    { destruct pend.
      - destruct I as (_ & (c & _ & Hs) & HW). split; [exact HW|]. exists (firstn c (input sc)), Abort. split; [exact TI|exact Hs].
      - destruct I as (_ & _ & Hs & HW). split; [exact HW|]. exists (input sc), Sentinel. split; [exact TI|exact Hs]. }
    destruct HW as (HW & a & x & Hx & Hs). unfold Wr in HW. unfold step_writer in Hw.
    destruct (wp s) as [| | | |ok] eqn:Ew.
    + exact HW.
    + destruct (init_dir v_fix sc (dk s)); discriminate.
    + destruct HW as (_ & done & _ & Hs2). rewrite Hs in Hs2. symmetry in Hs2.
      apply ctl_in_queue in Hs2; [|exact Hx].
      destruct (qu s) as [|[d| |] r]; try discriminate. apply Hs2. reflexivity.
    + destruct (wfault_final sc); discriminate.
    + destruct pend; [discriminate|]. simpl in Hm. destruct ok; discriminate.
  - destruct (load v_fix sc (dk s)). discriminate.
Qed.

(* every execution is finite: each step decreases psize, which starts at 2 * chunks + 20 *)
Theorem step_decreases v sc s s' : pstep v sc s s' -> psize sc s' < psize sc s.
Proof.
  intros [H|H].
  - unfold step_main in H. unfold psize. destruct (mp s) as [|c| |pend| |d|] eqn:Em.
    + destruct (early sc); injection H as <-; simpl; destruct (wp s); lia.
    + destruct (c <? length (input sc)) eqn:Ec.
      * apply Nat.ltb_lt in Ec. destruct (is_fault_chunk sc c).
        -- destruct (abort_on_error v); injection H as <-; simpl; rewrite ?app_length; simpl; lia.
        -- injection H as <-; simpl; rewrite ?app_length; simpl; lia.
      * injection H as <-; simpl; lia.
    + injection H as <-; simpl; rewrite app_length; simpl; lia.
    + destruct (wp s) eqn:Ew; try discriminate.
      destruct pend; [|destruct (check_exit v && negb ok)]; injection H as <-; simpl; rewrite Ew; lia.
    + destruct (load v sc (dk s)) as [o d']. injection H as <-; simpl. destruct o; lia.
    + discriminate.
    + discriminate.
  - unfold step_writer in H. unfold psize. destruct (wp s) as [| | | |ok] eqn:Ew; try discriminate.
    + destruct (init_dir v sc (dk s)) as [d' ok]. injection H as <-; simpl. destruct ok; lia.
    + destruct (qu s) as [|[d| |] r]; try discriminate; injection H as <-; simpl; lia.
    + destruct (wfault_final sc); injection H as <-; simpl; lia.
Qed.

Inductive steps (v : impl) (sc : scen) : nat -> pst -> pst -> Prop :=
| steps0 s : steps v sc 0 s s
| stepsS k s s' s'' : pstep v sc s s' -> steps v sc k s' s'' -> steps v sc (S k) s s''.

Theorem bounded_run v sc k s : steps v sc k (init sc) s -> k <= 2 * length (input sc) + 20.
Proof.
  assert (G : forall k s0 s1, steps v sc k s0 s1 -> k + psize sc s1 <= psize sc s0).
  { induction 1 as [|k0 s0 s1 s2 H _ IH]; [lia|]. apply step_decreases in H. lia. }
  intros H. apply G in H. unfold psize, init in H. simpl in H. lia.
Qed.

(* never returns a catalog of other data *)
Theorem no_foreign_data sc s d : reach v_fix sc s -> mp s = MRet d -> d = (input sc, true).
Proof.
  intros R E. apply inv_reach in R. destruct R as (_ & I & _). rewrite E in I. apply I.
Qed.

(* the outcome of the call, once the main process has finished *)
Definition outcome_of (s : pst) : outcome :=
  match mp s with MRet d => Return d | MExc => Raise | _ => Hang end.
Inductive oclass := CReturn | CRaise | CHang.
Definition class_of (o : outcome) : oclass :=
  match o with Return _ => CReturn | Raise => CRaise | Hang => CHang end.

Lemma seq_fix_outcome sc :
  fst (seq_run v_fix sc) = if must_raise sc then Raise else Return (input sc, true).
Proof.
  destruct (must_raise sc) eqn:Em.
  - unfold seq_run. destruct (early sc) eqn:Ee; [reflexivity|].
    rewrite init_dir_eta. destruct (initok sc) eqn:Hi; simpl; [|reflexivity].
    destruct (mfault sc) eqn:Ef; [reflexivity|].
    destruct (wfault_final sc) eqn:Eff; [reflexivity|].
    rewrite initok_dir by exact Hi. rewrite fold_append. simpl.
    destruct (empty_centre sc) eqn:Ec; [reflexivity|].
    exfalso. assert (must_raise sc = false) by (apply must_raise_false_iff; auto). congruence.
  - apply must_raise_false_iff in Em. destruct Em as (Ee & Hi & Ef & Eff & Ec).
    unfold seq_run. rewrite Ee, init_dir_eta, Hi, Ef, Eff. simpl.
    rewrite initok_dir by exact Hi. rewrite fold_append. simpl. rewrite Ec. reflexivity.
Qed.

(* sequential and parallel mode give the same outcome (hence the same outcome class) *)
Theorem seq_par_same_outcome sc s : reach v_fix sc s -> final s = true ->
  outcome_of s = fst (seq_run v_fix sc).
Proof.
  intros R F. apply inv_reach in R. destruct R as (_ & I & _).
  rewrite seq_fix_outcome. unfold outcome_of. unfold final in F.
  destruct (mp s); try discriminate.
  - destruct I as (-> & ->). reflexivity.
  - destruct I as (-> & _). reflexivity.
Qed.

Theorem seq_par_same_class sc s : reach v_fix sc s -> final s = true ->
  class_of (outcome_of s) = class_of (fst (seq_run v_fix sc)).
Proof. intros R F. rewrite (seq_par_same_outcome sc s R F). reflexivity. Qed.

(* the call returns exactly when nothing obliges it to raise *)
Theorem returns_iff_allowed sc s : reach v_fix sc s -> final s = true ->
  (outcome_of s = Return (input sc, true) /\ must_raise sc = false) \/
  (outcome_of s = Raise /\ must_raise sc = true).
Proof.
  intros R F. rewrite (seq_par_same_outcome sc s R F), seq_fix_outcome.
  destruct (must_raise sc); auto.
Qed.

Theorem empty_centre_raises sc s : reach v_fix sc s -> final s = true ->
  empty_centre sc = true -> mp s = MExc.
Proof.
  intros R F Ec. apply inv_reach in R. destruct R as (_ & I & _). unfold final in F.
  destruct (mp s); try discriminate; [|reflexivity].
  destruct I as (_ & I). apply must_raise_false_iff in I. destruct I as (_ & _ & _ & _ & I). congruence.
Qed.

(* the pre-existing path is modified only if it is absent, or a catalog cache and overwrite was
   requested; at every moment of every execution, and in sequential mode *)
Theorem overwrite_only_catalog sc s : reach v_fix sc s -> dk s <> pre sc ->
  pre sc = TAbsent \/ (exists o r, pre sc = TDir o r true) /\ overwrite sc = true.
Proof.
  intros R Hne. apply inv_reach in R. destruct R as (G & _).
  destruct (must_stay sc) eqn:Est; [exfalso; apply Hne; apply G; reflexivity|].
  unfold must_stay in Est. destruct (pre sc) as [| | |o r i]; try discriminate; [left; reflexivity|].
  right. destruct (overwrite sc), i; try discriminate. eauto.
Qed.

Theorem overwrite_only_catalog_seq sc : snd (seq_run v_fix sc) <> pre sc ->
  pre sc = TAbsent \/ (exists o r, pre sc = TDir o r true) /\ overwrite sc = true.
Proof.
  intros Hne.
  destruct (must_stay sc) eqn:Est.
  - exfalso. apply Hne. unfold seq_run. destruct (early sc); [reflexivity|].
    destruct (must_stay_initfail sc Est) as (Hi & Hd). rewrite init_dir_eta, Hi. simpl. exact Hd.
  - unfold must_stay in Est. destruct (pre sc) as [| | |o r i]; try discriminate; [left; reflexivity|].
    right. destruct (overwrite sc), i; try discriminate. eauto.
Qed.

(* a failed creation leaves nothing that opens as a catalog, unless it is the pre-existing
   catalog, untouched *)
Theorem failed_creation_not_openable sc s : reach v_fix sc s -> mp s = MExc ->
  openable (dk s) = true -> dk s = pre sc.
Proof.
  intros R E. apply inv_reach in R. destruct R as (_ & I & _). rewrite E in I. apply I.
Qed.

Theorem failed_creation_not_openable_seq sc : fst (seq_run v_fix sc) = Raise ->
  openable (snd (seq_run v_fix sc)) = true -> snd (seq_run v_fix sc) = pre sc.
Proof.
  unfold seq_run. destruct (early sc); [reflexivity|].
  rewrite init_dir_eta. destruct (initok sc) eqn:Hi; simpl.
  - rewrite initok_dir by exact Hi. destruct (mfault sc).
    + rewrite fold_append. simpl. discriminate.
    + rewrite fold_append. simpl. destruct (wfault_final sc); [simpl; discriminate|].
      destruct (empty_centre sc); simpl; discriminate.
  - intros _ Ho. destruct (initfail_dir sc Hi) as [E|E]; [exact E|]. rewrite E in Ho. discriminate.
Qed.

Lemma seq_stays sc : must_stay sc = true -> snd (seq_run v_fix sc) = pre sc.
Proof.
  intros Est. unfold seq_run. destruct (early sc); [reflexivity|].
  destruct (must_stay_initfail sc Est) as (Hi & Hd). rewrite init_dir_eta, Hi. simpl. exact Hd.
Qed.

(* the repaired algorithm satisfies the very predicate (spec_ok) the harness evaluates on the
   implementation's observed outcome: in parallel mode for every interleaving, and sequentially *)
Lemma target_eqb_refl a : target_eqb a a = true.
Proof.
  destruct a as [| | |o r i]; simpl; try reflexivity.
  rewrite !Bool.eqb_reflx. unfold nlist_eqb. rewrite list_eqb_refl by apply Nat.eqb_refl. reflexivity.
Qed.

Lemma spec_of_outcome sc o d :
  (o = Return (input sc, true) /\ must_raise sc = false) \/ (o = Raise /\ must_raise sc = true) ->
  (must_stay sc = true -> d = pre sc) ->
  (o = Raise -> openable d = true -> d = pre sc) ->
  spec_ok sc (model_obs sc o) (target_eqb d (pre sc)) (openable d) = true.
Proof.
  intros [[-> Hm]|[-> Hm]] Hst Hop; unfold spec_ok, cl_no_hang, cl_return_exact, cl_stays, cl_not_openable; simpl.
  - rewrite Hm. unfold classify_ret. simpl. unfold nlist_eqb at 1. rewrite list_eqb_refl by apply Nat.eqb_refl. simpl.
    destruct (must_stay sc) eqn:E; [|reflexivity]. apply must_stay_must_raise in E. congruence.
  - destruct (must_stay sc) eqn:E.
    + rewrite (Hst eq_refl), target_eqb_refl. simpl. destruct (openable (pre sc)); reflexivity.
    + simpl. destruct (openable d) eqn:Eo; [|reflexivity]. simpl.
      rewrite (Hop eq_refl eq_refl) in *. rewrite target_eqb_refl, Eo. reflexivity.
Qed.

Theorem fix_meets_spec sc s : reach v_fix sc s -> final s = true ->
  spec_ok sc (model_obs sc (outcome_of s)) (target_eqb (dk s) (pre sc)) (openable (dk s)) = true.
Proof.
  intros R F. apply spec_of_outcome.
  - exact (returns_iff_allowed sc s R F).
  - intros Hst. destruct (inv_reach sc s R) as (G & _). exact (G Hst).
  - intros Ho. unfold outcome_of in Ho. unfold final in F.
    destruct (mp s) eqn:Em; try discriminate. exact (failed_creation_not_openable sc s R Em).
Qed.

Theorem fix_meets_spec_seq sc :
  spec_ok sc (model_obs sc (fst (seq_run v_fix sc))) (target_eqb (snd (seq_run v_fix sc)) (pre sc))
          (openable (snd (seq_run v_fix sc))) = true.
Proof.
  apply spec_of_outcome.
  - rewrite seq_fix_outcome. destruct (must_raise sc); auto.
  - exact (seq_stays sc).
  - exact (failed_creation_not_openable_seq sc).
Qed.

(* ------------------------------------------------------------------ the current algorithm *)
Lemma run_state_reach v sc pol : forall fuel s, reach v sc s -> reach v sc (run_state v sc pol fuel s).
Proof.
  induction fuel as [|f IH]; intros s R; simpl; [exact R|].
  destruct (pol f).
  - destruct (step_main v sc s) eqn:E1; [apply IH; eapply reach_step; [exact R|left; exact E1]|].
    destruct (step_writer v sc s) eqn:E2; [apply IH; eapply reach_step; [exact R|right; exact E2]|exact R].
  - destruct (step_writer v sc s) eqn:E1; [apply IH; eapply reach_step; [exact R|right; exact E1]|].
    destruct (step_main v sc s) eqn:E2; [apply IH; eapply reach_step; [exact R|left; exact E2]|exact R].
Qed.

Lemma stuckb_stuck v sc s : stuckb v sc s = true -> stuck v sc s.
Proof.
  unfold stuckb, stuck. intros H. apply andb_true_iff in H. destruct H as [H1 H2].
  split; [destruct (final s); [discriminate|reflexivity]|].
  intros s' [E|E]; rewrite E in H2; [discriminate|].
  destruct (step_main v sc s); discriminate.
Qed.

Definition at_end (v : impl) (sc : scen) (pol : nat -> bool) : pst :=
  run_state v sc pol (fuel_for sc) (init sc).
Lemma at_end_reach v sc pol : reach v sc (at_end v sc pol).
Proof. apply run_state_reach. apply reach_init. Qed.

(* F9b: a NaN in the second of three chunks; the main process waits in join, the writer in get *)
Definition sc_hang : scen := mk_scen 3 (mk_fault InReader 1 NonFinite) TAbsent false false false.
Theorem hang_refuted : exists sc s, reach v_cur sc s /\ stuck v_cur sc s.
Proof.
  exists sc_hang, (at_end v_cur sc_hang pol_alt). split; [apply at_end_reach|].
  apply stuckb_stuck. vm_compute. reflexivity.
Qed.

(* ... while the sequential mode raises: the two modes differ *)
Theorem seq_par_same_class_refuted : exists sc s, reach v_cur sc s /\ stuck v_cur sc s /\
  fst (seq_run v_cur sc) = Raise.
Proof.
  exists sc_hang, (at_end v_cur sc_hang pol_alt). split; [apply at_end_reach|].
  split; [apply stuckb_stuck; vm_compute; reflexivity|vm_compute; reflexivity].
Qed.

(* F9a: the target holds a valid catalog of other data, overwrite = False: the writer's
   FileExistsError is lost and the call returns the pre-existing catalog *)
Definition sc_foreign : scen := mk_scen 3 None (TDir false [101; 102] true) false false false.
Theorem foreign_data_refuted : exists sc s d, reach v_cur sc s /\ mp s = MRet d /\
  d <> (input sc, true) /\ must_raise sc = true.
Proof.
  exists sc_foreign, (at_end v_cur sc_foreign pol_main), ([101; 102], true).
  split; [apply at_end_reach|]. split; [vm_compute; reflexivity|]. split; [discriminate|reflexivity].
Qed.

(* F7: overwrite = True removes a directory that is not a catalog (both modes) *)
Definition sc_rmtree : scen := mk_scen 2 None (TDir true [] false) true false false.
Theorem rmtree_any_directory_refuted : exists sc s o, reach v_cur sc s /\
  pre sc = TDir true [] false /\ dk s <> pre sc /\ mp s = MRet o /\
  snd (seq_run v_cur sc) <> pre sc.
Proof.
  exists sc_rmtree, (at_end v_cur sc_rmtree pol_writer), ([1; 2], true).
  split; [apply at_end_reach|]. split; [reflexivity|].
  split; [vm_compute; discriminate|]. split; [vm_compute; reflexivity|vm_compute; discriminate].
Qed.

(* F8: a centre without any object: no error, the catalog carries shifted centres (both modes) *)
Definition sc_empty : scen := mk_scen 2 None TAbsent false false true.
Theorem empty_centre_refuted : exists sc s, empty_centre sc = true /\ reach v_cur sc s /\
  mp s = MRet (input sc, false) /\ fst (seq_run v_cur sc) = Return (input sc, false).
Proof.
  exists sc_empty, (at_end v_cur sc_empty pol_alt).
  split; [reflexivity|]. split; [apply at_end_reach|]. split; vm_compute; reflexivity.
Qed.

(* found while building this check: in sequential mode CatalogWriter.__exit__ finalizes although
   the loop raised, so the failed creation leaves a directory that opens as a (partial) catalog *)
Theorem failed_creation_not_openable_refuted : exists sc,
  fst (seq_run v_cur sc) = Raise /\ openable (snd (seq_run v_cur sc)) = true /\
  snd (seq_run v_cur sc) <> pre sc.
Proof. exists sc_hang. vm_compute. split; [reflexivity|]. split; [reflexivity|discriminate]. Qed.

(* ------------------------------------------------------------------ the catalog marker is atomic
   Creation over a pre-existing valid catalog (overwrite): patch_ids.bin of the old catalog goes away
   with the old data and the new one is written last, so at EVERY moment of EVERY execution (hence
   also after a kill, an exception or a hang, whatever the fault and its position) a directory that
   opens as a catalog is either the untouched pre-existing one or holds the complete input. *)
Lemma no_ctl_in_msgs : forall a b x q, ctl x -> map Msg a = map Msg b ++ x :: q -> False.
Proof.
  induction a as [|a0 a IH]; intros [|b0 b] x q Hx H; simpl in H.
  - discriminate.
  - discriminate.
  - injection H as E _. rewrite <- E in Hx. destruct Hx.
  - injection H as _ H. exact (IH _ _ _ Hx H).
Qed.

Lemma Wr_openable sc s : Wr sc s -> openable (dk s) = true ->
  dk s = pre sc \/ exists done, dk s = TDir false done true /\ snt s = map Msg done ++ Sentinel :: qu s.
Proof.
  unfold Wr. destruct (wp s) as [| | | |[|]].
  - intros [].
  - intros [_ Hd] _. left. exact Hd.
  - intros (_ & done & Hd & _) Ho. rewrite Hd in Ho. discriminate.
  - intros (_ & done & Hd & _) Ho. rewrite Hd in Ho. discriminate.
  - intros (_ & _ & done & Hd & Hs) _. right. exists done. auto.
  - intros [(Hi & Hd & _)|(_ & done & Hd & _)] Ho.
    + rewrite Hd in *. destruct (initfail_dir sc Hi) as [E|E]; [left; exact E|]. rewrite E in Ho. discriminate.
    + rewrite Hd in Ho. discriminate.
Qed.

Theorem openable_any_moment sc s : reach v_fix sc s -> openable (dk s) = true ->
  dk s = pre sc \/ dk s = TDir false (input sc) true.
Proof.
  intros R Ho. apply inv_reach in R. destruct R as (G & I & J).
  destruct (mp s) as [|c| |[|]| |d|] eqn:Em.
  - left. apply I.
  - destruct I as (_ & _ & _ & Hs & HW).
    destruct (Wr_openable sc s HW Ho) as [E|(done & _ & Hs2)]; [left; exact E|].
    exfalso. rewrite Hs in Hs2. exact (no_ctl_in_msgs _ _ Sentinel _ TI Hs2).
  - destruct I as (_ & _ & Hs & HW).
    destruct (Wr_openable sc s HW Ho) as [E|(done & _ & Hs2)]; [left; exact E|].
    exfalso. rewrite Hs in Hs2. exact (no_ctl_in_msgs _ _ Sentinel _ TI Hs2).
  - destruct I as (_ & (c & _ & Hs) & HW).
    destruct (Wr_openable sc s HW Ho) as [E|(done & _ & Hs2)]; [left; exact E|].
    exfalso. rewrite Hs in Hs2.
    destruct (ctl_unique _ _ Abort Sentinel _ _ TI TI Hs2) as (_ & E & _). discriminate.
  - destruct I as (_ & _ & Hs & HW).
    destruct (Wr_openable sc s HW Ho) as [E|(done & Hd & Hs2)]; [left; exact E|].
    right. rewrite Hs in Hs2.
    destruct (ctl_unique _ _ Sentinel Sentinel _ _ TI TI Hs2) as (<- & _ & _). exact Hd.
  - right. apply J.
  - right. apply J.
  - left. destruct I as (_ & I). exact (I Ho).
Qed.

Lemma seq_fix_dir sc : must_raise sc = false -> snd (seq_run v_fix sc) = TDir false (input sc) true.
Proof.
  intros Em. apply must_raise_false_iff in Em. destruct Em as (Ee & Hi & Ef & Eff & Ec).
  unfold seq_run. rewrite Ee, init_dir_eta, Hi, Ef, Eff. simpl.
  rewrite initok_dir by exact Hi. rewrite fold_append. simpl. rewrite Ec. reflexivity.
Qed.

Theorem openable_seq sc : openable (snd (seq_run v_fix sc)) = true ->
  snd (seq_run v_fix sc) = pre sc \/ snd (seq_run v_fix sc) = TDir false (input sc) true.
Proof.
  intros Ho. destruct (must_raise sc) eqn:Em.
  - left. apply failed_creation_not_openable_seq; [|exact Ho]. rewrite seq_fix_outcome, Em. reflexivity.
  - right. exact (seq_fix_dir sc Em).
Qed.

(* the clause the harness evaluates on what the path holds when it is opened after the call *)
Lemma open_spec_of sc o d :
  (o = Raise \/ exists x, o = Return x) ->
  ((exists x, o = Return x) -> d = TDir false (input sc) true) ->
  (o = Raise -> openable d = true -> d = pre sc) ->
  cl_open_exact (model_obs sc o) (held_of sc d) = true.
Proof.
  intros [->|[x ->]] Hr Hx; unfold held_of.
  - destruct (openable d) eqn:Eo; [|reflexivity]. cbn [negb].
    rewrite (Hx eq_refl eq_refl), target_eqb_refl. reflexivity.
  - rewrite (Hr (ex_intro _ x eq_refl)). cbn [openable negb].
    destruct (target_eqb (TDir false (input sc) true) (pre sc)); [reflexivity|].
    unfold nlist_eqb. rewrite list_eqb_refl by apply Nat.eqb_refl. reflexivity.
Qed.

Theorem fix_meets_open_spec sc s : reach v_fix sc s -> final s = true ->
  cl_open_exact (model_obs sc (outcome_of s)) (held_of sc (dk s)) = true.
Proof.
  intros R F. pose proof (inv_reach sc s R) as (_ & I & J). unfold final in F. unfold outcome_of.
  destruct (mp s) as [| | | | |d|] eqn:Em; try discriminate; apply open_spec_of.
  - right. eauto.
  - intros _. apply J.
  - discriminate.
  - left. reflexivity.
  - intros [x Hx]. discriminate.
  - intros _. apply I.
Qed.

Theorem fix_meets_open_spec_seq sc :
  cl_open_exact (model_obs sc (fst (seq_run v_fix sc))) (held_of sc (snd (seq_run v_fix sc))) = true.
Proof.
  apply open_spec_of.
  - rewrite seq_fix_outcome. destruct (must_raise sc); eauto.
  - intros [x Hx]. rewrite seq_fix_outcome in Hx. destruct (must_raise sc) eqn:Em; [discriminate|].
    exact (seq_fix_dir sc Em).
  - exact (failed_creation_not_openable_seq sc).
Qed.

(* ------------------------------------------------------------------ call options *)
(* the progress display hands every chunk on, in order, and stops the way its source stops *)
Lemma indicator_loop_items xs : forall i, fst (indicator_loop xs i) = xs.
Proof.
  induction xs as [|x r IH]; intros i; simpl; [reflexivity|].
  specialize (IH (S i)). destruct (indicator_loop r (S i)) as [ys sh]. simpl in *. congruence.
Qed.

Lemma indicator_loop_shown xs : forall i, snd (indicator_loop xs i) = seq (S i) (length xs).
Proof.
  induction xs as [|x r IH]; intros i; simpl; [reflexivity|].
  specialize (IH (S i)). destruct (indicator_loop r (S i)) as [ys sh]. simpl in *. congruence.
Qed.

Theorem indicator_transparent s : fst (indicator s) = s.
Proof.
  unfold indicator. pose proof (indicator_loop_items (fst s) 0) as H.
  destruct (indicator_loop (fst s) 0) as [ys sh]. simpl in *. subst ys. destruct s; reflexivity.
Qed.

(* what it writes: steps 1..n, and the closing line only when the source ended normally *)
Theorem indicator_display xs e :
  snd (indicator (xs, e)) = seq 1 (length xs) ++ match e with SEnd => [length xs] | SErr => [] end.
Proof.
  unfold indicator. simpl fst. simpl snd.
  pose proof (indicator_loop_items xs 0) as H1. pose proof (indicator_loop_shown xs 0) as H2.
  destruct (indicator_loop xs 0) as [ys sh]. simpl in *. subst. destruct e; [reflexivity|].
  rewrite app_nil_r. reflexivity.
Qed.

Lemma indicator_keeps_items : keeps_items (fun s => fst (indicator s)).
Proof. intros s. rewrite indicator_transparent. reflexivity. Qed.

Lemma swallowing_keeps_items total : keeps_items (fun s => fst (indicator_return_in_finally total s)).
Proof.
  intros s. unfold indicator_return_in_finally. pose proof (indicator_loop_items (fst s) 0) as H.
  destruct (indicator_loop (fst s) 0) as [ys sh]. simpl in *. exact H.
Qed.

Lemma through_transparent w sc : (forall s, w s = s) -> through w sc = sc.
Proof.
  intros H. unfold through. destruct (reader_fault_at sc) eqn:E; [|reflexivity].
  rewrite H. unfold reader_stream. rewrite E. reflexivity.
Qed.

(* with the progress display on, the pipeline executes the very same scenario: every theorem of this file
   holds unchanged, in both modes, for the current and for the repaired algorithm *)
Theorem progress_irrelevant sc : with_progress sc = sc.
Proof. apply through_transparent. intros s. apply indicator_transparent. Qed.

Theorem options_do_not_matter v sc :
  seq_run v (with_progress sc) = seq_run v sc /\
  (forall s, reach v (with_progress sc) s <-> reach v sc s) /\
  (forall pol, run v (with_progress sc) pol = run v sc pol).
Proof. rewrite progress_irrelevant. repeat split; auto. Qed.

(* a wrapper that lets the error through is harmless whatever else it does with the display *)
Theorem error_preserving_wrapper_harmless w sc :
  (forall s, snd (w s) = snd s) -> through w sc = sc.
Proof.
  intros H. unfold through. destruct (reader_fault_at sc) eqn:E; [|reflexivity].
  specialize (H (reader_stream sc)). destruct (w (reader_stream sc)) as [ys e]. simpl in H.
  unfold reader_stream in H. rewrite E in H. simpl in H. subst e. reflexivity.
Qed.

(* ---- the display that leaves its `finally` block with `return` *)
Lemma reader_fault_mfault sc c : reader_fault_at sc = Some c -> mfault sc = Some c.
Proof.
  unfold reader_fault_at, mfault. destruct (flt sc) as [f|]; [|discriminate].
  destruct (where_ f); try discriminate. auto.
Qed.

Lemma reader_fault_lt sc c : reader_fault_at sc = Some c -> c < length (input sc).
Proof. intros H. apply mfault_lt. apply reader_fault_mfault. exact H. Qed.

Lemma swallowing_scen sc c : reader_fault_at sc = Some c ->
  with_swallowing_progress sc =
  {| input := firstn c (input sc); flt := None; pre := pre sc; overwrite := overwrite sc;
     early := early sc; empty_centre := empty_centre sc |}.
Proof.
  intros H. pose proof (reader_fault_lt sc c H) as L.
  unfold with_swallowing_progress, through. rewrite H. unfold reader_stream. rewrite H.
  unfold indicator_return_in_finally. simpl fst. simpl snd.
  pose proof (indicator_loop_items (firstn c (input sc)) 0) as H1.
  destruct (indicator_loop (firstn c (input sc)) 0) as [ys sh]. simpl in H1. subst ys. simpl fst.
  assert (E : length (firstn c (input sc)) <? length (input sc) = true).
  { apply Nat.ltb_lt. rewrite firstn_length. lia. }
  rewrite E. reflexivity.
Qed.

Lemma swallowing_initok sc c : reader_fault_at sc = Some c ->
  initok (with_swallowing_progress sc) = initok sc.
Proof.
  intros H. rewrite (swallowing_scen sc c H). unfold initok, init_dir, wfault_init. simpl.
  unfold reader_fault_at in H. destruct (flt sc) as [f|]; [|discriminate].
  destruct (where_ f); try discriminate. reflexivity.
Qed.

(* A reader fault at chunk c, nothing else wrong.  The call has to raise; behind the swallowing display the
   repaired pipeline, in sequential mode and in every interleaving of the parallel mode, RETURNS a catalog of
   the first c chunks, and that return violates the statement whatever the data are compared with. *)
Theorem swallowing_display_returns_truncated sc c :
  reader_fault_at sc = Some c -> early sc = false -> empty_centre sc = false -> initok sc = true ->
  must_raise sc = true /\
  fst (seq_run v_fix (with_swallowing_progress sc)) = Return (firstn c (input sc), true) /\
  (forall s, reach v_fix (with_swallowing_progress sc) s -> final s = true ->
             outcome_of s = Return (firstn c (input sc), true)) /\
  (forall d untouched opens, spec_ok sc (model_obs sc (Return d)) untouched opens = false).
Proof.
  intros H Ee Ec Hi.
  assert (Hm : must_raise sc = true).
  { unfold must_raise. rewrite (reader_fault_mfault sc c H). simpl. rewrite Bool.orb_true_r. reflexivity. }
  assert (Hn : must_raise (with_swallowing_progress sc) = false).
  { apply must_raise_false_iff. rewrite (swallowing_initok sc c H). rewrite (swallowing_scen sc c H).
    simpl. repeat split; auto. }
  assert (Hin : input (with_swallowing_progress sc) = firstn c (input sc)).
  { rewrite (swallowing_scen sc c H). reflexivity. }
  split; [exact Hm|]. split; [|split].
  - rewrite seq_fix_outcome, Hn, Hin. reflexivity.
  - intros s R F. rewrite (seq_par_same_outcome _ s R F), seq_fix_outcome, Hn, Hin. reflexivity.
  - intros d u o. unfold spec_ok.
    assert (Hr : cl_return_exact sc (model_obs sc (Return d)) = false)
      by (unfold cl_return_exact; simpl; rewrite Hm; reflexivity).
    rewrite Hr. destruct (cl_no_hang (model_obs sc (Return d))); reflexivity.
Qed.

(* the truncated catalog is not the input as soon as one chunk is missing *)
Lemma firstn_neq_self (l : list nat) c : c < length l -> firstn c l <> l.
Proof. intros L E. apply (f_equal (@length nat)) in E. rewrite firstn_length in E. lia. Qed.

Definition sc_swallow : scen := mk_scen 3 (mk_fault InReader 1 NonFinite) TAbsent false false false.
Theorem swallowing_display_refuted : exists sc,
  (forall s, reach v_fix sc s -> final s = true -> outcome_of s = Raise) /\
  fst (seq_run v_fix sc) = Raise /\
  (forall s, reach v_fix (with_swallowing_progress sc) s -> final s = true ->
             exists d, outcome_of s = Return (d, true) /\ d <> input sc) /\
  (exists d, fst (seq_run v_fix (with_swallowing_progress sc)) = Return (d, true) /\ d <> input sc).
Proof.
  exists sc_swallow.
  assert (H : reader_fault_at sc_swallow = Some 1) by reflexivity.
  destruct (swallowing_display_returns_truncated sc_swallow 1 H eq_refl eq_refl eq_refl) as (Hm & Hs & Hp & _).
  split; [|split; [|split]].
  - intros s R F. destruct (returns_iff_allowed _ s R F) as [[_ E]|[E _]]; [congruence|exact E].
  - rewrite seq_fix_outcome, Hm. reflexivity.
  - intros s R F. eexists. split; [exact (Hp s R F)|]. apply firstn_neq_self. simpl. lia.
  - eexists. split; [exact Hs|]. apply firstn_neq_self. simpl. lia.
Qed.

(* ------------------------------------------------------------------ the pre-existing path, concretely *)
Lemma target_eqb_eq a b : target_eqb a b = true -> a = b.
Proof.
  destruct a as [| | |o r i], b as [| | |o' r' i']; simpl; try discriminate; try reflexivity.
  intros H. apply andb_true_iff in H as [H Hi]. apply andb_true_iff in H as [Ho Hr].
  apply Bool.eqb_prop in Ho, Hi. apply nlist_eqb_eq in Hr. congruence.
Qed.

Lemma openable_p_plain sc d : openable_p (openable (pre sc)) sc d = openable d.
Proof.
  unfold openable_p. destruct (target_eqb d (pre sc)) eqn:E.
  - apply target_eqb_eq in E. subst d. destruct (openable (pre sc)); reflexivity.
  - simpl. rewrite orb_true_r, andb_true_r. reflexivity.
Qed.

Lemma held_of_p_plain sc d : held_of_p (openable (pre sc)) sc d = held_of sc d.
Proof. unfold held_of_p, held_of. rewrite openable_p_plain. reflexivity. Qed.

Lemma agree_p_plain v par sc ob u o :
  agree_p v par sc (openable (pre sc)) ob u o = agree v par sc ob u o.
Proof.
  unfold agree_p, agree. destruct (if par then par_all v sc else Some (seq_run v sc)) as [[x d]|]; [|reflexivity].
  rewrite openable_p_plain. reflexivity.
Qed.

Lemma agree_held_p_plain v par sc ob h :
  agree_held_p v par sc (openable (pre sc)) ob h = agree_held v par sc ob h.
Proof.
  unfold agree_held_p, agree_held. destruct (if par then par_all v sc else Some (seq_run v sc)) as [[x d]|]; [|reflexivity].
  rewrite held_of_p_plain. reflexivity.
Qed.

(* the checker on concrete paths extends the one on abstract states: when both readings are the same scenario and
   its pre-existing state opens exactly if it holds the marker, flags 0..10 are those of c09_case_held *)
Theorem path_checker_conservative par sc ob u o h :
  c09_path_low par sc sc (openable (pre sc)) ob u o h = c09_case_held par sc ob u o h.
Proof.
  unfold c09_path_low, c09_case_held, c09_case, judged.
  rewrite !agree_p_plain, !agree_held_p_plain, !orb_diag.
  replace (if spec_ok sc ob u o && cl_open_exact ob h then sc else sc) with sc by (destruct (_ && _); reflexivity).
  unfold code. cbn [code_from].
  destruct (agree_held v_cur par sc ob h || agree_held v_fix par sc ob h), (cl_open_exact ob h),
    (Bool.eqb o (negb (held_eqb h HClosed)) && implb (held_eqb h HPre) u); lia.
Qed.

Lemma with_reading_id sc : with_reading sc (pre sc, overwrite sc, openable (pre sc)) = sc.
Proof. destruct sc; reflexivity. Qed.

(* a valid catalog next to anything, an absent path, a file, a directory without the marker: one reading, and the
   abstract checker applies as it is *)
Definition plain_path (p : fspath) : bool :=
  match p with FLink _ => false | FDir es => Bool.eqb (dir_opens es) (has_marker es) | _ => true end.
Theorem path_checker_plain par sc p ob u o h around : plain_path p = true ->
  c09_case_path par sc p ob u o h around =
  c09_case_held par (on_path guard_marker sc p) ob u o h
  + 2048 * code [around; implb u (Bool.eqb o (openable (pre (on_path guard_marker sc p))))].
Proof.
  intros Hp. unfold c09_case_path, on_path, follow_reading.
  assert (E : code_reading guard_marker p (overwrite sc) = plain_reading guard_marker (resolve p) (overwrite sc))
    by (destruct p; try reflexivity; discriminate).
  rewrite <- E.
  set (r := code_reading guard_marker p (overwrite sc)).
  assert (Eo : r_opens r = openable (pre (with_reading sc r))).
  { unfold r. destruct p as [| | |es|q]; try reflexivity; [|discriminate].
    simpl in Hp. apply Bool.eqb_prop in Hp. cbn. unfold guard_marker. rewrite Hp. destruct (has_marker es); reflexivity. }
  rewrite Eo. rewrite path_checker_conservative. reflexivity.
Qed.

(* "is a catalog cache" is the presence of the marker in the listing, nothing else *)
Theorem guard_marker_exact es : guard_marker es = true <-> In EMarker es.
Proof.
  unfold guard_marker, has_marker. rewrite existsb_exists. split.
  - intros (e & Hin & He). destruct e; try discriminate. exact Hin.
  - intros Hin. exists EMarker. split; [exact Hin|reflexivity].
Qed.

(* the class: ANY guard that accepts only listings holding the marker obliges the pipeline to keep every existing
   path that is not a catalog cache - whatever the names and the number of its entries, a regular file, a link to
   anything - and to raise *)
Definition sound_guard (g : guard) : Prop := forall es, g es = true -> has_marker es = true.
Lemma guard_marker_sound : sound_guard guard_marker.
Proof. intros es H. exact H. Qed.

Lemma non_cache_must_stay g sc p : sound_guard g -> is_cache p = false -> p <> FAbsent ->
  must_stay (on_path g sc p) = true.
Proof.
  intros Hg Hc Hne. unfold on_path.
  destruct p as [| | |es|q]; try reflexivity; [congruence| |].
  - simpl in Hc. unfold must_stay, with_reading, code_reading, plain_reading, abs_dir, r_pre, r_ow. simpl.
    destruct (g es) eqn:E; [apply Hg in E; congruence|]. apply orb_true_r.
  - unfold code_reading. destruct (resolve q) as [| | |es'|q']; try reflexivity.
Qed.

Lemma link_must_stay g sc q : must_stay (on_path g sc (FLink q)) = true.
Proof. unfold on_path, code_reading. destruct (resolve q) as [| | |es'|q']; try reflexivity. Qed.

Lemma no_overwrite_must_stay g sc p : overwrite sc = false -> p <> FAbsent -> must_stay (on_path g sc p) = true.
Proof.
  intros Ho Hne. destruct p as [| | |es|q]; try reflexivity; [congruence| |apply link_must_stay].
  unfold on_path, must_stay, with_reading, code_reading, plain_reading, abs_dir, r_pre, r_ow. simpl. rewrite Ho. reflexivity.
Qed.

Lemma stays_everywhere sc : must_stay sc = true ->
  (forall s, reach v_fix sc s -> dk s = pre sc) /\
  snd (seq_run v_fix sc) = pre sc /\
  fst (seq_run v_fix sc) = Raise /\
  (forall s, reach v_fix sc s -> final s = true -> outcome_of s = Raise).
Proof.
  intros Hs. pose proof (must_stay_must_raise sc Hs) as Hr. repeat split.
  - intros s R. destruct (inv_reach sc s R) as (G & _). exact (G Hs).
  - exact (seq_stays sc Hs).
  - rewrite seq_fix_outcome, Hr. reflexivity.
  - intros s R F. destruct (returns_iff_allowed sc s R F) as [[_ H]|[H _]]; [congruence|exact H].
Qed.

Theorem non_cache_path_kept g sc p : sound_guard g -> is_cache p = false -> p <> FAbsent ->
  let sc' := on_path g sc p in
  (forall s, reach v_fix sc' s -> dk s = pre sc') /\ snd (seq_run v_fix sc') = pre sc' /\
  fst (seq_run v_fix sc') = Raise /\ (forall s, reach v_fix sc' s -> final s = true -> outcome_of s = Raise).
Proof. intros Hg Hc Hne. apply stays_everywhere. apply non_cache_must_stay; assumption. Qed.

Theorem no_overwrite_path_kept g sc p : overwrite sc = false -> p <> FAbsent ->
  let sc' := on_path g sc p in
  (forall s, reach v_fix sc' s -> dk s = pre sc') /\ snd (seq_run v_fix sc') = pre sc' /\
  fst (seq_run v_fix sc') = Raise /\ (forall s, reach v_fix sc' s -> final s = true -> outcome_of s = Raise).
Proof. intros Ho Hne. apply stays_everywhere. apply no_overwrite_must_stay; assumption. Qed.

Theorem link_path_kept g sc q :
  let sc' := on_path g sc (FLink q) in
  (forall s, reach v_fix sc' s -> dk s = pre sc') /\ snd (seq_run v_fix sc') = pre sc' /\
  fst (seq_run v_fix sc') = Raise /\ (forall s, reach v_fix sc' s -> final s = true -> outcome_of s = Raise).
Proof. apply stays_everywhere. apply link_must_stay. Qed.

(* a guard that goes by the NAMES of the entries ("the marker, or only entries called patch_...: the remains of an
   interrupted creation").  For EVERY listing without the marker whose entries are all called patch_... - the empty
   listing among them - and every fault-free creation with overwrite: the statement obliges the call to raise and to
   keep the directory, yet the pipeline behind that guard deletes it and returns the new catalog, sequentially and
   in every interleaving, and no such observation satisfies the statement *)
Theorem name_guard_deletes sc es :
  has_marker es = false -> forallb patch_named es = true ->
  overwrite sc = true -> early sc = false -> flt sc = None -> empty_centre sc = false ->
  let judged_sc := on_path guard_marker sc (FDir es) in
  let run_sc := on_path guard_names sc (FDir es) in
  must_raise judged_sc = true /\ must_stay judged_sc = true /\
  seq_run v_fix run_sc = (Return (input sc, true), TDir false (input sc) true) /\
  (forall s, reach v_fix run_sc s -> final s = true -> outcome_of s = Return (input sc, true)) /\
  (forall s, reach v_fix run_sc s -> final s = true -> dk s = TDir false (input sc) true) /\
  TDir false (input sc) true <> pre judged_sc /\
  (forall k c untouched opens, spec_ok judged_sc (ORet k c) untouched opens = false).
Proof.
  intros Hm Hn Ho He Hf Hc judged_sc run_sc.
  assert (Hst : must_stay judged_sc = true).
  { apply non_cache_must_stay; [exact guard_marker_sound|exact Hm|discriminate]. }
  assert (Hmr : must_raise judged_sc = true) by (apply must_stay_must_raise; exact Hst).
  assert (Hrun : must_raise run_sc = false).
  { unfold run_sc, on_path, must_raise, with_reading, code_reading, plain_reading, abs_dir, guard_names,
      mfault, wfault_init, wfault_final, r_pre, r_ow. simpl.
    rewrite He, Hf, Hc, Ho, Hm, Hn. reflexivity. }
  assert (Hin : input run_sc = input sc) by reflexivity.
  repeat split.
  - exact Hmr.
  - exact Hst.
  - rewrite (surjective_pairing (seq_run v_fix run_sc)), seq_fix_outcome, Hrun, (seq_fix_dir run_sc Hrun), Hin. reflexivity.
  - intros s R F. destruct (returns_iff_allowed run_sc s R F) as [[H _]|[_ H]]; [rewrite H, Hin; reflexivity|congruence].
  - intros s R F. destruct (returns_iff_allowed run_sc s R F) as [[H _]|[_ H]]; [|congruence].
    destruct (inv_reach run_sc s R) as (_ & _ & J). unfold outcome_of in H.
    destruct (mp s); try discriminate. destruct J as (_ & J). rewrite J, Hin. reflexivity.
  - unfold judged_sc, on_path, with_reading, code_reading, plain_reading, abs_dir, guard_marker, r_pre. simpl.
    rewrite Hm. discriminate.
  - intros k c u o. unfold spec_ok, cl_return_exact, cl_no_hang. rewrite Hmr. reflexivity.
Qed.

Definition sc_names : scen := mk_scen 3 None TAbsent true false false.
Theorem name_guard_refuted : ~ sound_guard guard_names /\ exists sc es,
  is_cache (FDir es) = false /\ guard_names es = true /\
  must_stay (on_path guard_marker sc (FDir es)) = true /\
  seq_run v_fix (on_path guard_names sc (FDir es)) = (Return (input sc, true), TDir false (input sc) true) /\
  par_all v_fix (on_path guard_names sc (FDir es)) = Some (Return (input sc, true), TDir false (input sc) true).
Proof.
  split.
  - intros H. specialize (H [] eq_refl). discriminate.
  - exists sc_names, []. vm_compute. repeat split; reflexivity.
Qed.

(* ------------------------------------------------------------------ columns of independent length *)
Lemma early_reach v sc s : early sc = true -> reach v sc s -> s = init sc \/ s = set_mp (init sc) MExc.
Proof.
  intros Ee R. induction R as [|s s' R IH St]; [left; reflexivity|].
  destruct IH as [->| ->]; destruct St as [St|St]; unfold step_main, step_writer in St; simpl in St;
    try rewrite Ee in St; try discriminate.
  right. injection St as <-. reflexivity.
Qed.

Lemma all_eq_cons n others : all_eq (n :: others) = true <-> Forall (fun L => L = n) others.
Proof.
  simpl. rewrite forallb_forall, Forall_forall. split; intros H x Hx.
  - symmetry. apply Nat.eqb_eq. exact (H x Hx).
  - apply Nat.eqb_eq. symmetry. exact (H x Hx).
Qed.

Lemma first_bad_none sl : first_bad sl = None <-> Forall (fun x => all_eq x = true) sl.
Proof.
  induction sl as [|x r IH]; simpl; [split; auto|].
  destruct (all_eq x) eqn:E.
  - split.
    + intros H. constructor; [exact E|]. apply IH. destruct (first_bad r); [discriminate|reflexivity].
    + intros H. inversion H; subst. apply IH in H3. rewrite H3. reflexivity.
  - split; [discriminate|]. intros H. inversion H; subst. congruence.
Qed.

Lemma first_bad_lt sl : forall c, first_bad sl = Some c -> c < length sl.
Proof.
  induction sl as [|x r IH]; simpl; intros c; [discriminate|].
  destruct (all_eq x).
  - destruct (first_bad r) as [k|]; simpl; [|discriminate]. intros [= <-]. specialize (IH k eq_refl). lia.
  - intros [= <-]. lia.
Qed.

(* the chunks of n records: c is one of them exactly if it starts before the end *)
Lemma chunk_index n cs c : 0 < cs -> (c < nchunks_of n cs <-> c * cs < n).
Proof.
  intros Hcs. unfold nchunks_of.
  pose proof (Nat.div_mod (n + (cs - 1)) cs ltac:(lia)) as Hd.
  pose proof (Nat.mod_upper_bound (n + (cs - 1)) cs ltac:(lia)) as Hm.
  set (q := (n + (cs - 1)) / cs) in *. set (r := (n + (cs - 1)) mod cs) in *.
  split; intros H.
  - assert (cs * (c + 1) <= cs * q) by (apply Nat.mul_le_mono_l; lia). nia.
  - destruct (Nat.lt_ge_cases c q) as [L|G]; [exact L|].
    assert (cs * q <= cs * c) by (apply Nat.mul_le_mono_l; lia). nia.
Qed.

(* one other column of length L next to n records: its slices have the length of the slices of the right
   ascension in EVERY chunk exactly if it is as long, or longer while n is a multiple of the chunk size *)
Lemma slices_agree n L cs : 0 < cs ->
  (forall c, c * cs < n -> slice_len L (c * cs) (c * cs + cs) = slice_len n (c * cs) (c * cs + cs)) <->
  (L = n \/ (n < L /\ n mod cs = 0)).
Proof.
  intros Hcs. unfold slice_len. split.
  - intros H. destruct (Nat.lt_trichotomy L n) as [Lt|[Eq|Gt]]; [exfalso| left; exact Eq | right; split; [exact Gt|]].
    + pose proof (Nat.div_mod L cs ltac:(lia)) as Hd.
      pose proof (Nat.mod_upper_bound L cs ltac:(lia)) as Hm.
      specialize (H (L / cs)). rewrite (Nat.mul_comm (L / cs) cs) in H.
      assert (cs * (L / cs) < n) as Hc by lia. specialize (H Hc). lia.
    + destruct (n mod cs) eqn:Em; [reflexivity|exfalso].
      pose proof (Nat.div_mod n cs ltac:(lia)) as Hd.
      pose proof (Nat.mod_upper_bound n cs ltac:(lia)) as Hm.
      specialize (H (n / cs)). rewrite (Nat.mul_comm (n / cs) cs) in H.
      assert (cs * (n / cs) < n) as Hc by lia. specialize (H Hc). lia.
  - intros [->|[Gt Em]] c Hc; [reflexivity|].
    pose proof (Nat.div_mod n cs ltac:(lia)) as Hd. rewrite Em in Hd.
    assert (c < n / cs) as Hlt.
    { destruct (Nat.lt_ge_cases c (n / cs)) as [A|A]; [exact A|].
      assert (cs * (n / cs) <= cs * c) by (apply Nat.mul_le_mono_l; lia). lia. }
    assert (cs * (c + 1) <= cs * (n / cs)) by (apply Nat.mul_le_mono_l; lia). lia.
Qed.

Lemma chunk_ok n others cs c :
  all_eq (chunk_lens (n :: others) cs c) = true <->
  Forall (fun L => slice_len L (c * cs) (c * cs + cs) = slice_len n (c * cs) (c * cs + cs)) others.
Proof.
  unfold chunk_lens. simpl map. rewrite all_eq_cons, !Forall_forall. split; intros H x Hx.
  - apply H. apply in_map_iff. exists x. split; [reflexivity|exact Hx].
  - apply in_map_iff in Hx. destruct Hx as (L & <- & HL). exact (H L HL).
Qed.

(* what the per-chunk comparison alone lets through: exactly the columns that are all as long as the right
   ascension, or longer while the record count is an exact multiple of the chunk size *)
Theorem chunk_check_misses_iff n others cs : 0 < cs ->
  first_bad (slices_of (n :: others) cs) = None <-> slips_through n cs others.
Proof.
  intros Hcs. rewrite first_bad_none. unfold slices_of, slips_through. simpl nrec.
  rewrite !Forall_forall. split.
  - intros H L HL. apply (slices_agree n L cs Hcs). intros c Hc.
    assert (In (chunk_lens (n :: others) cs c) (map (chunk_lens (n :: others) cs) (seq 0 (nchunks_of n cs)))) as Hi.
    { apply in_map. apply in_seq. apply (chunk_index n cs c Hcs) in Hc. lia. }
    specialize (H _ Hi). apply chunk_ok in H. rewrite Forall_forall in H. exact (H L HL).
  - intros H x Hx. apply in_map_iff in Hx. destruct Hx as (c & <- & Hc). apply in_seq in Hc.
    apply chunk_ok. apply Forall_forall. intros L HL.
    apply (proj2 (slices_agree n L cs Hcs) (H L HL)). apply (chunk_index n cs c Hcs). lia.
Qed.

Lemma slices_length lens cs : length (slices_of lens cs) = nchunks_of (nrec lens) cs.
Proof. unfold slices_of. rewrite map_length, seq_length. reflexivity. Qed.

Lemma all_eq_const n (others : list nat) : all_eq (n :: map (fun _ => n) others) = true.
Proof. apply all_eq_cons. apply Forall_forall. intros x Hx. apply in_map_iff in Hx. destruct Hx as (? & <- & _). reflexivity. Qed.

(* ... and treats them exactly as the table cut down to the length of the right ascension: the same scenario,
   hence the same executions and the same outcome in both modes *)
Theorem chunk_check_only_truncates n others cs p ow ea ec : 0 < cs -> slips_through n cs others ->
  cols_scen (chunk_check_only (n :: others) cs) p ow ea ec =
  cols_scen (SrcUpFront (n :: map (fun _ => n) others) cs) p ow ea ec.
Proof.
  intros Hcs H. apply (chunk_check_misses_iff n others cs Hcs) in H.
  unfold cols_scen, chunk_check_only. rewrite H, slices_length, all_eq_const. simpl. rewrite Bool.orb_false_r.
  reflexivity.
Qed.

(* every other pair of unequal columns is caught by the per-chunk comparison, in one of the chunks *)
Theorem chunk_check_catches n others cs p ow ea ec : 0 < cs -> ~ slips_through n cs others ->
  must_raise (cols_scen (chunk_check_only (n :: others) cs) p ow ea ec) = true.
Proof.
  intros Hcs H. destruct (first_bad (slices_of (n :: others) cs)) as [c|] eqn:E.
  - pose proof (first_bad_lt _ _ E) as Hlt.
    unfold must_raise, cols_scen, chunk_check_only. rewrite E. unfold mfault. simpl.
    rewrite seq_length. apply Nat.ltb_lt in Hlt. rewrite Hlt. simpl. rewrite Bool.orb_true_r. reflexivity.
  - exfalso. apply H. apply (chunk_check_misses_iff n others cs Hcs). exact E.
Qed.

(* the up-front comparison is complete: whatever the lengths, the chunk size, the path, the mode - unequal columns
   raise before anything starts, nothing is touched at any moment, and the statement asks for exactly that *)
Theorem upfront_check_complete lens cs p ow ea ec : all_eq lens = false ->
  let sc := cols_scen (SrcUpFront lens cs) p ow ea ec in
  cols_unequal (SrcUpFront lens cs) = true /\ must_raise sc = true /\
  (forall v, seq_run v sc = (Raise, p)) /\
  (forall v s, reach v sc s -> dk s = p) /\
  (forall v s, reach v sc s -> final s = true -> outcome_of s = Raise) /\
  (forall v s, reach v sc s -> ~ stuck v sc s).
Proof.
  intros H sc.
  assert (early sc = true) as Ee by (unfold sc, cols_scen; simpl; rewrite H; apply Bool.orb_true_r).
  repeat split.
  - simpl. rewrite H. reflexivity.
  - unfold must_raise. rewrite Ee. reflexivity.
  - intros v. unfold seq_run. rewrite Ee. reflexivity.
  - intros v s R. destruct (early_reach v sc s Ee R) as [->| ->]; reflexivity.
  - intros v s R F. destruct (early_reach v sc s Ee R) as [->| ->]; [discriminate|reflexivity].
  - intros v s R (F & St). destruct (early_reach v sc s Ee R) as [->| ->]; [|discriminate].
    apply (St (set_mp (init sc) MExc)). left. unfold step_main. cbn [init mp]. rewrite Ee. reflexivity.
Qed.

(* equal columns: the scenario of the source is the plain one *)
Theorem equal_columns_plain lens cs p ow ea ec : all_eq lens = true ->
  cols_scen (SrcUpFront lens cs) p ow ea ec = mk_scen (nchunks_of (nrec lens) cs) None p ow ea ec.
Proof. intros H. unfold cols_scen. rewrite H. simpl. rewrite Bool.orb_false_r. reflexivity. Qed.

(* the per-chunk comparison alone is not enough: columns of unequal length for which the repaired pipeline behind it
   returns a catalog in both modes, and no returned observation satisfies the statement *)
Theorem chunk_check_alone_returns n others cs : 0 < cs -> 0 < n -> slips_through n cs others ->
  all_eq (n :: others) = false ->
  let judged_sc := cols_scen (SrcUpFront (n :: others) cs) TAbsent false false false in
  let run_sc := cols_scen (chunk_check_only (n :: others) cs) TAbsent false false false in
  must_raise judged_sc = true /\
  fst (seq_run v_fix run_sc) = Return (input run_sc, true) /\
  (forall s, reach v_fix run_sc s -> final s = true -> outcome_of s = Return (input run_sc, true)) /\
  (forall k c untouched opens, spec_ok judged_sc (ORet k c) untouched opens = false).
Proof.
  intros Hcs Hn Hs Hne judged_sc run_sc.
  assert (must_raise judged_sc = true) as Hj.
  { assert (early judged_sc = true) as He by (unfold judged_sc, cols_scen; cbn [early mk_scen]; rewrite Hne; reflexivity).
    unfold must_raise. rewrite He. reflexivity. }
  assert (run_sc = mk_scen (nchunks_of n cs) None TAbsent false false false) as Hr.
  { unfold run_sc. rewrite (chunk_check_only_truncates n others cs _ _ _ _ Hcs Hs).
    rewrite equal_columns_plain by apply all_eq_const. reflexivity. }
  assert (must_raise run_sc = false) as Hm by (rewrite Hr; reflexivity).
  repeat split.
  - exact Hj.
  - rewrite seq_fix_outcome, Hm. reflexivity.
  - intros s R F. rewrite (seq_par_same_outcome run_sc s R F), seq_fix_outcome, Hm. reflexivity.
  - intros k c u o. unfold spec_ok, cl_return_exact. rewrite Hj. simpl. reflexivity.
Qed.

Theorem chunk_check_alone_refuted : exists lens cs,
  cols_unequal (SrcUpFront lens cs) = true /\
  cols_unequal (chunk_check_only lens cs) = false /\
  must_raise (cols_scen (SrcUpFront lens cs) TAbsent false false false) = true /\
  seq_run v_fix (cols_scen (chunk_check_only lens cs) TAbsent false false false) = (Return ([1; 2], true), TDir false [1; 2] true) /\
  par_all v_fix (cols_scen (chunk_check_only lens cs) TAbsent false false false) = Some (Return ([1; 2], true), TDir false [1; 2] true).
Proof. exists [4; 6; 4], 2. vm_compute. repeat split; reflexivity. Qed.
